(* BatchedProofs.v — lemmas for C15 about the loader loop of model/Batched.v.
   The partial evaluator is abstract; every Hypothesis below is part of the trusted base of C15
   (listed in notes/C15.md). *)
From Coq Require Import List Bool ZArith String Lia.
Import ListNotations.
From Cedar Require Import Base Sexp Syntax Authz Batched.

Section BatchedProofs.
  Variable U : Type.
  Variable U_eqb : U -> U -> bool.
  Variable D : Type.
  Variable empty_entity : U -> D.
  Variable residual : Type.
  Variable classify : residual -> rclass.
  Variable lits : residual -> list U.
  Variable reinterp : pstore U D -> residual -> residual.
  Variable rs0 : list (rpol residual).

  Notation loopX := (loop U U_eqb D empty_entity residual classify lits reinterp).
  Notation decideX := (decide residual classify).
  Notation hasX := (has residual classify).
  Notation batchedX := (batched U U_eqb D empty_entity residual classify lits reinterp rs0).
  Notation initX := (init U D residual reinterp rs0).

  Definition mapf (f : residual -> residual) (rs : list (rpol residual)) : list (rpol residual) :=
    map (fun er => (fst er, f (snd er))) rs.

  Lemma mapf_mapf : forall f g rs, mapf g (mapf f rs) = mapf (fun r => g (f r)) rs.
  Proof. intros. unfold mapf. rewrite map_map. reflexivity. Qed.

  Lemma mapf_id : forall rs, mapf (fun r => r) rs = rs.
  Proof. intros. unfold mapf. induction rs as [|[e r] tl IH]; simpl; [reflexivity|]. f_equal. exact IH. Qed.

  (* Evaluator::interpret returns Concrete / Error residuals unchanged *)
  Definition stable (f : residual -> residual) : Prop := forall r, classify r <> RPartial -> f r = r.

  Lemma rclass_eqb_eq : forall a b, rclass_eqb a b = true <-> a = b.
  Proof. intros a b; destruct a, b; simpl; split; intro H; try reflexivity; try discriminate. Qed.

  Lemma rtrue_np : RTrue <> RPartial.
  Proof. discriminate. Qed.

  Lemma has_keep : forall p c f rs, stable f -> c <> RPartial ->
    hasX p c rs = true -> hasX p c (mapf f rs) = true.
  Proof.
    intros p c f rs Hs Hc. unfold has, mapf. induction rs as [|[e r] tl IH]; simpl; intro H; [discriminate|].
    apply orb_true_iff in H. apply orb_true_iff. destruct H as [H|H].
    - left. apply andb_true_iff in H. destruct H as [Hp Hr]. apply rclass_eqb_eq in Hr.
      rewrite Hs; [|congruence]. rewrite Hp. simpl. apply rclass_eqb_eq. exact Hr.
    - right. apply IH. exact H.
  Qed.

  Lemma has_same : forall p c f rs, stable f ->
    hasX p RPartial rs = false -> hasX p c (mapf f rs) = hasX p c rs.
  Proof.
    intros p c f rs Hs. unfold has, mapf. induction rs as [|[e r] tl IH]; simpl; intro H; [reflexivity|].
    apply orb_false_iff in H. destruct H as [H1 H2]. rewrite (IH H2). f_equal.
    destruct (p e) eqn:Hp; simpl; [|reflexivity]. simpl in H1.
    rewrite Hs; [reflexivity|]. intro E. rewrite E in H1. discriminate.
  Qed.

  Lemma decide_stable : forall f rs d, stable f -> decideX rs = Some d -> decideX (mapf f rs) = Some d.
  Proof.
    intros f rs d Hs. unfold decide.
    destruct (hasX eff_is_forbid RTrue rs) eqn:tf.
    - intro H. rewrite (has_keep _ _ _ _ Hs rtrue_np tf). exact H.
    - destruct (hasX eff_is_permit RTrue rs) eqn:tp.
      + destruct (hasX eff_is_forbid RPartial rs) eqn:rf.
        * destruct (hasX eff_is_permit RPartial rs); intro H; discriminate.
        * intro H.
          rewrite (has_same eff_is_forbid RTrue f rs Hs rf), tf.
          rewrite (has_same eff_is_forbid RPartial f rs Hs rf), rf.
          rewrite (has_keep _ _ _ _ Hs rtrue_np tp).
          destruct (hasX eff_is_permit RPartial rs); destruct (hasX eff_is_permit RPartial (mapf f rs)); exact H.
      + destruct (hasX eff_is_permit RPartial rs) eqn:rp.
        * destruct (hasX eff_is_forbid RPartial rs); intro H; discriminate.
        * intro H.
          rewrite (has_same eff_is_permit RTrue f rs Hs rp), tp.
          rewrite (has_same eff_is_permit RPartial f rs Hs rp), rp.
          destruct (hasX eff_is_forbid RPartial rs); destruct (hasX eff_is_forbid RTrue (mapf f rs));
            destruct (hasX eff_is_forbid RPartial (mapf f rs)); exact H.
  Qed.

  (* no Partial residual left: Response::new "guaranteed to arrive at a Decision" *)
  Lemma has_partial_none : forall p rs, no_partial residual classify rs = true -> hasX p RPartial rs = false.
  Proof.
    intros p rs. unfold no_partial, has, is_partial. induction rs as [|[e r] tl IH]; simpl; intro H; [reflexivity|].
    apply andb_true_iff in H. destruct H as [H1 H2]. rewrite (IH H2).
    apply negb_true_iff in H1. rewrite H1. rewrite andb_false_r. reflexivity.
  Qed.

  Lemma decide_no_partial : forall rs, no_partial residual classify rs = true -> exists d, decideX rs = Some d.
  Proof.
    intros rs H. unfold decide. rewrite (has_partial_none eff_is_permit rs H), (has_partial_none eff_is_forbid rs H).
    destruct (hasX eff_is_forbid RTrue rs); destruct (hasX eff_is_permit RTrue rs); eauto.
  Qed.

  Section Loop.
    Variable l : loader U D.
    Hypothesis reinterp_stable : forall st, stable (reinterp st).

    Lemma loop_stable : forall n st rs calls st1 rs1 c1,
      loopX l n st rs calls = Some (st1, rs1, c1) -> exists g, stable g /\ rs1 = mapf g rs.
    Proof.
      induction n as [|n IH]; intros st rs calls st1 rs1 c1 H; simpl in H.
      - inversion H; subst. exists (fun r => r). split; [intros r _; reflexivity|]. symmetry; apply mapf_id.
      - destruct (add_all U U_eqb D empty_entity st (l (to_load U U_eqb D residual lits st rs))) as [st'|] eqn:Ha; [|discriminate].
        fold (mapf (reinterp st') rs) in H.
        destruct (no_partial residual classify (mapf (reinterp st') rs)) eqn:Hn.
        + inversion H; subst. eexists. split; [|reflexivity]. apply reinterp_stable.
        + apply IH in H. destruct H as [g [Hg E]]. exists (fun r => g (reinterp st' r)). split.
          * intros r Hr. rewrite (reinterp_stable st' r Hr). apply Hg. exact Hr.
          * rewrite E. apply mapf_mapf.
    Qed.

    Lemma loop_more : forall n st rs calls st1 rs1 c1 k,
      loopX l n st rs calls = Some (st1, rs1, c1) ->
      loopX l (n + k) st rs calls = None \/
      exists st2 rs2 c2 g, loopX l (n + k) st rs calls = Some (st2, rs2, c2) /\ stable g /\ rs2 = mapf g rs1.
    Proof.
      induction n as [|n IH]; intros st rs calls st1 rs1 c1 k H.
      - simpl in H. inversion H; subst. simpl.
        destruct (loopX l k st1 rs1 c1) as [[[st2 rs2] c2]|] eqn:E; [|left; reflexivity].
        right. destruct (loop_stable _ _ _ _ _ _ _ E) as [g [Hg Eg]]. exists st2, rs2, c2, g. auto.
      - simpl in H. simpl.
        destruct (add_all U U_eqb D empty_entity st (l (to_load U U_eqb D residual lits st rs))) as [st'|] eqn:Ha; [|discriminate].
        fold (mapf (reinterp st') rs) in H. fold (mapf (reinterp st') rs).
        destruct (no_partial residual classify (mapf (reinterp st') rs)) eqn:Hn.
        + right. do 3 eexists. exists (fun r => r). split; [reflexivity|]. split; [intros r _; reflexivity|].
          inversion H; subst. symmetry; apply mapf_id.
        + eapply IH. exact H.
    Qed.

    Theorem monotone_weak : forall n k d,
      batchedX l n = BOk d -> batchedX l (n + k) = BOk d \/ batchedX l (n + k) = BErrDuplicate.
    Proof.
      intros n k d. unfold batched, batched_full.
      destruct (loopX l n [] initX []) as [[[st1 rs1] c1]|] eqn:E; simpl; [|discriminate].
      destruct (decideX rs1) as [d1|] eqn:Ed; simpl; [|discriminate]. intro H. inversion H; subst.
      destruct (loop_more _ _ _ _ _ _ _ k E) as [N|[st2 [rs2 [c2 [g [E2 [Hg Eg]]]]]]].
      - right. rewrite N. reflexivity.
      - left. rewrite E2. simpl. subst rs2. rewrite (decide_stable g rs1 d Hg Ed). reflexivity.
    Qed.

    (* the loader never answers with an id that is already in the partial store (true of a loader
       that answers exactly the requested ids, which were filtered and deduplicated) *)
    Hypothesis loader_no_collision : forall st rs, add_all U U_eqb D empty_entity st (l (to_load U U_eqb D residual lits st rs)) <> None.

    Lemma loop_some : forall n st rs calls, loopX l n st rs calls <> None.
    Proof.
      induction n as [|n IH]; intros st rs calls; simpl; [discriminate|].
      destruct (add_all U U_eqb D empty_entity st (l (to_load U U_eqb D residual lits st rs))) as [st'|] eqn:Ha.
      - destruct (no_partial residual classify (map (fun er => (fst er, reinterp st' (snd er))) rs)); [discriminate|apply IH].
      - exfalso. exact (loader_no_collision st rs Ha).
    Qed.

    Theorem insufficient_only : forall n, batchedX l n = BInsufficient \/ exists d, batchedX l n = BOk d.
    Proof.
      intro n. unfold batched, batched_full.
      destruct (loopX l n [] initX []) as [[[st1 rs1] c1]|] eqn:E.
      - simpl. destruct (decideX rs1); [right; eauto|left; reflexivity].
      - exfalso. exact (loop_some _ _ _ _ E).
    Qed.

    Theorem monotone : forall n k d, batchedX l n = BOk d -> batchedX l (n + k) = BOk d.
    Proof.
      intros n k d H. destruct (monotone_weak n k d H) as [A|A]; [exact A|].
      destruct (insufficient_only (n + k)) as [B|[d' B]]; rewrite B in A; discriminate.
    Qed.

    (* an Insufficient outcome means the budget was used up with a Partial residual left *)
    Lemma loop_calls : forall n st rs calls st1 rs1 c1,
      loopX l n st rs calls = Some (st1, rs1, c1) ->
      no_partial residual classify rs1 = true \/ length c1 = (length calls + n)%nat.
    Proof.
      induction n as [|n IH]; intros st rs calls st1 rs1 c1 H; simpl in H.
      - inversion H; subst. right. lia.
      - destruct (add_all U U_eqb D empty_entity st (l (to_load U U_eqb D residual lits st rs))) as [st'|]; [|discriminate].
        destruct (no_partial residual classify (map (fun er => (fst er, reinterp st' (snd er))) rs)) eqn:Hn.
        + inversion H; subst. left. exact Hn.
        + apply IH in H. destruct H as [H|H]; [left; exact H|right]. rewrite H. rewrite app_length. simpl. lia.
    Qed.

    Theorem insufficient_uses_budget : forall n,
      batchedX l n = BInsufficient ->
      length (snd (batched_full U U_eqb D empty_entity residual classify lits reinterp rs0 l n)) = n.
    Proof.
      intro n. unfold batched, batched_full.
      destruct (loopX l n [] initX []) as [[[st1 rs1] c1]|] eqn:E; simpl; [|discriminate].
      destruct (decideX rs1) eqn:Ed; simpl; [discriminate|]. intros _.
      destruct (loop_calls _ _ _ _ _ _ _ E) as [H|H]; [|simpl in H; exact H].
      destruct (decide_no_partial rs1 H) as [d Hd]. rewrite Hd in Ed. discriminate.
    Qed.
  End Loop.

  (* ---------------------------------------------------------------- agreement with the concrete decision *)
  Section Agree.
    Variable l : loader U D.
    Variable conc : residual -> rclass.          (* concrete outcome of the residual over the full store *)
    Variable good : pstore U D -> Prop.          (* "the partial store is what the loader gives for the full store" *)
    Hypothesis good_nil : good [].
    Hypothesis good_add : forall st ids st', good st -> add_all U U_eqb D empty_entity st (l ids) = Some st' -> good st'.
    (* residual soundness (C14): a decided residual is the concrete outcome; re-interpretation on a
       good partial store preserves the concrete meaning *)
    Hypothesis sound_class : forall r, classify r <> RPartial -> conc r = classify r.
    Hypothesis sound_reinterp : forall st r, good st -> conc (reinterp st r) = conc r.

    Definition chas (p : effect -> bool) (c : rclass) (rs : list (rpol residual)) : bool :=
      existsb (fun er => p (fst er) && rclass_eqb (conc (snd er)) c) rs.
    (* the ordinary authorizer (C01): a satisfied forbid denies; otherwise a satisfied permit allows *)
    Definition cdecide (rs : list (rpol residual)) : decision :=
      if chas eff_is_forbid RTrue rs then Deny else if chas eff_is_permit RTrue rs then Allow else Deny.

    Definition keeps (f : residual -> residual) : Prop := forall r, conc (f r) = conc r.

    Lemma chas_mapf : forall p c f rs, keeps f -> chas p c (mapf f rs) = chas p c rs.
    Proof.
      intros p c f rs Hk. unfold chas, mapf. induction rs as [|[e r] tl IH]; simpl; [reflexivity|].
      rewrite IH. rewrite Hk. reflexivity.
    Qed.

    Lemma cdecide_mapf : forall f rs, keeps f -> cdecide (mapf f rs) = cdecide rs.
    Proof. intros. unfold cdecide. rewrite !chas_mapf by assumption. reflexivity. Qed.

    Lemma has_chas_true : forall p rs, hasX p RTrue rs = true -> chas p RTrue rs = true.
    Proof.
      intros p rs. unfold has, chas. induction rs as [|[e r] tl IH]; simpl; intro H; [discriminate|].
      apply orb_true_iff in H. apply orb_true_iff. destruct H as [H|H]; [left|right; auto].
      apply andb_true_iff in H. destruct H as [Hp Hr]. rewrite Hp. simpl.
      apply rclass_eqb_eq in Hr. rewrite sound_class; [|rewrite Hr; discriminate]. rewrite Hr. reflexivity.
    Qed.

    Lemma has_chas_false : forall p rs, hasX p RTrue rs = false -> hasX p RPartial rs = false -> chas p RTrue rs = false.
    Proof.
      intros p rs. unfold has, chas. induction rs as [|[e r] tl IH]; simpl; intros H1 H2; [reflexivity|].
      apply orb_false_iff in H1. apply orb_false_iff in H2. destruct H1 as [A1 B1]. destruct H2 as [A2 B2].
      rewrite (IH B1 B2). rewrite orb_false_r.
      destruct (p e); simpl in *; [|reflexivity].
      rewrite sound_class; [exact A1|]. intro E. rewrite E in A2. discriminate.
    Qed.

    Lemma decide_sound : forall rs d, decideX rs = Some d -> d = cdecide rs.
    Proof.
      intros rs d. unfold decide, cdecide.
      destruct (hasX eff_is_forbid RTrue rs) eqn:tf.
      - intro H. inversion H. rewrite (has_chas_true _ _ tf). reflexivity.
      - destruct (hasX eff_is_permit RTrue rs) eqn:tp.
        + destruct (hasX eff_is_forbid RPartial rs) eqn:rf.
          * destruct (hasX eff_is_permit RPartial rs); intro H; discriminate.
          * intro H. rewrite (has_chas_false _ _ tf rf). rewrite (has_chas_true _ _ tp).
            destruct (hasX eff_is_permit RPartial rs); inversion H; reflexivity.
        + destruct (hasX eff_is_permit RPartial rs) eqn:rp.
          * destruct (hasX eff_is_forbid RPartial rs); intro H; discriminate.
          * intro H. rewrite (has_chas_false _ _ tp rp).
            destruct (hasX eff_is_forbid RPartial rs); inversion H; destruct (chas eff_is_forbid RTrue rs); reflexivity.
    Qed.

    Lemma loop_keeps : forall n st rs calls st1 rs1 c1,
      good st -> loopX l n st rs calls = Some (st1, rs1, c1) -> exists g, keeps g /\ rs1 = mapf g rs.
    Proof.
      induction n as [|n IH]; intros st rs calls st1 rs1 c1 G H; simpl in H.
      - inversion H; subst. exists (fun r => r). split; [intro r; reflexivity|]. symmetry; apply mapf_id.
      - destruct (add_all U U_eqb D empty_entity st (l (to_load U U_eqb D residual lits st rs))) as [st'|] eqn:Ha; [|discriminate].
        assert (G' : good st') by (eapply good_add; eauto).
        fold (mapf (reinterp st') rs) in H.
        destruct (no_partial residual classify (mapf (reinterp st') rs)) eqn:Hn.
        + inversion H; subst. eexists. split; [|reflexivity]. intro r; apply sound_reinterp; assumption.
        + apply (IH _ _ _ _ _ _ G') in H. destruct H as [g [Hg E]]. exists (fun r => g (reinterp st' r)). split.
          * intro r. rewrite Hg. apply sound_reinterp. exact G'.
          * rewrite E. apply mapf_mapf.
    Qed.

    Theorem agree : forall n d, batchedX l n = BOk d -> d = cdecide rs0.
    Proof.
      intros n d. unfold batched, batched_full.
      destruct (loopX l n [] initX []) as [[[st1 rs1] c1]|] eqn:E; simpl; [|discriminate].
      destruct (decideX rs1) as [d1|] eqn:Ed; simpl; [|discriminate]. intro H. inversion H; subst.
      destruct (loop_keeps _ _ _ _ _ _ _ good_nil E) as [g [Hg Eg]].
      rewrite (decide_sound _ _ Ed). subst rs1. rewrite (cdecide_mapf g _ Hg).
      unfold init. fold (mapf (reinterp []) rs0). apply cdecide_mapf. intro r. apply sound_reinterp. exact good_nil.
    Qed.
  End Agree.
End BatchedProofs.
