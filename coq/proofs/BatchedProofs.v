(* BatchedProofs.v — lemmas for C15 about the loader loop of model/Batched.v.
   The partial evaluator is abstract; every Hypothesis below is part of the trusted base of C15
   (listed in notes/C15.md). *)
From Coq Require Import List Bool ZArith String Lia.
Import ListNotations.
From Cedar Require Import Base Sexp Syntax Authz Batched.

Section BatchedProofs.
  Variable U : Type.
  Variable U_eqb : U -> U -> bool.
  Variable D : Type.
  Variable empty_entity : U -> D.
  Variable residual : Type.
  Variable classify : residual -> rclass.
  Variable lits : residual -> list U.
  Variable reinterp : pstore U D -> residual -> residual.
  Variable rs0 : list (rpol residual).

  Notation loopX := (loop U U_eqb D empty_entity residual classify lits reinterp).
  Notation decideX := (decide residual classify).
  Notation hasX := (has residual classify).
  Notation batchedX := (batched U U_eqb D empty_entity residual classify lits reinterp rs0).
  Notation batched_fullX := (batched_full U U_eqb D empty_entity residual classify lits reinterp rs0).
  Notation initX := (init U D residual reinterp rs0).
  Notation add_allX := (add_all U U_eqb D empty_entity).
  Notation to_loadX := (to_load U U_eqb D residual lits).
  Notation loadedX := (loaded U U_eqb D).
  Notation no_partialX := (no_partial residual classify).

  Definition mapf (f : residual -> residual) (rs : list (rpol residual)) : list (rpol residual) :=
    map (fun er => (fst er, f (snd er))) rs.

  Lemma mapf_mapf : forall f g rs, mapf g (mapf f rs) = mapf (fun r => g (f r)) rs.
  Proof. intros. unfold mapf. rewrite map_map. reflexivity. Qed.

  Lemma mapf_id : forall rs, mapf (fun r => r) rs = rs.
  Proof. intros. unfold mapf. induction rs as [|[e r] tl IH]; simpl; [reflexivity|]. f_equal. exact IH. Qed.

  (* Evaluator::interpret returns Concrete / Error residuals unchanged *)
  Definition stable (f : residual -> residual) : Prop := forall r, classify r <> RPartial -> f r = r.

  Lemma rclass_eqb_eq : forall a b, rclass_eqb a b = true <-> a = b.
  Proof. intros a b; destruct a, b; simpl; split; intro H; try reflexivity; try discriminate. Qed.

  Lemma rtrue_np : RTrue <> RPartial.
  Proof. discriminate. Qed.

  Lemma has_keep : forall p c f rs, stable f -> c <> RPartial ->
    hasX p c rs = true -> hasX p c (mapf f rs) = true.
  Proof.
    intros p c f rs Hs Hc. unfold has, mapf. induction rs as [|[e r] tl IH]; simpl; intro H; [discriminate|].
    apply orb_true_iff in H. apply orb_true_iff. destruct H as [H|H].
    - left. apply andb_true_iff in H. destruct H as [Hp Hr]. apply rclass_eqb_eq in Hr.
      rewrite Hs; [|congruence]. rewrite Hp. simpl. apply rclass_eqb_eq. exact Hr.
    - right. apply IH. exact H.
  Qed.

  Lemma has_same : forall p c f rs, stable f ->
    hasX p RPartial rs = false -> hasX p c (mapf f rs) = hasX p c rs.
  Proof.
    intros p c f rs Hs. unfold has, mapf. induction rs as [|[e r] tl IH]; simpl; intro H; [reflexivity|].
    apply orb_false_iff in H. destruct H as [H1 H2]. rewrite (IH H2). f_equal.
    destruct (p e) eqn:Hp; simpl; [|reflexivity]. simpl in H1.
    rewrite Hs; [reflexivity|]. intro E. rewrite E in H1. discriminate.
  Qed.

  Lemma decide_stable : forall f rs d, stable f -> decideX rs = Some d -> decideX (mapf f rs) = Some d.
  Proof.
    intros f rs d Hs. unfold decide.
    destruct (hasX eff_is_forbid RTrue rs) eqn:tf.
    - intro H. rewrite (has_keep _ _ _ _ Hs rtrue_np tf). exact H.
    - destruct (hasX eff_is_permit RTrue rs) eqn:tp.
      + destruct (hasX eff_is_forbid RPartial rs) eqn:rf.
        * destruct (hasX eff_is_permit RPartial rs); intro H; discriminate.
        * intro H.
          rewrite (has_same eff_is_forbid RTrue f rs Hs rf), tf.
          rewrite (has_same eff_is_forbid RPartial f rs Hs rf), rf.
          rewrite (has_keep _ _ _ _ Hs rtrue_np tp).
          destruct (hasX eff_is_permit RPartial rs); destruct (hasX eff_is_permit RPartial (mapf f rs)); exact H.
      + destruct (hasX eff_is_permit RPartial rs) eqn:rp.
        * destruct (hasX eff_is_forbid RPartial rs); intro H; discriminate.
        * intro H.
          rewrite (has_same eff_is_permit RTrue f rs Hs rp), tp.
          rewrite (has_same eff_is_permit RPartial f rs Hs rp), rp.
          destruct (hasX eff_is_forbid RPartial rs); destruct (hasX eff_is_forbid RTrue (mapf f rs));
            destruct (hasX eff_is_forbid RPartial (mapf f rs)); exact H.
  Qed.

  (* no Partial residual left: Response::new "guaranteed to arrive at a Decision" *)
  Lemma has_partial_none : forall p rs, no_partialX rs = true -> hasX p RPartial rs = false.
  Proof.
    intros p rs. unfold no_partial, has, is_partial. induction rs as [|[e r] tl IH]; simpl; intro H; [reflexivity|].
    apply andb_true_iff in H. destruct H as [H1 H2]. rewrite (IH H2).
    apply negb_true_iff in H1. rewrite H1. rewrite andb_false_r. reflexivity.
  Qed.

  Lemma decide_no_partial : forall rs, no_partialX rs = true -> exists d, decideX rs = Some d.
  Proof.
    intros rs H. unfold decide. rewrite (has_partial_none eff_is_permit rs H), (has_partial_none eff_is_forbid rs H).
    destruct (hasX eff_is_forbid RTrue rs); destruct (hasX eff_is_permit RTrue rs); eauto.
  Qed.

  (* ---------------------------------------------------------------- the fixed duplicate handling *)
  (* an entity the loader returns again (already in the partial store) is ignored *)
  Lemma add_all_ignores_loaded : forall st u e ans,
    loadedX st u = true -> add_allX st ((u, e) :: ans) = add_allX st ans.
  Proof. intros st u e ans H. simpl. rewrite H. reflexivity. Qed.

  Section Loop.
    Variable l : loader U D.
    Hypothesis reinterp_stable : forall st, stable (reinterp st).

    Lemma loop_stable : forall n st rs calls st1 rs1 c1,
      loopX l n st rs calls = (st1, rs1, c1) -> exists g, stable g /\ rs1 = mapf g rs.
    Proof.
      induction n as [|n IH]; intros st rs calls st1 rs1 c1 H; simpl in H.
      - inversion H; subst. exists (fun r => r). split; [intros r _; reflexivity|]. symmetry; apply mapf_id.
      - set (st' := add_allX st (l (to_loadX st rs))) in *.
        fold (mapf (reinterp st') rs) in H.
        destruct (no_partialX (mapf (reinterp st') rs)) eqn:Hn.
        + inversion H; subst. eexists. split; [|reflexivity]. apply reinterp_stable.
        + apply IH in H. destruct H as [g [Hg E]]. exists (fun r => g (reinterp st' r)). split.
          * intros r Hr. rewrite (reinterp_stable st' r Hr). apply Hg. exact Hr.
          * rewrite E. apply mapf_mapf.
    Qed.

    Lemma loop_more : forall n st rs calls st1 rs1 c1 k,
      loopX l n st rs calls = (st1, rs1, c1) ->
      exists st2 rs2 c2 g, loopX l (n + k) st rs calls = (st2, rs2, c2) /\ stable g /\ rs2 = mapf g rs1.
    Proof.
      induction n as [|n IH]; intros st rs calls st1 rs1 c1 k H.
      - simpl in H. inversion H; subst. simpl.
        destruct (loopX l k st1 rs1 c1) as [[st2 rs2] c2] eqn:E.
        destruct (loop_stable _ _ _ _ _ _ _ E) as [g [Hg Eg]]. exists st2, rs2, c2, g. auto.
      - simpl in H. simpl.
        set (st' := add_allX st (l (to_loadX st rs))) in *.
        fold (mapf (reinterp st') rs) in H. fold (mapf (reinterp st') rs).
        destruct (no_partialX (mapf (reinterp st') rs)) eqn:Hn.
        + do 3 eexists. exists (fun r => r). split; [reflexivity|]. split; [intros r _; reflexivity|].
          inversion H; subst. symmetry; apply mapf_id.
        + eapply IH. exact H.
    Qed.

    Theorem monotone : forall n k d, batchedX l n = BOk d -> batchedX l (n + k) = BOk d.
    Proof.
      intros n k d. unfold batched, batched_full.
      destruct (loopX l n [] initX []) as [[st1 rs1] c1] eqn:E; simpl.
      destruct (decideX rs1) as [d1|] eqn:Ed; simpl; [|discriminate]. intro H. inversion H; subst.
      destruct (loop_more _ _ _ _ _ _ _ k E) as [st2 [rs2 [c2 [g [E2 [Hg Eg]]]]]].
      rewrite E2. simpl. subst rs2. rewrite (decide_stable g rs1 d Hg Ed). reflexivity.
    Qed.

    (* an Insufficient outcome means the budget was used up with a Partial residual left *)
    Lemma loop_calls : forall n st rs calls st1 rs1 c1,
      loopX l n st rs calls = (st1, rs1, c1) ->
      no_partialX rs1 = true \/ length c1 = (length calls + n)%nat.
    Proof.
      induction n as [|n IH]; intros st rs calls st1 rs1 c1 H; simpl in H.
      - inversion H; subst. right. lia.
      - set (st' := add_allX st (l (to_loadX st rs))) in *.
        destruct (no_partialX (map (fun er => (fst er, reinterp st' (snd er))) rs)) eqn:Hn.
        + inversion H; subst. left. exact Hn.
        + apply IH in H. destruct H as [H|H]; [left; exact H|right]. rewrite H. rewrite app_length. simpl. lia.
    Qed.

    Theorem insufficient_uses_budget : forall n,
      batchedX l n = BInsufficient -> length (snd (batched_fullX l n)) = n.
    Proof.
      intro n. unfold batched, batched_full.
      destruct (loopX l n [] initX []) as [[st1 rs1] c1] eqn:E; simpl.
      destruct (decideX rs1) eqn:Ed; simpl; [discriminate|]. intros _.
      destruct (loop_calls _ _ _ _ _ _ _ E) as [H|H]; [|simpl in H; exact H].
      destruct (decide_no_partial rs1 H) as [d Hd]. rewrite Hd in Ed. discriminate.
    Qed.

    Lemma loop_calls_le : forall n st rs calls st1 rs1 c1,
      loopX l n st rs calls = (st1, rs1, c1) -> (length c1 <= length calls + n)%nat.
    Proof.
      induction n as [|n IH]; intros st rs calls st1 rs1 c1 H; simpl in H.
      - inversion H; subst. lia.
      - set (st' := add_allX st (l (to_loadX st rs))) in *.
        destruct (no_partialX (map (fun er => (fst er, reinterp st' (snd er))) rs)) eqn:Hn.
        + inversion H; subst. rewrite app_length. simpl. lia.
        + apply IH in H. rewrite app_length in H. simpl in H. lia.
    Qed.

    (* at most `budget` loader calls *)
    Theorem calls_le_budget : forall n, (length (snd (batched_fullX l n)) <= n)%nat.
    Proof.
      intro n. unfold batched_full.
      destruct (loopX l n [] initX []) as [[st1 rs1] c1] eqn:E; simpl.
      apply loop_calls_le in E. simpl in E. exact E.
    Qed.
  End Loop.

  (* ---------------------------------------------------------------- progress *)
  Section Progress.
    Variable l : loader U D.
    Variable Univ : list U.                       (* the uids occurring in store + request + policies *)
    Variable good : pstore U D -> Prop.           (* partial stores the loader can produce from the store *)
    Hypothesis U_eqb_spec : forall a b, U_eqb a b = true <-> a = b.
    Hypothesis reinterp_stable : forall st, stable (reinterp st).
    Hypothesis good_nil : good [].
    Hypothesis good_add : forall st ids, good st -> good (add_allX st (l ids)).
    (* interp hypotheses: a residual still Partial after interpretation over st mentions a literal
       uid that st does not have; interpretation over a good store only mentions uids of the universe *)
    Hypothesis partial_needs_unloaded : forall st r,
      classify (reinterp st r) = RPartial -> exists u, In u (lits (reinterp st r)) /\ loadedX st u = false.
    Hypothesis lits_in_universe : forall st r,
      good st -> incl (lits r) Univ -> incl (lits (reinterp st r)) Univ.
    Hypothesis rs0_in_universe : forall er, In er rs0 -> incl (lits (snd er)) Univ.
    (* loader hypotheses: every requested id is answered; extra answers are uids of the universe *)
    Hypothesis loader_answers : forall ids u, In u ids -> In u (map fst (l ids)).
    Hypothesis loader_in_universe : forall ids u, In u (map fst (l ids)) -> In u ids \/ In u Univ.

    Lemma mem_In : forall u xs, mem U U_eqb u xs = true <-> In u xs.
    Proof.
      intros u xs. unfold mem. rewrite existsb_exists. split.
      - intros [x [Hx He]]. apply U_eqb_spec in He. subst. exact Hx.
      - intro H. exists u. split; [exact H|]. apply U_eqb_spec. reflexivity.
    Qed.

    Lemma dedup_In : forall u xs, In u (dedup U U_eqb xs) <-> In u xs.
    Proof.
      intros u xs. induction xs as [|x tl IH]; simpl; [tauto|].
      destruct (mem U U_eqb x tl) eqn:M.
      - rewrite IH. split; [tauto|]. intros [E|H]; [subst; apply mem_In; exact M|exact H].
      - simpl. rewrite IH. tauto.
    Qed.

    Lemma add_all_props : forall ans st,
      incl (map fst st) (map fst (add_allX st ans)) /\
      (forall u, In u (map fst ans) -> In u (map fst (add_allX st ans))) /\
      (forall u, In u (map fst (add_allX st ans)) -> In u (map fst st) \/ In u (map fst ans)) /\
      (NoDup (map fst st) -> NoDup (map fst (add_allX st ans))).
    Proof.
      induction ans as [|[u e] tl IH]; intro st; simpl.
      - repeat split; auto. apply incl_refl. intros u [].
      - destruct (loadedX st u) eqn:L.
        + destruct (IH st) as [A [B [C Dd]]]. repeat split; auto.
          * intros v [E|H]; [subst; apply A; apply mem_In; exact L|apply B; exact H].
          * intros v H. destruct (C v H); auto.
        + set (st2 := (u, match e with Some d => d | None => empty_entity u end) :: st).
          destruct (IH st2) as [A [B [C Dd]]]. repeat split.
          * intros v H. apply A. simpl. right. exact H.
          * intros v [E|H]; [subst; apply A; simpl; left; reflexivity|apply B; exact H].
          * intros v H. destruct (C v H) as [H1|H1]; [|auto]. simpl in H1. destruct H1; auto.
          * intro N. apply Dd. simpl. constructor; [|exact N].
            intro I. apply mem_In in I. unfold loaded in L. rewrite I in L. discriminate.
    Qed.

    Definition inv (st : pstore U D) (rs : list (rpol residual)) : Prop :=
      NoDup (map fst st) /\ incl (map fst st) Univ /\ good st /\
      exists prev, rs = mapf (reinterp st) prev /\ forall er, In er prev -> incl (lits (snd er)) Univ.

    Lemma inv_lits : forall st rs, inv st rs -> forall er, In er rs -> incl (lits (snd er)) Univ.
    Proof.
      intros st rs [_ [_ [G [prev [E P]]]]] er H. subst rs. unfold mapf in H. apply in_map_iff in H.
      destruct H as [er0 [E0 H0]]. subst er. simpl. apply lits_in_universe; [exact G|apply P; exact H0].
    Qed.

    Lemma to_load_In : forall st rs u,
      In u (to_loadX st rs) <-> (exists er, In er rs /\ In u (lits (snd er))) /\ loadedX st u = false.
    Proof.
      intros st rs u. unfold to_load. rewrite dedup_In, filter_In, in_flat_map, negb_true_iff. tauto.
    Qed.

    Lemma step_inv : forall st rs,
      inv st rs -> inv (add_allX st (l (to_loadX st rs))) (mapf (reinterp (add_allX st (l (to_loadX st rs)))) rs).
    Proof.
      intros st rs I. pose proof (inv_lits st rs I) as HL. destruct I as [N [S [G _]]].
      destruct (add_all_props (l (to_loadX st rs)) st) as [A [B [C Dd]]].
      split; [apply Dd; exact N|]. split.
      - intros u H. destruct (C u H) as [H1|H1]; [apply S; exact H1|].
        destruct (loader_in_universe _ _ H1) as [H2|H2]; [|exact H2].
        apply to_load_In in H2. destruct H2 as [[er [Her Hu]] _]. exact (HL er Her u Hu).
      - split; [apply good_add; exact G|]. exists rs. split; [reflexivity|exact HL].
    Qed.

    Lemma partial_in : forall rs, no_partialX rs = false -> exists er, In er rs /\ classify (snd er) = RPartial.
    Proof.
      unfold no_partial, is_partial. induction rs as [|er tl IH]; simpl; intro H; [discriminate|].
      apply andb_false_iff in H. destruct H as [H|H].
      - exists er. split; [left; reflexivity|]. apply negb_false_iff in H. apply rclass_eqb_eq. exact H.
      - destruct (IH H) as [x [Hx Hc]]. exists x. split; [right; exact Hx|exact Hc].
    Qed.

    (* each non-final iteration loads at least one new uid *)
    Lemma step_grows : forall st rs,
      inv st rs ->
      no_partialX (mapf (reinterp (add_allX st (l (to_loadX st rs)))) rs) = false ->
      (S (length st) <= length (add_allX st (l (to_loadX st rs))))%nat.
    Proof.
      intros st rs I Hn. set (st' := add_allX st (l (to_loadX st rs))) in *.
      destruct (partial_in _ Hn) as [er' [Her' Hc']]. unfold mapf in Her'. apply in_map_iff in Her'.
      destruct Her' as [er [E Her]]. subst er'. simpl in Hc'.
      assert (Hc : classify (snd er) = RPartial).
      { destruct (rclass_eqb (classify (snd er)) RPartial) eqn:Q; [apply rclass_eqb_eq; exact Q|].
        exfalso. rewrite (reinterp_stable st' (snd er)) in Hc'.
        - rewrite Hc' in Q. discriminate.
        - intro X. rewrite X in Q. discriminate. }
      destruct I as [N [S [G [prev [E P]]]]]. subst rs. unfold mapf in Her. apply in_map_iff in Her.
      destruct Her as [er0 [E0 H0]]. subst er. simpl in Hc.
      destruct (partial_needs_unloaded st (snd er0) Hc) as [u [Hu Lu]].
      assert (T : In u (to_loadX st (mapf (reinterp st) prev))).
      { apply to_load_In. split; [|exact Lu]. exists (fst er0, reinterp st (snd er0)). split; [|exact Hu].
        unfold mapf. apply in_map_iff. exists er0. auto. }
      destruct (add_all_props (l (to_loadX st (mapf (reinterp st) prev))) st) as [A [B [C Dd]]].
      fold st' in A, B, C, Dd.
      assert (Hin : In u (map fst st')) by (apply B; apply loader_answers; exact T).
      assert (Hnot : ~ In u (map fst st)).
      { intro X. apply mem_In in X. unfold loaded in Lu. rewrite X in Lu. discriminate. }
      assert (Hle : (length (u :: map fst st) <= length (map fst st'))%nat).
      { apply NoDup_incl_length; [constructor; assumption|].
        intros v [Ev|Hv]; [subst; exact Hin|apply A; exact Hv]. }
      simpl in Hle. rewrite !map_length in Hle. exact Hle.
    Qed.

    Lemma progress_loop : forall fuel st rs calls,
      inv st rs -> (length Univ < fuel + length st)%nat ->
      no_partialX (snd (fst (loopX l fuel st rs calls))) = true.
    Proof.
      induction fuel as [|f IH]; intros st rs calls I Hlt.
      - exfalso. destruct I as [N [S _]]. pose proof (NoDup_incl_length N S) as Hle.
        rewrite map_length in Hle. simpl in Hlt. lia.
      - simpl. set (st' := add_allX st (l (to_loadX st rs))).
        fold (mapf (reinterp st') rs).
        destruct (no_partialX (mapf (reinterp st') rs)) eqn:Hn; [simpl; exact Hn|].
        apply IH; [apply step_inv; exact I|].
        pose proof (step_grows st rs I Hn) as G. fold st' in G. lia.
    Qed.

    Theorem progress : forall n, (length Univ < n)%nat -> exists d, batchedX l n = BOk d.
    Proof.
      intros n Hn. unfold batched, batched_full.
      assert (I : inv [] initX).
      { split; [constructor|]. split; [intros u []|]. split; [exact good_nil|].
        exists rs0. split; [reflexivity|exact rs0_in_universe]. }
      pose proof (progress_loop n [] initX [] I ltac:(simpl; lia)) as P.
      destruct (loopX l n [] initX []) as [[st1 rs1] c1]. simpl in P. simpl.
      destruct (decide_no_partial rs1 P) as [d Hd]. rewrite Hd. eauto.
    Qed.
  End Progress.

  (* the loader hypotheses hold of TestEntityLoader / loader_of *)
  Lemma loader_of_fst : forall es ids, map fst (loader_of U U_eqb D es ids) = ids.
  Proof. intros. unfold loader_of. rewrite map_map. simpl. apply map_id. Qed.

  Lemma loader_of_answers : forall es ids u, In u ids -> In u (map fst (loader_of U U_eqb D es ids)).
  Proof. intros. rewrite loader_of_fst. assumption. Qed.

  Lemma loader_of_in_universe : forall (Univ : list U) es ids u,
    In u (map fst (loader_of U U_eqb D es ids)) -> In u ids \/ In u Univ.
  Proof. intros. rewrite loader_of_fst in H. left. assumption. Qed.

  (* ... and of loader_all when the store's uids are in the universe *)
  Lemma loader_all_answers : forall es ids u, In u ids -> In u (map fst (loader_all U U_eqb D es ids)).
  Proof. intros. unfold loader_all. rewrite map_app, loader_of_fst. apply in_or_app. left. assumption. Qed.

  Lemma loader_all_in_universe : forall (Univ : list U) es, incl (map fst es) Univ ->
    forall ids u, In u (map fst (loader_all U U_eqb D es ids)) -> In u ids \/ In u Univ.
  Proof.
    intros Univ es Hs ids u H. unfold loader_all in H. rewrite map_app, loader_of_fst in H.
    apply in_app_or in H. destruct H as [H|H]; [left; exact H|right]. apply Hs. rewrite map_map in H. simpl in H. exact H.
  Qed.

  (* ---------------------------------------------------------------- agreement with the concrete decision *)
  Section Agree.
    Variable l : loader U D.
    Variable conc : residual -> rclass.          (* concrete outcome of the residual over the full store *)
    Variable good : pstore U D -> Prop.          (* "the partial store is what the loader gives for the full store" *)
    Hypothesis good_nil : good [].
    Hypothesis good_add : forall st ids, good st -> good (add_allX st (l ids)).
    (* residual soundness (C14): a decided residual is the concrete outcome; re-interpretation on a
       good partial store preserves the concrete meaning *)
    Hypothesis sound_class : forall r, classify r <> RPartial -> conc r = classify r.
    Hypothesis sound_reinterp : forall st r, good st -> conc (reinterp st r) = conc r.

    Definition chas (p : effect -> bool) (c : rclass) (rs : list (rpol residual)) : bool :=
      existsb (fun er => p (fst er) && rclass_eqb (conc (snd er)) c) rs.
    (* the ordinary authorizer (C01): a satisfied forbid denies; otherwise a satisfied permit allows *)
    Definition cdecide (rs : list (rpol residual)) : decision :=
      if chas eff_is_forbid RTrue rs then Deny else if chas eff_is_permit RTrue rs then Allow else Deny.

    Definition keeps (f : residual -> residual) : Prop := forall r, conc (f r) = conc r.

    Lemma chas_mapf : forall p c f rs, keeps f -> chas p c (mapf f rs) = chas p c rs.
    Proof.
      intros p c f rs Hk. unfold chas, mapf. induction rs as [|[e r] tl IH]; simpl; [reflexivity|].
      rewrite IH. rewrite Hk. reflexivity.
    Qed.

    Lemma cdecide_mapf : forall f rs, keeps f -> cdecide (mapf f rs) = cdecide rs.
    Proof. intros. unfold cdecide. rewrite !chas_mapf by assumption. reflexivity. Qed.

    Lemma has_chas_true : forall p rs, hasX p RTrue rs = true -> chas p RTrue rs = true.
    Proof.
      intros p rs. unfold has, chas. induction rs as [|[e r] tl IH]; simpl; intro H; [discriminate|].
      apply orb_true_iff in H. apply orb_true_iff. destruct H as [H|H]; [left|right; auto].
      apply andb_true_iff in H. destruct H as [Hp Hr]. rewrite Hp. simpl.
      apply rclass_eqb_eq in Hr. rewrite sound_class; [|rewrite Hr; discriminate]. rewrite Hr. reflexivity.
    Qed.

    Lemma has_chas_false : forall p rs, hasX p RTrue rs = false -> hasX p RPartial rs = false -> chas p RTrue rs = false.
    Proof.
      intros p rs. unfold has, chas. induction rs as [|[e r] tl IH]; simpl; intros H1 H2; [reflexivity|].
      apply orb_false_iff in H1. apply orb_false_iff in H2. destruct H1 as [A1 B1]. destruct H2 as [A2 B2].
      rewrite (IH B1 B2). rewrite orb_false_r.
      destruct (p e); simpl in *; [|reflexivity].
      rewrite sound_class; [exact A1|]. intro E. rewrite E in A2. discriminate.
    Qed.

    Lemma decide_sound : forall rs d, decideX rs = Some d -> d = cdecide rs.
    Proof.
      intros rs d. unfold decide, cdecide.
      destruct (hasX eff_is_forbid RTrue rs) eqn:tf.
      - intro H. inversion H. rewrite (has_chas_true _ _ tf). reflexivity.
      - destruct (hasX eff_is_permit RTrue rs) eqn:tp.
        + destruct (hasX eff_is_forbid RPartial rs) eqn:rf.
          * destruct (hasX eff_is_permit RPartial rs); intro H; discriminate.
          * intro H. rewrite (has_chas_false _ _ tf rf). rewrite (has_chas_true _ _ tp).
            destruct (hasX eff_is_permit RPartial rs); inversion H; reflexivity.
        + destruct (hasX eff_is_permit RPartial rs) eqn:rp.
          * destruct (hasX eff_is_forbid RPartial rs); intro H; discriminate.
          * intro H. rewrite (has_chas_false _ _ tp rp).
            destruct (hasX eff_is_forbid RPartial rs); inversion H; destruct (chas eff_is_forbid RTrue rs); reflexivity.
    Qed.

    Lemma loop_keeps : forall n st rs calls st1 rs1 c1,
      good st -> loopX l n st rs calls = (st1, rs1, c1) -> exists g, keeps g /\ rs1 = mapf g rs.
    Proof.
      induction n as [|n IH]; intros st rs calls st1 rs1 c1 G H; simpl in H.
      - inversion H; subst. exists (fun r => r). split; [intro r; reflexivity|]. symmetry; apply mapf_id.
      - set (st' := add_allX st (l (to_loadX st rs))) in *.
        assert (G' : good st') by (apply good_add; exact G).
        fold (mapf (reinterp st') rs) in H.
        destruct (no_partialX (mapf (reinterp st') rs)) eqn:Hn.
        + inversion H; subst. eexists. split; [|reflexivity]. intro r; apply sound_reinterp; assumption.
        + apply (IH _ _ _ _ _ _ G') in H. destruct H as [g [Hg E]]. exists (fun r => g (reinterp st' r)). split.
          * intro r. rewrite Hg. apply sound_reinterp. exact G'.
          * rewrite E. apply mapf_mapf.
    Qed.

    Theorem agree : forall n d, batchedX l n = BOk d -> d = cdecide rs0.
    Proof.
      intros n d. unfold batched, batched_full.
      destruct (loopX l n [] initX []) as [[st1 rs1] c1] eqn:E; simpl.
      destruct (decideX rs1) as [d1|] eqn:Ed; simpl; [|discriminate]. intro H. inversion H; subst.
      destruct (loop_keeps _ _ _ _ _ _ _ good_nil E) as [g [Hg Eg]].
      rewrite (decide_sound _ _ Ed). subst rs1. rewrite (cdecide_mapf g _ Hg).
      unfold init. fold (mapf (reinterp []) rs0). apply cdecide_mapf. intro r. apply sound_reinterp. exact good_nil.
    Qed.
  End Agree.
End BatchedProofs.

(* ------------------------------------------------------------------ the pointer-chain instance
   satisfies every interp hypothesis: the Sections above are not vacuous *)
Section ChainInstance.
  Variable es : list (Z * cdata).
  Variable Univ : list Z.
  Hypothesis es_next_in_universe : forall u fl v, lookup Z Z.eqb cdata es u = Some (fl, Some v) -> In v Univ.

  Definition c_good (st : list (Z * cdata)) : Prop :=
    forall u fl v, lookup Z Z.eqb cdata st u = Some (fl, Some v) -> In v Univ.

  Lemma c_stable : forall st, stable cres c_classify (c_reinterp st).
  Proof. intros st r H. destruct r; simpl in *; [reflexivity|congruence]. Qed.

  Lemma lookup_none_loaded : forall (st : list (Z * cdata)) u,
    lookup Z Z.eqb cdata st u = None -> loaded Z Z.eqb cdata st u = false.
  Proof.
    induction st as [|[v d] tl IH]; intros u H; simpl in *; [reflexivity|].
    unfold loaded, mem in *. simpl. destruct (Z.eqb u v); [discriminate|]. simpl. apply IH. exact H.
  Qed.

  Lemma c_follow_partial : forall k st u,
    c_classify (c_follow st u k) = RPartial ->
    exists v, In v (c_lits (c_follow st u k)) /\ loaded Z Z.eqb cdata st v = false.
  Proof.
    induction k as [|k IH]; intros st u; simpl; destruct (lookup Z Z.eqb cdata st u) as [[fl nx]|] eqn:L.
    - destruct fl as [[|]|]; simpl; discriminate.
    - intros _. exists u. split; [left; reflexivity|apply lookup_none_loaded; exact L].
    - destruct nx as [v|]; [apply IH|simpl; discriminate].
    - intros _. exists u. split; [left; reflexivity|apply lookup_none_loaded; exact L].
  Qed.

  Lemma c_partial_needs_unloaded : forall st r,
    c_classify (c_reinterp st r) = RPartial ->
    exists u, In u (c_lits (c_reinterp st r)) /\ loaded Z Z.eqb cdata st u = false.
  Proof. intros st [c|u k]; simpl; [destruct c; discriminate|apply c_follow_partial]. Qed.

  Lemma c_follow_lits : forall k st u, c_good st -> In u Univ -> incl (c_lits (c_follow st u k)) Univ.
  Proof.
    induction k as [|k IH]; intros st u G Hu; simpl; destruct (lookup Z Z.eqb cdata st u) as [[fl nx]|] eqn:L.
    - destruct fl as [[|]|]; simpl; intros x [].
    - intros x [E|[]]. subst. exact Hu.
    - destruct nx as [v|]; [apply IH; [exact G|exact (G u fl v L)]|simpl; intros x []].
    - intros x [E|[]]. subst. exact Hu.
  Qed.

  Lemma c_lits_in_universe : forall st r, c_good st -> incl (c_lits r) Univ -> incl (c_lits (c_reinterp st r)) Univ.
  Proof.
    intros st [c|u k] G H; simpl; [intros x []|]. apply c_follow_lits; [exact G|]. apply H. left. reflexivity.
  Qed.

  Lemma c_good_nil : c_good [].
  Proof. intros u fl v H. discriminate. Qed.

  Lemma add_all_lookup : forall ans (st : list (Z * cdata)) u d,
    lookup Z Z.eqb cdata (add_all Z Z.eqb cdata c_empty st ans) u = Some d ->
    lookup Z Z.eqb cdata st u = Some d \/
    exists e, In (u, e) ans /\ d = match e with Some x => x | None => c_empty u end.
  Proof.
    induction ans as [|[w e] tl IH]; intros st u d H; simpl in H; [left; exact H|].
    destruct (loaded Z Z.eqb cdata st w).
    - destruct (IH _ _ _ H) as [A|[e' [A B]]]; [left; exact A|right; exists e'; split; [right; exact A|exact B]].
    - destruct (IH _ _ _ H) as [A|[e' [A B]]].
      + simpl in A. destruct (Z.eqb u w) eqn:Q; [|left; exact A].
        apply Z.eqb_eq in Q. subst w. inversion A; subst. right. exists e. split; [left; reflexivity|reflexivity].
      + right. exists e'. split; [right; exact A|exact B].
  Qed.

  Lemma c_good_add_of : forall st ids, c_good st -> c_good (add_all Z Z.eqb cdata c_empty st (loader_of Z Z.eqb cdata es ids)).
  Proof.
    intros st ids G u fl v H. destruct (add_all_lookup _ _ _ _ H) as [A|[e [A B]]]; [exact (G u fl v A)|].
    unfold loader_of in A. apply in_map_iff in A. destruct A as [x [E _]]. inversion E; subst.
    destruct (lookup Z Z.eqb cdata es u) as [x|] eqn:L; [|discriminate]. subst x. exact (es_next_in_universe u fl v L).
  Qed.

  (* c15_progress instantiated: chains over a store whose references stay in the universe *)
  Theorem chain_progress : forall rs0,
    (forall er, In er rs0 -> incl (c_lits (snd er)) Univ) ->
    forall n, (length Univ < n)%nat -> exists d, c_batched rs0 es n = BOk d.
  Proof.
    intros rs0 H0 n Hn. unfold c_batched, c_batched_full.
    change (fst (batched_full Z Z.eqb cdata c_empty cres c_classify c_lits c_reinterp rs0 (loader_of Z Z.eqb cdata es) n))
      with (batched Z Z.eqb cdata c_empty cres c_classify c_lits c_reinterp rs0 (loader_of Z Z.eqb cdata es) n).
    eapply (progress Z Z.eqb cdata c_empty cres c_classify c_lits c_reinterp rs0 (loader_of Z Z.eqb cdata es) Univ c_good).
    - intros a b. apply Z.eqb_eq.
    - apply c_stable.
    - apply c_good_nil.
    - apply c_good_add_of.
    - apply c_partial_needs_unloaded.
    - apply c_lits_in_universe.
    - exact H0.
    - apply loader_of_answers.
    - apply loader_of_in_universe.
    - exact Hn.
  Qed.
End ChainInstance.
