(* TPESound.v — soundness of tpe::Evaluator::interpret (model: TPE.interp), one lemma per arm, and the
   per-policy soundness that the decision / query theorems of C14 need.
   `Completes` is the consistency relation of PartialRequest/PartialEntities::check_consistency with the known
   attributes / tags / context IDENTICAL to the concrete ones (Rust compares canonical `Value`s, for which
   equality is identity) and the known ancestor set equal as a set.
   `sim` : both sides produce the same value, or both produce an error (the class of an error is not preserved:
   Residual::Error carries none). *)
From Coq Require Import List Bool.
From Cedar Require Import TPE ValueProofs.
Import ListNotations.

Definition sim {A} (a b : res A) : Prop :=
  match a, b with Ok x, Ok y => x = y | Err _, Err _ => True | _, _ => False end.

Lemma sim_refl {A} (a : res A) : sim a a.
Proof. destruct a; cbn; auto. Qed.
Lemma sim_trans {A} (a b c : res A) : sim a b -> sim b c -> sim a c.
Proof. destruct a, b, c; cbn; try tauto; congruence. Qed.
Lemma sim_sym {A} (a b : res A) : sim a b -> sim b a.
Proof. destruct a, b; cbn; auto. Qed.
Lemma sim_bind {A B} (a b : res A) (f g : A -> res B) :
  sim a b -> (forall v, sim (f v) (g v)) -> sim (bind a f) (bind b g).
Proof. destruct a, b; cbn; try tauto. intros ->; auto. Qed.
Lemma sim_ok_l {A} (v : A) b : sim (Ok v) b -> b = Ok v.
Proof. destruct b; cbn; [congruence|tauto]. Qed.
Lemma sim_err_l {A} e (b : res A) : sim (Err e) b -> exists e', b = Err e'.
Proof. destruct b; cbn; [tauto|eauto]. Qed.

Lemma shape_val r v : shape r = SVal v -> r = RVal v.
Proof. destruct r; cbn; congruence. Qed.
Lemma shape_err r : shape r = SErr -> r = RErr.
Proof. destruct r; cbn; congruence. Qed.

Lemma name_eqb_sym a b : name_eqb a b = name_eqb b a.
Proof.
  unfold name_eqb. destruct (strs_eqb a b) eqn:E1, (strs_eqb b a) eqn:E2; try reflexivity.
  - apply strs_eqb_eq in E1; subst. rewrite (proj2 (strs_eqb_eq _ _) eq_refl) in E2; discriminate.
  - apply strs_eqb_eq in E2; subst. rewrite (proj2 (strs_eqb_eq _ _) eq_refl) in E1; discriminate.
Qed.

Lemma existsb_orb {A} (f g : A -> bool) l : existsb (fun x => f x || g x) l = existsb f l || existsb g l.
Proof.
  induction l as [|x l IH]; cbn; [reflexivity|]. rewrite IH.
  destruct (f x), (g x), (existsb f l), (existsb g l); reflexivity.
Qed.
Lemma existsb_ext' {A} (f g : A -> bool) l : (forall x, f x = g x) -> existsb f l = existsb g l.
Proof. intros H; induction l as [|x l IH]; cbn; [reflexivity|]. rewrite H, IH; reflexivity. Qed.
Lemma existsb_false {A} (l : list A) : existsb (fun _ => false) l = false.
Proof. induction l; cbn; auto. Qed.

(* the consistency relation *)
Record Completes (pq : prequest) (pes : pentities) (q : request) (es : entities) : Prop := mkCompletes {
  c_pty : uty (rprincipal q) = pq_pty pq;
  c_pid : forall i, pq_pid pq = Some i -> ueid (rprincipal q) = i;
  c_rty : uty (rresource q) = pq_rty pq;
  c_rid : forall i, pq_rid pq = Some i -> ueid (rresource q) = i;
  c_act : raction q = pq_action pq;
  c_ctx : forall c, pq_ctx pq = Some c -> rcontext q = c;
  c_ents : forall u pe, find_pentity u pes = Some pe ->
           exists d, find_entity u es = Some d /\
                     (forall a, pe_attrs pe = Some a -> eattrs d = a) /\
                     (forall n, pe_anc pe = Some n ->
                                forall x, existsb (uid_eqb x) (eancestors d) = existsb (uid_eqb x) n) /\
                     (forall t, pe_tags pe = Some t -> etags d = t)
}.

(* induction principle with the nested lists *)
Section ResInd.
  Variable P : residual -> Prop.
  Hypothesis HVal : forall v, P (RVal v).
  Hypothesis HErr : P RErr.
  Hypothesis HVar : forall v, P (RVar v).
  Hypothesis HIf : forall c a b, P c -> P a -> P b -> P (RIf c a b).
  Hypothesis HAnd : forall a b, P a -> P b -> P (RAnd a b).
  Hypothesis HOr : forall a b, P a -> P b -> P (ROr a b).
  Hypothesis HUn : forall op a, P a -> P (RUn op a).
  Hypothesis HBin : forall op a b, P a -> P b -> P (RBin op a b).
  Hypothesis HExt : forall fn args, Forall P args -> P (RExt fn args).
  Hypothesis HGet : forall e k, P e -> P (RGetAttr e k).
  Hypothesis HHas : forall e k, P e -> P (RHasAttr e k).
  Hypothesis HLike : forall e p, P e -> P (RLike e p).
  Hypothesis HIs : forall e t, P e -> P (RIs e t).
  Hypothesis HSet : forall items, Forall P items -> P (RSet items).
  Hypothesis HRec : forall items, Forall (fun kv => P (snd kv)) items -> P (RRecord items).

  Fixpoint residual_ind2 (r : residual) : P r :=
    match r with
    | RVal v => HVal v
    | RErr => HErr
    | RVar v => HVar v
    | RIf c a b => HIf c a b (residual_ind2 c) (residual_ind2 a) (residual_ind2 b)
    | RAnd a b => HAnd a b (residual_ind2 a) (residual_ind2 b)
    | ROr a b => HOr a b (residual_ind2 a) (residual_ind2 b)
    | RUn op a => HUn op a (residual_ind2 a)
    | RBin op a b => HBin op a b (residual_ind2 a) (residual_ind2 b)
    | RExt fn args =>
        HExt fn args ((fix go (l : list residual) : Forall P l :=
                         match l with
                         | [] => Forall_nil P
                         | x :: l' => Forall_cons x (residual_ind2 x) (go l')
                         end) args)
    | RGetAttr e k => HGet e k (residual_ind2 e)
    | RHasAttr e k => HHas e k (residual_ind2 e)
    | RLike e p => HLike e p (residual_ind2 e)
    | RIs e t => HIs e t (residual_ind2 e)
    | RSet items =>
        HSet items ((fix go (l : list residual) : Forall P l :=
                       match l with
                       | [] => Forall_nil P
                       | x :: l' => Forall_cons x (residual_ind2 x) (go l')
                       end) items)
    | RRecord items =>
        HRec items ((fix go (l : list (str * residual)) : Forall (fun kv => P (snd kv)) l :=
                       match l with
                       | [] => Forall_nil _
                       | kv :: l' => Forall_cons kv (residual_ind2 (snd kv)) (go l')
                       end) items)
    end.
End ResInd.

Lemma val_of_val r v : val_of r = Some v -> r = RVal v.
Proof. destruct r; cbn; congruence. Qed.
Lemma is_err_err r : is_err r = true -> r = RErr.
Proof. destruct r; cbn; congruence. Qed.

Section Sound.
Variable cx : name -> list value -> res value.
Variable pq : prequest.
Variable pes : pentities.
Variable q : request.
Variable es : entities.
Hypothesis HC : Completes pq pes q es.

Notation I := (interp cx pq pes).
Notation R := (reval cx q es).

Lemma of_res_sim x : sim (R (of_res x)) x.
Proof. destruct x; cbn; auto. Qed.

(* ---- literals and errors ---- *)
Lemma sound_val v : sim (R (I (RVal v))) (R (RVal v)).
Proof. apply sim_refl. Qed.
Lemma sound_err : sim (R (I RErr)) (R RErr).
Proof. apply sim_refl. Qed.

(* ---- variables: known / unknown principal, resource, context ---- *)
Lemma sound_var v : sim (R (I (RVar v))) (R (RVar v)).
Proof.
  destruct HC as [Hpt Hpi Hrt Hri Ha Hc _].
  destruct v; cbn [interp].
  - destruct (pq_pid pq) as [i|] eqn:E; [|apply sim_refl]. cbn.
    specialize (Hpi i eq_refl). destruct (rprincipal q) as [t e]; cbn in *; subst; reflexivity.
  - cbn. rewrite Ha; reflexivity.
  - destruct (pq_rid pq) as [i|] eqn:E; [|apply sim_refl]. cbn.
    specialize (Hri i eq_refl). destruct (rresource q) as [t e]; cbn in *; subst; reflexivity.
  - destruct (pq_ctx pq) as [c|] eqn:E; [|apply sim_refl]. cbn. rewrite (Hc c eq_refl); reflexivity.
Qed.

(* ---- congruences of the concrete evaluator ---- *)
Lemma if_cong c c' a a' b b' : sim (R c') (R c) -> sim (R a') (R a) -> sim (R b') (R b) ->
  sim (R (RIf c' a' b')) (R (RIf c a b)).
Proof.
  intros Hc Ha Hb. cbn [reval]. apply sim_bind; [exact Hc|]. intros v.
  destruct (as_bool v) as [[|]|]; cbn; auto.
Qed.
Lemma and_cong a a' b b' : sim (R a') (R a) -> sim (R b') (R b) -> sim (R (RAnd a' b')) (R (RAnd a b)).
Proof.
  intros Ha Hb. cbn [reval]. apply sim_bind; [exact Ha|]. intros v.
  destruct (as_bool v) as [[|]|]; cbn; auto.
  apply sim_bind; [exact Hb|]. intros w. apply sim_refl.
Qed.
Lemma or_cong a a' b b' : sim (R a') (R a) -> sim (R b') (R b) -> sim (R (ROr a' b')) (R (ROr a b)).
Proof.
  intros Ha Hb. cbn [reval]. apply sim_bind; [exact Ha|]. intros v.
  destruct (as_bool v) as [[|]|]; cbn; auto.
  apply sim_bind; [exact Hb|]. intros w. apply sim_refl.
Qed.
Lemma un_cong op a a' : sim (R a') (R a) -> sim (R (RUn op a')) (R (RUn op a)).
Proof. intros H. cbn [reval]. apply sim_bind; [exact H|]. intros; apply sim_refl. Qed.
Lemma bin_cong op a a' b b' : sim (R a') (R a) -> sim (R b') (R b) -> sim (R (RBin op a' b')) (R (RBin op a b)).
Proof.
  intros Ha Hb. cbn [reval]. apply sim_bind; [exact Ha|]. intros v.
  apply sim_bind; [exact Hb|]. intros; apply sim_refl.
Qed.
Lemma getattr_cong e e' k : sim (R e') (R e) -> sim (R (RGetAttr e' k)) (R (RGetAttr e k)).
Proof. intros H. cbn [reval]. apply sim_bind; [exact H|]. intros; apply sim_refl. Qed.
Lemma hasattr_cong e e' k : sim (R e') (R e) -> sim (R (RHasAttr e' k)) (R (RHasAttr e k)).
Proof. intros H. cbn [reval]. apply sim_bind; [exact H|]. intros; apply sim_refl. Qed.
Lemma like_cong e e' p : sim (R e') (R e) -> sim (R (RLike e' p)) (R (RLike e p)).
Proof. intros H. cbn [reval]. apply sim_bind; [exact H|]. intros; apply sim_refl. Qed.
Lemma is_cong e e' t : sim (R e') (R e) -> sim (R (RIs e' t)) (R (RIs e t)).
Proof. intros H. cbn [reval]. apply sim_bind; [exact H|]. intros; apply sim_refl. Qed.

(* ---- if ---- *)
Lemma sound_if c a b : sim (R (I c)) (R c) -> sim (R (I a)) (R a) -> sim (R (I b)) (R b) ->
  sim (R (I (RIf c a b))) (R (RIf c a b)).
Proof.
  intros Hc Ha Hb. cbn [interp]. destruct (shape (I c)) as [v| |] eqn:S.
  - apply shape_val in S. rewrite S in Hc. apply sim_ok_l in Hc.
    cbn [reval]. rewrite Hc. cbn [bind].
    destruct (as_bool v) as [[|]|]; cbn; auto.
  - apply shape_err in S. rewrite S in Hc. apply sim_err_l in Hc as [e He].
    cbn [reval]. rewrite He. cbn. exact Logic.I.
  - apply if_cong; assumption.
Qed.

(* ---- unary operators (! , neg: can_error = true, isEmpty) ---- *)
Lemma sound_un op a : sim (R (I a)) (R a) -> sim (R (I (RUn op a))) (R (RUn op a)).
Proof.
  intros Ha. cbn [interp]. destruct (shape (I a)) as [v| |] eqn:S.
  - apply shape_val in S. rewrite S in Ha. apply sim_ok_l in Ha.
    cbn [reval]. rewrite Ha. cbn [bind]. apply of_res_sim.
  - apply shape_err in S. rewrite S in Ha. apply sim_err_l in Ha as [e He].
    cbn [reval]. rewrite He. cbn. exact Logic.I.
  - apply un_cong; assumption.
Qed.

(* ---- like ---- *)
Lemma sound_like e p : sim (R (I e)) (R e) -> sim (R (I (RLike e p))) (R (RLike e p)).
Proof.
  intros He. cbn [interp]. destruct (shape (I e)) as [v| |] eqn:S.
  - apply shape_val in S. rewrite S in He. apply sim_ok_l in He.
    cbn [reval]. rewrite He. cbn [bind]. destruct (as_string v); cbn; auto.
  - apply shape_err in S. rewrite S in He. apply sim_err_l in He as [e0 He0].
    cbn [reval]. rewrite He0. cbn. exact Logic.I.
  - apply like_cong; assumption.
Qed.

(* ---- is: concrete entity, unknown principal / resource decided from the request type, anything else kept ---- *)
Lemma sound_is e t : sim (R (I e)) (R e) -> sim (R (I (RIs e t))) (R (RIs e t)).
Proof.
  intros He. cbn [interp]. destruct (shape (I e)) as [v| |] eqn:S.
  - apply shape_val in S. rewrite S in He. apply sim_ok_l in He.
    cbn [reval]. rewrite He. cbn [bind]. destruct (as_entity v); cbn; auto.
  - apply shape_err in S. rewrite S in He. apply sim_err_l in He as [e0 He0].
    cbn [reval]. rewrite He0. cbn. exact Logic.I.
  - destruct (I e) as [ | |v| | | | | | | | | | | | ] eqn:E; try (apply is_cong; assumption).
    destruct v; try (apply is_cong; assumption).
    + cbn in He. apply sim_ok_l in He. cbn [reval]. rewrite He. cbn.
      rewrite (c_pty _ _ _ _ HC). rewrite name_eqb_sym. reflexivity.
    + cbn in He. apply sim_ok_l in He. cbn [reval]. rewrite He. cbn.
      rewrite (c_rty _ _ _ _ HC). rewrite name_eqb_sym. reflexivity.
Qed.

(* ---- && and || : the operands are booleans when they evaluate (well-typedness), and the left operand is dropped
        by `<left> && false` / `<left> || true` only when it cannot error ---- *)
Definition boolish (r : residual) : Prop := forall v, R r = Ok v -> exists y, v = VBool y.

Lemma and_right_sound l a b :
  sim (R l) (R a) -> sim (R (I b)) (R b) -> boolish a -> boolish b ->
  (can_error l = false -> forall e, R a <> Err e) ->
  sim (R (and_right l (I b))) (R (RAnd a b)).
Proof.
  intros Hl Hb Ba Bb Hn. unfold and_right. destruct (shape (I b)) as [v| |] eqn:S.
  - apply shape_val in S. rewrite S in Hb. apply sim_ok_l in Hb.
    destruct (Bb v Hb) as [y ->]. cbn [as_bool VBool]. destruct y.
    + cbn [reval]. rewrite Hb. destruct (R a) as [va|ea] eqn:Ea.
      * destruct (Ba va Ea) as [x ->]. destruct x; cbn; exact Hl.
      * cbn. exact Hl.
    + destruct (can_error l) eqn:Ce; cbn [negb].
      * apply and_cong; [exact Hl|]. rewrite Hb. cbn. reflexivity.
      * cbn [reval]. rewrite Hb. destruct (R a) as [va|ea] eqn:Ea; [|exfalso; exact (Hn eq_refl ea eq_refl)].
        destruct (Ba va Ea) as [x ->]. destruct x; cbn; reflexivity.
  - apply and_cong; assumption.
  - apply and_cong; assumption.
Qed.

Lemma sound_and a b :
  sim (R (I a)) (R a) -> sim (R (I b)) (R b) -> boolish a -> boolish b ->
  (can_error (I a) = false -> forall e, R a <> Err e) ->
  sim (R (I (RAnd a b))) (R (RAnd a b)).
Proof.
  intros Ha Hb Ba Bb Hn. cbn [interp]. destruct (shape (I a)) as [v| |] eqn:S.
  - apply shape_val in S. rewrite S in Ha. apply sim_ok_l in Ha.
    destruct (Ba v Ha) as [x ->]. cbn [as_bool VBool]. destruct x.
    + cbn [reval]. rewrite Ha. cbn [bind as_bool VBool].
      destruct (R b) as [vb|eb] eqn:Eb.
      * destruct (Bb vb Eb) as [y ->]. cbn. exact Hb.
      * cbn. exact Hb.
    + cbn [reval]. rewrite Ha. cbn. reflexivity.
  - apply shape_err in S. rewrite S in Ha. apply sim_err_l in Ha as [e He].
    cbn [reval]. rewrite He. cbn. exact Logic.I.
  - apply and_right_sound; assumption.
Qed.

Lemma or_right_sound l a b :
  sim (R l) (R a) -> sim (R (I b)) (R b) -> boolish a -> boolish b ->
  (can_error l = false -> forall e, R a <> Err e) ->
  sim (R (or_right l (I b))) (R (ROr a b)).
Proof.
  intros Hl Hb Ba Bb Hn. unfold or_right. destruct (shape (I b)) as [v| |] eqn:S.
  - apply shape_val in S. rewrite S in Hb. apply sim_ok_l in Hb.
    destruct (Bb v Hb) as [y ->]. cbn [as_bool VBool]. destruct y.
    + destruct (can_error l) eqn:Ce; cbn [negb].
      * apply or_cong; [exact Hl|]. rewrite Hb. cbn. reflexivity.
      * cbn [reval]. rewrite Hb. destruct (R a) as [va|ea] eqn:Ea; [|exfalso; exact (Hn eq_refl ea eq_refl)].
        destruct (Ba va Ea) as [x ->]. destruct x; cbn; reflexivity.
    + cbn [reval]. rewrite Hb. destruct (R a) as [va|ea] eqn:Ea.
      * destruct (Ba va Ea) as [x ->]. destruct x; cbn; exact Hl.
      * cbn. exact Hl.
  - apply or_cong; assumption.
  - apply or_cong; assumption.
Qed.

Lemma sound_or a b :
  sim (R (I a)) (R a) -> sim (R (I b)) (R b) -> boolish a -> boolish b ->
  (can_error (I a) = false -> forall e, R a <> Err e) ->
  sim (R (I (ROr a b))) (R (ROr a b)).
Proof.
  intros Ha Hb Ba Bb Hn. cbn [interp]. destruct (shape (I a)) as [v| |] eqn:S.
  - apply shape_val in S. rewrite S in Ha. apply sim_ok_l in Ha.
    destruct (Ba v Ha) as [x ->]. cbn [as_bool VBool]. destruct x.
    + cbn [reval]. rewrite Ha. cbn. reflexivity.
    + cbn [reval]. rewrite Ha. cbn [bind as_bool VBool].
      destruct (R b) as [vb|eb] eqn:Eb.
      * destruct (Bb vb Eb) as [y ->]. cbn. exact Hb.
      * cbn. exact Hb.
  - apply shape_err in S. rewrite S in Ha. apply sim_err_l in Ha as [e He].
    cbn [reval]. rewrite He. cbn. exact Logic.I.
  - apply or_right_sound; assumption.
Qed.

(* ---- getAttr / hasAttr: records, entities with known attributes, entities with unknown attributes or missing
        from the partial store (kept), anything else an error ---- *)
Lemma sound_getattr e k : sim (R (I e)) (R e) -> sim (R (I (RGetAttr e k))) (R (RGetAttr e k)).
Proof.
  intros He. cbn [interp]. destruct (shape (I e)) as [v| |] eqn:S.
  - pose proof (shape_val _ _ S) as S'. rewrite S' in He. apply sim_ok_l in He.
    destruct v as [p|l|r|x].
    + destruct p as [b|z|s|u]; try (cbn [reval]; rewrite He; cbn; exact Logic.I).
      unfold get_attrs. destruct (find_pentity u pes) as [pe|] eqn:F.
      * destruct (c_ents _ _ _ _ HC u pe F) as [d [Hd [Ha _]]].
        destruct (pe_attrs pe) as [attrs|] eqn:A.
        -- specialize (Ha attrs eq_refl). cbn [reval]. rewrite He. cbn [bind]. unfold get_attr. rewrite Hd, Ha.
           destruct (lookup k attrs); cbn; auto.
        -- cbn [reval]. rewrite S', He. cbn [reval bind]. apply sim_refl.
      * cbn [reval]. rewrite S', He. cbn [reval bind]. apply sim_refl.
    + cbn [reval]. rewrite He. cbn. exact Logic.I.
    + cbn [reval]. rewrite He. cbn [bind]. unfold get_attr. destruct (lookup k r); cbn; auto.
    + cbn [reval]. rewrite He. cbn. exact Logic.I.
  - apply shape_err in S. rewrite S in He. apply sim_err_l in He as [e0 He0].
    cbn [reval]. rewrite He0. cbn. exact Logic.I.
  - apply getattr_cong; assumption.
Qed.

Lemma sound_hasattr e k : sim (R (I e)) (R e) -> sim (R (I (RHasAttr e k))) (R (RHasAttr e k)).
Proof.
  intros He. cbn [interp]. destruct (shape (I e)) as [v| |] eqn:S.
  - pose proof (shape_val _ _ S) as S'. rewrite S' in He. apply sim_ok_l in He.
    destruct v as [p|l|r|x].
    + destruct p as [b|z|s|u]; try (cbn [reval]; rewrite He; cbn; exact Logic.I).
      unfold get_attrs. destruct (find_pentity u pes) as [pe|] eqn:F.
      * destruct (c_ents _ _ _ _ HC u pe F) as [d [Hd [Ha _]]].
        destruct (pe_attrs pe) as [attrs|] eqn:A.
        -- specialize (Ha attrs eq_refl). cbn [reval]. rewrite He. cbn [bind]. unfold has_attr. rewrite Hd, Ha.
           cbn. reflexivity.
        -- cbn [reval]. rewrite S', He. cbn [reval bind]. apply sim_refl.
      * cbn [reval]. rewrite S', He. cbn [reval bind]. apply sim_refl.
    + cbn [reval]. rewrite He. cbn. exact Logic.I.
    + cbn [reval]. rewrite He. cbn. reflexivity.
    + cbn [reval]. rewrite He. cbn. exact Logic.I.
  - apply shape_err in S. rewrite S in He. apply sim_err_l in He as [e0 He0].
    cbn [reval]. rewrite He0. cbn. exact Logic.I.
  - apply hasattr_cong; assumption.
Qed.

(* ---- binary operators on two concrete operands (interp_bin): ==, <, <=, arithmetic, `in` with known / unknown
        ancestors and the empty set, getTag / hasTag with known / unknown tags, contains* ---- *)
Lemma interp_bin_sound op v1 v2 : sim (R (interp_bin pes op v1 v2)) (binary_app es op v1 v2).
Proof.
  assert (Stay : R (RBin op (RVal v1) (RVal v2)) = binary_app es op v1 v2) by reflexivity.
  destruct op; unfold interp_bin; cbv beta iota zeta; try exact (of_res_sim _).
  - (* == *) cbn. reflexivity.
  - (* in *)
    destruct (as_entity v1) as [u1|e1] eqn:E1; cbv beta iota.
    2:{ unfold binary_app. rewrite E1. cbn. exact Logic.I. }
    destruct v2 as [p|l|r|x]; cbv beta iota.
    + destruct p as [b|z|s|u2]; cbv beta iota; try (unfold binary_app; rewrite E1; cbn; exact Logic.I).
      destruct (uid_eqb u1 u2) eqn:EQ.
      * unfold binary_app. rewrite E1. cbn. rewrite EQ. cbn. reflexivity.
      * unfold get_ancestors. destruct (find_pentity u1 pes) as [pe|] eqn:F; [|rewrite Stay; apply sim_refl].
        destruct (c_ents _ _ _ _ HC u1 pe F) as [d [Hd [_ [Hn _]]]].
        destruct (pe_anc pe) as [anc|] eqn:A; [|rewrite Stay; apply sim_refl].
        unfold binary_app. rewrite E1. cbn. rewrite EQ, Hd. cbn. unfold is_descendant_of.
        rewrite (Hn anc eq_refl u2). rewrite orb_false_r. reflexivity.
    + (* set on the right *)
      destruct (mapM as_entity l) as [us|em] eqn:M; cbv beta iota.
      2:{ unfold binary_app, eval_in. rewrite E1. cbn [bind]. rewrite M. cbn. exact Logic.I. }
      set (DESC := fun u2 : uid => match find_entity u1 es with Some d => is_descendant_of d u2 | None => false end).
      assert (RHS : binary_app es BIn v1 (VSet l) = Ok (VBool (existsb (uid_eqb u1) us || existsb DESC us))).
      { rewrite <- existsb_orb. unfold binary_app, eval_in. rewrite E1. cbn [bind]. rewrite M. cbn [bind]. reflexivity. }
      unfold get_ancestors. destruct (find_pentity u1 pes) as [pe|] eqn:F.
      * destruct (c_ents _ _ _ _ HC u1 pe F) as [d [Hd [_ [Hn _]]]].
        destruct (pe_anc pe) as [anc|] eqn:A; cbv beta iota.
        -- assert (D : existsb DESC us = existsb (fun u2 => existsb (uid_eqb u2) anc) us).
           { apply existsb_ext'. intros x. unfold DESC. rewrite Hd. apply (Hn anc eq_refl). }
           rewrite RHS, D.
           destruct (existsb (uid_eqb u1) us || existsb (fun u2 => existsb (uid_eqb u2) anc) us) eqn:B.
           ++ cbn. reflexivity.
           ++ rewrite andb_false_r. cbn. reflexivity.
        -- destruct (existsb (uid_eqb u1) us) eqn:M1; cbn [orb].
           ++ rewrite RHS; try rewrite M1; cbn; reflexivity.
           ++ destruct us as [|u0 us']; cbn [negb andb].
              ** rewrite RHS. cbn. reflexivity.
              ** rewrite Stay. apply sim_refl.
      * cbv beta iota. destruct (existsb (uid_eqb u1) us) eqn:M1; cbn [orb].
        -- rewrite RHS; try rewrite M1; cbn; reflexivity.
        -- destruct us as [|u0 us']; cbn [negb andb].
           ++ rewrite RHS. cbn. reflexivity.
           ++ rewrite Stay. apply sim_refl.
    + unfold binary_app. rewrite E1. cbn. exact Logic.I.
    + unfold binary_app. rewrite E1. cbn. exact Logic.I.
  - (* getTag *)
    destruct (as_entity v1) as [u|e1] eqn:E1; cbv beta iota.
    2:{ unfold binary_app. rewrite E1. cbn. exact Logic.I. }
    destruct (as_string v2) as [t|e2] eqn:E2; cbv beta iota.
    2:{ unfold binary_app. rewrite E1. cbn [bind]. rewrite E2. cbn. exact Logic.I. }
    unfold get_tags. destruct (find_pentity u pes) as [pe|] eqn:F; [|rewrite Stay; apply sim_refl].
    destruct (c_ents _ _ _ _ HC u pe F) as [d [Hd [_ [_ Ht]]]].
    destruct (pe_tags pe) as [tags|] eqn:T; [|rewrite Stay; apply sim_refl].
    unfold binary_app. rewrite E1. cbn [bind]. rewrite E2. cbn [bind]. rewrite Hd, (Ht tags eq_refl).
    destruct (lookup t tags); cbn; auto.
  - (* hasTag *)
    destruct (as_entity v1) as [u|e1] eqn:E1; cbv beta iota.
    2:{ unfold binary_app. rewrite E1. cbn. exact Logic.I. }
    destruct (as_string v2) as [t|e2] eqn:E2; cbv beta iota.
    2:{ unfold binary_app. rewrite E1. cbn [bind]. rewrite E2. cbn. exact Logic.I. }
    unfold get_tags. destruct (find_pentity u pes) as [pe|] eqn:F; [|rewrite Stay; apply sim_refl].
    destruct (c_ents _ _ _ _ HC u pe F) as [d [Hd [_ [_ Ht]]]].
    destruct (pe_tags pe) as [tags|] eqn:T; [|rewrite Stay; apply sim_refl].
    unfold binary_app. rewrite E1. cbn [bind]. rewrite E2. cbn [bind]. rewrite Hd, (Ht tags eq_refl).
    cbn. reflexivity.
Qed.

Lemma sound_bin op a b : sim (R (I a)) (R a) -> sim (R (I b)) (R b) -> sim (R (I (RBin op a b))) (R (RBin op a b)).
Proof.
  intros Ha Hb. cbn [interp].
  destruct (shape (I a)) as [v1| |] eqn:Sa; destruct (shape (I b)) as [v2| |] eqn:Sb; cbv beta iota;
    try (apply bin_cong; assumption).
  - apply shape_val in Sa. apply shape_val in Sb. rewrite Sa in Ha. rewrite Sb in Hb.
    apply sim_ok_l in Ha. apply sim_ok_l in Hb. cbn [reval]. rewrite Ha, Hb. cbn [bind]. apply interp_bin_sound.
  - apply shape_err in Sb. rewrite Sb in Hb. apply sim_err_l in Hb as [e He].
    cbn [reval]. rewrite He. destruct (R a); cbn; exact Logic.I.
  - apply shape_err in Sa. rewrite Sa in Ha. apply sim_err_l in Ha as [e He].
    cbn [reval]. rewrite He. cbn. exact Logic.I.
  - apply shape_err in Sa. rewrite Sa in Ha. apply sim_err_l in Ha as [e He].
    cbn [reval]. rewrite He. cbn. exact Logic.I.
  - apply shape_err in Sa. rewrite Sa in Ha. apply sim_err_l in Ha as [e He].
    cbn [reval]. rewrite He. cbn. exact Logic.I.
  - apply shape_err in Sb. rewrite Sb in Hb. apply sim_err_l in Hb as [e He].
    cbn [reval]. rewrite He. destruct (R a); cbn; exact Logic.I.
Qed.

(* ---- lists of operands: extension calls, set and record literals ---- *)
Fixpoint rlist (l : list residual) : res (list value) :=
  match l with
  | [] => Ok []
  | x :: l' => do v <- R x; do vs <- rlist l'; Ok (v :: vs)
  end.
Fixpoint rrec (l : list (str * residual)) : res (list (str * value)) :=
  match l with
  | [] => Ok []
  | (k, x) :: l' => do v <- R x; do kvs <- rrec l'; Ok ((k, v) :: kvs)
  end.
Lemma R_ext fn args : R (RExt fn args) = (do vs <- rlist args; cx fn vs).
Proof. reflexivity. Qed.
Lemma R_set items : R (RSet items) = (do vs <- rlist items; Ok (VSet vs)).
Proof. reflexivity. Qed.
Lemma R_record items : R (RRecord items) = (do kvs <- rrec items; Ok (VRecord kvs)).
Proof. reflexivity. Qed.

Lemma rlist_vals l : Forall (fun x => sim (R (I x)) (R x)) l ->
  forall vs, vals_of (map I l) = Some vs -> rlist l = Ok vs.
Proof.
  induction 1 as [|x l Hx _ IH]; intros vs Hv; cbn in Hv.
  - inversion Hv; reflexivity.
  - destruct (val_of (I x)) as [v|] eqn:V; [|discriminate].
    destruct (vals_of (map I l)) as [vs'|] eqn:V'; [|discriminate]. inversion Hv; subst.
    apply val_of_val in V. rewrite V in Hx. apply sim_ok_l in Hx.
    cbn [rlist]. rewrite Hx, (IH vs' eq_refl). reflexivity.
Qed.
Lemma rlist_err l : Forall (fun x => sim (R (I x)) (R x)) l ->
  existsb is_err (map I l) = true -> exists e, rlist l = Err e.
Proof.
  induction 1 as [|x l Hx _ IH]; cbn [map existsb]; intros He; [discriminate|].
  cbn [rlist]. destruct (is_err (I x)) eqn:E.
  - apply is_err_err in E. rewrite E in Hx. apply sim_err_l in Hx as [e Hx]. rewrite Hx. cbn. eauto.
  - cbn in He. destruct (IH He) as [e IHe]. rewrite IHe. destruct (R x); cbn; eauto.
Qed.
Lemma rlist_cong l : Forall (fun x => sim (R (I x)) (R x)) l -> sim (rlist (map I l)) (rlist l).
Proof.
  induction 1 as [|x l Hx _ IH]; cbn [map rlist]; [reflexivity|].
  apply sim_bind; [exact Hx|]. intros v. apply sim_bind; [exact IH|]. intros; apply sim_refl.
Qed.

Notation IK := (fun kv : str * residual => (fst kv, I (snd kv))).
Lemma rrec_vals l : Forall (fun kv => sim (R (I (snd kv))) (R (snd kv))) l ->
  forall kvs, kvals_of (map IK l) = Some kvs -> rrec l = Ok kvs.
Proof.
  induction 1 as [|[k x] l Hx _ IH]; intros kvs Hv; cbn in Hv.
  - inversion Hv; reflexivity.
  - cbn in Hx. destruct (val_of (I x)) as [v|] eqn:V; [|discriminate].
    destruct (kvals_of (map IK l)) as [vs'|] eqn:V'; [|discriminate]. inversion Hv; subst.
    apply val_of_val in V. rewrite V in Hx. apply sim_ok_l in Hx.
    cbn [rrec]. rewrite Hx, (IH vs' eq_refl). reflexivity.
Qed.
Lemma rrec_err l : Forall (fun kv => sim (R (I (snd kv))) (R (snd kv))) l ->
  existsb (fun kv => is_err (snd kv)) (map IK l) = true -> exists e, rrec l = Err e.
Proof.
  induction 1 as [|[k x] l Hx _ IH]; cbn [map existsb]; intros He; [discriminate|].
  cbn [rrec]. cbn in Hx. cbn [snd] in He. destruct (is_err (I x)) eqn:E.
  - apply is_err_err in E. rewrite E in Hx. apply sim_err_l in Hx as [e Hx]. rewrite Hx. cbn. eauto.
  - cbn in He. destruct (IH He) as [e IHe]. rewrite IHe. destruct (R x); cbn; eauto.
Qed.
Lemma rrec_cong l : Forall (fun kv => sim (R (I (snd kv))) (R (snd kv))) l -> sim (rrec (map IK l)) (rrec l).
Proof.
  induction 1 as [|[k x] l Hx _ IH]; cbn [map rrec fst snd]; [reflexivity|].
  apply sim_bind; [exact Hx|]. intros v. apply sim_bind; [exact IH|]. intros; apply sim_refl.
Qed.

Lemma sound_ext fn args : Forall (fun x => sim (R (I x)) (R x)) args ->
  sim (R (I (RExt fn args))) (R (RExt fn args)).
Proof.
  intros H. cbn [interp]. destruct (vals_of (map I args)) as [vs|] eqn:V.
  - rewrite R_ext, (rlist_vals _ H vs V). cbn [bind]. apply of_res_sim.
  - destruct (existsb is_err (map I args)) eqn:E.
    + destruct (rlist_err _ H E) as [e He]. rewrite R_ext, He. cbn. exact Logic.I.
    + rewrite !R_ext. apply sim_bind; [apply rlist_cong; exact H|]. intros; apply sim_refl.
Qed.
Lemma sound_set items : Forall (fun x => sim (R (I x)) (R x)) items ->
  sim (R (I (RSet items))) (R (RSet items)).
Proof.
  intros H. cbn [interp]. destruct (vals_of (map I items)) as [vs|] eqn:V.
  - rewrite R_set, (rlist_vals _ H vs V). cbn. reflexivity.
  - destruct (existsb is_err (map I items)) eqn:E.
    + destruct (rlist_err _ H E) as [e He]. rewrite R_set, He. cbn. exact Logic.I.
    + rewrite !R_set. apply sim_bind; [apply rlist_cong; exact H|]. intros; apply sim_refl.
Qed.
Lemma sound_record items : Forall (fun kv => sim (R (I (snd kv))) (R (snd kv))) items ->
  sim (R (I (RRecord items))) (R (RRecord items)).
Proof.
  intros H. cbn [interp]. destruct (kvals_of (map IK items)) as [kvs|] eqn:V.
  - rewrite R_record, (rrec_vals _ H kvs V). cbn. reflexivity.
  - destruct (existsb (fun kv => is_err (snd kv)) (map IK items)) eqn:E.
    + destruct (rrec_err _ H E) as [e He]. rewrite R_record, He. cbn. exact Logic.I.
    + rewrite !R_record. apply sim_bind; [apply rrec_cong; exact H|]. intros; apply sim_refl.
Qed.

(* ---- the side condition (what validation gives on a conformant completion): the operands of && and || are
        booleans when they evaluate, and a left operand whose interpreted form cannot error does not error ---- *)
Fixpoint Side (r : residual) : Prop :=
  match r with
  | RAnd a b | ROr a b =>
      Side a /\ Side b /\ boolish a /\ boolish b /\ (can_error (I a) = false -> forall e, R a <> Err e)
  | RIf c a b => Side c /\ Side a /\ Side b
  | RUn _ a | RGetAttr a _ | RHasAttr a _ | RLike a _ | RIs a _ => Side a
  | RBin _ a b => Side a /\ Side b
  | RExt _ l | RSet l => (fix go (l : list residual) : Prop := match l with [] => True | x :: l' => Side x /\ go l' end) l
  | RRecord l => (fix go (l : list (str * residual)) : Prop :=
                    match l with [] => True | kv :: l' => Side (snd kv) /\ go l' end) l
  | _ => True
  end.

Lemma side_forall l : Forall (fun x => Side x -> sim (R (I x)) (R x)) l -> Side (RSet l) ->
  Forall (fun x => sim (R (I x)) (R x)) l.
Proof.
  induction 1 as [|x l Hx _ IH]; intros HS; constructor.
  - apply Hx. exact (proj1 HS).
  - apply IH. exact (proj2 HS).
Qed.
Lemma side_forall_rec l : Forall (fun kv => Side (snd kv) -> sim (R (I (snd kv))) (R (snd kv))) l -> Side (RRecord l) ->
  Forall (fun kv => sim (R (I (snd kv))) (R (snd kv))) l.
Proof.
  induction 1 as [|x l Hx _ IH]; intros HS; constructor.
  - apply Hx. exact (proj1 HS).
  - apply IH. exact (proj2 HS).
Qed.

(* ---- soundness of interpret, all arms ---- *)
Theorem interp_sound r : Side r -> sim (R (I r)) (R r).
Proof.
  induction r using residual_ind2; intros HS.
  - apply sound_val.
  - apply sound_err.
  - apply sound_var.
  - destruct HS as [H1 [H2 H3]]. apply sound_if; auto.
  - destruct HS as [H1 [H2 [H3 [H4 H5]]]]. apply sound_and; auto.
  - destruct HS as [H1 [H2 [H3 [H4 H5]]]]. apply sound_or; auto.
  - apply sound_un; auto.
  - destruct HS as [H1 H2]. apply sound_bin; auto.
  - apply sound_ext. exact (side_forall _ H HS).
  - apply sound_getattr; auto.
  - apply sound_hasattr; auto.
  - apply sound_like; auto.
  - apply sound_is; auto.
  - apply sound_set. exact (side_forall _ H HS).
  - apply sound_record. exact (side_forall_rec _ H HS).
Qed.

End Sound.
