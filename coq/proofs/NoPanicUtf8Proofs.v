(* NoPanicUtf8Proofs.v — `i + c.len_utf8()` is always a char boundary within the string: no panic for any string, and
   the byte-level code computes ExtParse.contains_at_least_two (the char-level model used by C07's ip parser). *)
From Coq Require Import String Lia.
From Cedar Require Import NoPanicUtf8 NoPanicProofs.

Lemma len_utf8_pos c : (1 <= len_utf8 c)%nat.
Proof. unfold len_utf8. destruct (c <? 128)%N, (c <? 2048)%N, (c <? 65536)%N; lia. Qed.

Lemma get_from_0 s : get_from s 0 = Some s.
Proof. destruct s; reflexivity. Qed.

(* the byte index found for c, advanced by c's own length, is the boundary right after that occurrence *)
Lemma find_then_get c : forall s i, find_byte_idx c s = Some i ->
  exists rest, find_char c s = Some rest /\ get_from s (i + len_utf8 c) = Some rest.
Proof.
  induction s as [|x r IH]; intros i H; cbn [find_byte_idx find_char] in *; [discriminate|].
  destruct (N.eqb x c) eqn:E.
  - inversion H. subst i. apply N.eqb_eq in E. subst x. exists r. split; [reflexivity|].
    cbn [plus]. pose proof (len_utf8_pos c) as Hp.
    destruct (len_utf8 c) as [|n] eqn:El; [lia|]. cbn [get_from]. rewrite El.
    destruct (Nat.ltb_spec (S n) (S n)); [lia|]. rewrite Nat.sub_diag. apply get_from_0.
  - destruct (find_byte_idx c r) as [i0|] eqn:F; [|discriminate]. inversion H. subst i.
    destruct (IH i0 eq_refl) as [rest [H1 H2]]. exists rest. split; [exact H1|].
    pose proof (len_utf8_pos x) as Hp.
    destruct (len_utf8 x + i0 + len_utf8 c)%nat as [|k] eqn:Ek; [lia|]. cbn [get_from].
    destruct (Nat.ltb_spec (S k) (len_utf8 x)); [lia|].
    replace (S k - len_utf8 x)%nat with (i0 + len_utf8 c)%nat by lia. exact H2.
Qed.

Lemma find_idx_char c : forall s, (exists i, find_byte_idx c s = Some i) <-> (exists r, find_char c s = Some r).
Proof.
  induction s as [|x r IH]; cbn [find_byte_idx find_char].
  - split; intros [? H]; discriminate.
  - destruct (N.eqb x c); [split; eauto|].
    destruct (find_byte_idx c r) as [i|]; destruct (find_char c r) as [t|]; split; intros [? H]; eauto;
      try discriminate; exfalso.
    + destruct IH as [IH _]. destruct IH as [? ?]; [eauto|discriminate].
    + destruct IH as [_ IH]. destruct IH as [? ?]; [eauto|discriminate].
Qed.

Theorem contains_at_least_two_checked_ok : forall s c,
  contains_at_least_two_checked s c = POk (contains_at_least_two s c).
Proof.
  intros s c. unfold contains_at_least_two_checked, contains_at_least_two.
  destruct (find_byte_idx c s) as [i|] eqn:F.
  - destruct (find_then_get c s i F) as [rest [H1 H2]]. rewrite H1, H2.
    destruct (find_byte_idx c rest) as [j|] eqn:F2; destruct (find_char c rest) as [t|] eqn:C2; try reflexivity; exfalso.
    + destruct (find_idx_char c rest) as [Hx _]. destruct Hx as [? ?]; [eauto|congruence].
    + destruct (find_idx_char c rest) as [_ Hx]. destruct Hx as [? ?]; [eauto|congruence].
  - destruct (find_char c s) as [t|] eqn:C; [|reflexivity]. exfalso.
    destruct (find_idx_char c s) as [_ Hx]. destruct Hx as [? ?]; [eauto|congruence].
Qed.

Lemma ip_parse_long s : (43 <? byte_len s)%Z = true -> ip_parse s = None.
Proof. intros H. unfold ip_parse. rewrite H. reflexivity. Qed.

Theorem ip_parse_checked_ok : forall s, ip_parse_checked s = POk (ip_parse s).
Proof.
  intros s. unfold ip_parse_checked. destruct (43 <? byte_len s)%Z eqn:E.
  - rewrite (ip_parse_long s E). reflexivity.
  - rewrite !contains_at_least_two_checked_ok. reflexivity.
Qed.

Theorem ip_in_range_strs_checked_ok : forall s1 s2,
  ip_in_range_strs_checked s1 s2 =
  POk (match ip_parse s1, ip_parse s2 with Some a, Some b => Some (ip_is_in_range a b) | _, _ => None end).
Proof.
  intros s1 s2. unfold ip_in_range_strs_checked. rewrite !ip_parse_checked_ok. cbn [pbind].
  destruct (ip_parse s1) as [a|] eqn:E1; [|reflexivity].
  destruct (ip_parse s2) as [b|] eqn:E2; [|reflexivity].
  rewrite ip_in_range_checked_ok by (eapply ip_parse_prefix_bound; eauto). reflexivity.
Qed.
