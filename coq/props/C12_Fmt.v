(* C12 — formatter: meaning- and comment-preserving, idempotent without comments.
   Property theorems only.  What the Gallina model carries is the RELATIONAL specification
   (model/Fmt.v): `clex` lexes a text with the formatter's own token regexes keeping comments as
   items; `fmt_ok inp out` says both lex to the same item sequence (white space free).  The check
   runs the extracted `fmt_okb` as a verified validator on every (input, output) pair the
   implementation produces.  NOT provable in this family, and labelled so in notes/C12.md:
   totality ("formatting succeeds") and the layout chosen by the `pretty` crate.
   `c12_idem_partial` is partial: idempotence is reduced to the two facts F1/F2 about the
   implementation, which are validated per run, not proved. *)
From Cedar Require Import Fmt FmtProofs FmtLexProofs FmtCanonProofs.

(* the executable validator decides the specification *)
Theorem c12_validator_sound_complete : forall inp out, fmt_okb inp out = true <-> fmt_ok inp out.
Proof. exact fmt_okb_iff. Qed.
Print Assumptions c12_validator_sound_complete.

(* every comment of the input appears in the output, in the same relative order, and no other *)
Theorem c12_comments :
  forall inp out, fmt_ok inp out -> comments out = comments inp /\ comments inp <> None.
Proof. exact fmt_ok_comments. Qed.
Print Assumptions c12_comments.

(* same token sequence; hence ANY parser that is a function of the token list (policies, ids
   derived from the order of policies, annotations and their order) gives the same result *)
Theorem c12_tokens :
  forall inp out, fmt_ok inp out -> tokens out = tokens inp /\ tokens inp <> None.
Proof. exact fmt_ok_tokens. Qed.
Print Assumptions c12_tokens.

Theorem c12_tokens_parse :
  forall (A : Type) (parse : list token -> A) inp out,
    fmt_ok inp out -> option_map parse (tokens out) = option_map parse (tokens inp).
Proof. exact fmt_ok_parse. Qed.
Print Assumptions c12_tokens_parse.

(* fmt_ok is an equivalence on lexable texts *)
Theorem c12_fmt_ok_equivalence :
  (forall a, clex a <> None -> fmt_ok a a) /\
  (forall a b, fmt_ok a b -> fmt_ok b a) /\
  (forall a b c, fmt_ok a b -> fmt_ok b c -> fmt_ok a c).
Proof. exact (conj fmt_ok_refl (conj fmt_ok_sym fmt_ok_trans)). Qed.
Print Assumptions c12_fmt_ok_equivalence.

(* re-formatting any output, any number of times, still preserves tokens and comments *)
Theorem c12_reformat_preserves :
  forall (f : str -> str), (forall a, clex a <> None -> fmt_ok a (f a)) ->
  forall n a, clex a <> None -> fmt_ok a (iter f n a).
Proof. intros f F2 n a; exact (reformat_preserves f F2 n a). Qed.
Print Assumptions c12_reformat_preserves.

(* idempotence without comments, reduced to F1 and F2 *)
Theorem c12_idem_partial :
  forall (f : str -> str),
    (forall a, clex a <> None -> fmt_ok a (f a)) ->
    (forall a b, comment_free a -> comment_free b -> tokens a = tokens b -> f a = f b) ->
    forall a, clex a <> None -> comment_free a -> f (f a) = f a.
Proof. exact idempotent. Qed.
Print Assumptions c12_idem_partial.

(* the lexer is compositional over a newline: texts that lex separately lex, joined by a newline, to
   the concatenation of their items (proved by induction over the mode automaton, all texts) ... *)
Theorem c12_lex_join :
  forall s1 s2 l1 l2, clex s1 = Some l1 -> clex s2 = Some l2 ->
    clex (s1 ++ 10%N :: s2)%list = Some (l1 ++ l2)%list.
Proof. exact clex_join. Qed.
Print Assumptions c12_lex_join.

(* ... hence formatting policy by policy and joining with newlines (what policies_str_to_pretty does,
   end-of-file comments included) preserves tokens and comments if each piece does *)
Theorem c12_join_preserves :
  forall a a' b b', fmt_ok a a' -> fmt_ok b b' -> fmt_ok (a ++ 10%N :: b)%list (a' ++ 10%N :: b')%list.
Proof. exact fmt_ok_join. Qed.
Print Assumptions c12_join_preserves.

(* every token the lexer produces re-lexes to exactly itself (replay invariant of the mode automaton) *)
Theorem c12_tokens_relex :
  forall s l, clex s = Some l -> Forall item_wf l.
Proof. exact clex_wf. Qed.
Print Assumptions c12_tokens_relex.

(* The hypotheses of c12_idem_partial are jointly satisfiable: the canonical printer (one token per
   line) `canon` satisfies F2 on comment-free lexable texts and F1, and is idempotent there.  So the
   specification "fmt_ok + function of the tokens" has a model, and for that model idempotence is a
   theorem without hypotheses. *)
Theorem c12_idem_canonical :
  (forall a, clex a <> None -> comment_free a -> fmt_ok a (canon a)) /\
  (forall a b, clex a <> None -> tokens a = tokens b -> canon a = canon b) /\
  (forall a, clex a <> None -> comment_free a -> canon (canon a) = canon a).
Proof. exact (conj canon_F2 (conj canon_F1 canon_idempotent)). Qed.
Print Assumptions c12_idem_canonical.

(* Non-vacuity *)
Example c12_example_ok :
  fmt_okb (s2str "permit(principal,action,resource)when{1<2};// c  ")
          (s2str "permit (principal, action, resource)
when { 1 < 2 }; // c
") = true.
Proof. vm_compute; reflexivity. Qed.
Example c12_example_lost_comment :
  fmt_okb (s2str "permit(principal,action,resource);// c") (s2str "permit(principal,action,resource);") = false.
Proof. vm_compute; reflexivity. Qed.
Example c12_example_string_not_comment :
  comments (s2str "a == ""// no"" // yes") = Some [s2str "// yes"].
Proof. vm_compute; reflexivity. Qed.
Example c12_example_changed_token :
  fmt_okb (s2str "a <= b") (s2str "a < = b") = false /\ fmt_okb (s2str "a::b") (s2str "a : : b") = false.
Proof. split; vm_compute; reflexivity. Qed.
Example c12_example_canon :
  canon (s2str "permit(principal,action,resource);") =
  s2str "permit
(
principal
,
action
,
resource
)
;
".
Proof. vm_compute; reflexivity. Qed.
