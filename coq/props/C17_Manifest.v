(* C17 — entity-manifest slicing keeps everything authorization needs.

   FULL STATEMENT (not proved here; visible so that the gap is explicit):
     forall schema, strictly valid policy set ps, m = compute_entity_manifest schema ps,
     forall conformant q es,  is_authorized ps q (slice_by_manifest m q es) = is_authorized ps q es.
   The analysis (analysis.rs) is not transcribed; manifests computed by the implementation are validated
   per policy set by the executable `adequate` (translation validation) and the statement is checked on the
   implementation by the oracle of vp/props/c17.py.

   PROVED (for all tries, values, entities):
     - slice lemmas: an entity uid met by the trie is kept as is; a kept record keeps exactly the fields the
       trie lists (in order); slice ⊆ store (every kept attribute is the slice of the original attribute by
       the child trie); sliced entities carry no tags and no ancestors before the ancestors phase;
     - walk_app: access-path lookup in tries composes;
     - c17_adequate_getattr_covered_partial: a manifest accepted by the validator has a trie node for every
       direct attribute chain of an accepted GetAttr (PARTIAL: this is the coverage half of
       `adequate m e -> eval e (slice) = eval e (full)`; the evaluation-equality half is not proved). *)
From Cedar Require Import Manifest ManifestProofs.
From Coq Require Import List.
Import ListNotations.

Theorem c17_slice_val_entity_kept : forall t u, slice_val t (VEntity u) = SOk (VEntity u).
Proof. exact slice_val_entity_kept. Qed.
Print Assumptions c17_slice_val_entity_kept.

Theorem c17_slice_val_record_keys : forall t r r',
  slice_val t (VRecord r) = SOk (VRecord r') ->
  map fst r' = filter (fun k => has_key k (t_children t)) (map fst r).
Proof. exact slice_val_record_keys. Qed.
Print Assumptions c17_slice_val_record_keys.

Theorem c17_slice_entity_attrs_subset : forall t d d',
  slice_entity t d = SOk d' ->
  forall k v', In (k, v') (eattrs d') ->
  exists v t', In (k, v) (eattrs d) /\ lookup k (t_children t) = Some t' /\ slice_val t' v = SOk v'.
Proof. exact slice_entity_attrs_subset. Qed.
Print Assumptions c17_slice_entity_attrs_subset.

Theorem c17_slice_entity_no_tags : forall t d d',
  slice_entity t d = SOk d' -> etags d' = [] /\ eancestors d' = [].
Proof. exact slice_entity_no_tags. Qed.
Print Assumptions c17_slice_entity_no_tags.

Theorem c17_walk_app : forall p q t,
  walk t (p ++ q) = match walk t p with Some t' => walk t' q | None => None end.
Proof. exact walk_app. Qed.
Print Assumptions c17_walk_app.

Theorem c17_adequate_getattr_covered_partial : forall m e a ty p,
  adequate m (TEGetAttr e a ty) = true ->
  direct_path (TEGetAttr e a ty) = Some p ->
  exists t, node_at m p = Some t.
Proof. exact adequate_getattr_covered. Qed.
Print Assumptions c17_adequate_getattr_covered_partial.

(* non-vacuity: a trie for principal.manager.name, a store, and the slice of the principal *)
Definition ex_trie : trie :=
  Trie [(s2str "manager", Trie [(s2str "name", Trie [] [] false)] [] false)] [] false.
Definition ex_user (n : string) : uid := mkUid [s2str "User"] (s2str n).
Definition ex_data : edata :=
  mkEdata [(s2str "age", VLong 3); (s2str "manager", VEntity (ex_user "bob"))] [(s2str "t", VLong 1)] [ex_user "g"].
Example ex_slice_entity :
  slice_entity ex_trie ex_data = SOk (mkEdata [(s2str "manager", VEntity (ex_user "bob"))] [] []).
Proof. vm_compute. reflexivity. Qed.
Example ex_adequate :
  adequate [(RVar Principal, ex_trie)]
    (TEGetAttr (TEGetAttr (TEVar Principal None) (s2str "manager") None) (s2str "name") None) = true
  /\ adequate [(RVar Principal, ex_trie)]
    (TEGetAttr (TEGetAttr (TEVar Principal None) (s2str "manager") None) (s2str "age") None) = false.
Proof. vm_compute. split; reflexivity. Qed.
