(* C17 — entity-manifest slicing keeps everything authorization needs.

   FULL STATEMENT (not proved here; visible so that the gap is explicit):
     forall schema, strictly valid policy set ps, m = compute_entity_manifest schema ps,
     forall conformant q es,  is_authorized ps q (slice_by_manifest m q es) = is_authorized ps q es.
   The analysis (analysis.rs) is not transcribed; manifests computed by the implementation are validated
   per policy set by the executable `adequate` (translation validation) and the statement is checked on the
   implementation by the oracle of vp/props/c17.py.

   PROVED (for all tries, values, entities):
     - slice lemmas: an entity uid met by the trie is kept as is; a kept record keeps exactly the fields the
       trie lists (in order); slice ⊆ store (every kept attribute is the slice of the original attribute by
       the child trie); sliced entities carry no tags and no ancestors before the ancestors phase;
     - walk_app: access-path lookup in tries composes;
     - c17_adequate_getattr_covered_partial: a manifest accepted by the validator has a trie node for every
       direct attribute chain of an accepted GetAttr (PARTIAL: this is the coverage half of
       `adequate m e -> eval e (slice) = eval e (full)`; the evaluation-equality half is not proved). *)
From Cedar Require Import Manifest ManifestSpec ManifestProofs ManifestSound.
From Coq Require Import List.
Import ListNotations.

Theorem c17_slice_val_entity_kept : forall t u, slice_val t (VEntity u) = SOk (VEntity u).
Proof. exact slice_val_entity_kept. Qed.
Print Assumptions c17_slice_val_entity_kept.

Theorem c17_slice_val_record_keys : forall t r r',
  slice_val t (VRecord r) = SOk (VRecord r') ->
  map fst r' = filter (fun k => has_key k (t_children t)) (map fst r).
Proof. exact slice_val_record_keys. Qed.
Print Assumptions c17_slice_val_record_keys.

Theorem c17_slice_entity_attrs_subset : forall t d d',
  slice_entity t d = SOk d' ->
  forall k v', In (k, v') (eattrs d') ->
  exists v t', In (k, v) (eattrs d) /\ lookup k (t_children t) = Some t' /\ slice_val t' v = SOk v'.
Proof. exact slice_entity_attrs_subset. Qed.
Print Assumptions c17_slice_entity_attrs_subset.

Theorem c17_slice_entity_no_tags : forall t d d',
  slice_entity t d = SOk d' -> etags d' = [] /\ eancestors d' = [].
Proof. exact slice_entity_no_tags. Qed.
Print Assumptions c17_slice_entity_no_tags.

Theorem c17_walk_app : forall p q t,
  walk t (p ++ q) = match walk t p with Some t' => walk t' q | None => None end.
Proof. exact walk_app. Qed.
Print Assumptions c17_walk_app.

Theorem c17_adequate_getattr_covered_partial : forall sl m e a ty p,
  adequate sl m (TEGetAttr e a ty) = true ->
  direct_path sl (TEGetAttr e a ty) = Some p ->
  exists t, node_at m p = Some t.
Proof. exact adequate_getattr_covered. Qed.
Print Assumptions c17_adequate_getattr_covered_partial.

(* MAIN THEOREM (partial): on any store es' that is a good slice of es for the root access trie m
   (`good_slice`: along every path of the trie the entities are present iff present in es, the listed
   attributes are present iff present in es and agree recursively, requested ancestors are kept exactly),
   every typed expression of the visible fragment whose manifest requirements are met (`frag sl m e =
   Some KExact`: literals, variables, slots, GetAttr chains from request variables / entity literals / slots,
   `has` on chains, && || ! if, == against a non-record operand or between exact operands, < <= + - *,
   containsAll/containsAny, contains of an exact element, like, is, extension calls / set / record literals of
   exact operands, `a in b` with a a chain and b a chain or a set literal of chains whose paths are marked in
   a's ancestors trie) evaluates on es' to exactly the same value or error as on es.
   PARTIAL because (1) the fragment excludes projections out of record literals / `if`, == between two
   attribute chains (needs typing + full_type_required), tags; (2) `good_slice` is a hypothesis: the refinement
   `slice_by_manifest fuel m q es = SOk es' -> good_slice ...` (a proof about the fuelled loader loop and the
   merge) is NOT proved — the executable slice is tied to the implementation by the correspondence instead. *)
Theorem c17_adequate_sound_partial : forall q es es' m sl e,
  good_slice q es es' m -> frag sl m e = Some KExact ->
  eval sl q es' (erase e) = eval sl q es (erase e).
Proof. exact adequate_sound. Qed.
Print Assumptions c17_adequate_sound_partial.

(* lifted to responses through the authorizer model of C01: same decision, determining policies, errors *)
Theorem c17_response_sound_partial : forall q es es' m ps,
  good_slice q es es' m ->
  (forall p, In p ps -> exists te, pcondition p = erase te /\ frag (penv p) m te = Some KExact) ->
  is_authorized ps q es' = is_authorized ps q es.
Proof. exact response_sound. Qed.
Print Assumptions c17_response_sound_partial.

(* non-vacuity: a trie for principal.manager.name, a store, and the slice of the principal *)
Definition ex_trie : trie :=
  Trie [(s2str "manager", Trie [(s2str "name", Trie [] [] false)] [] false)] [] false.
Definition ex_user (n : string) : uid := mkUid [s2str "User"] (s2str n).
Definition ex_data : edata :=
  mkEdata [(s2str "age", VLong 3); (s2str "manager", VEntity (ex_user "bob"))] [(s2str "t", VLong 1)] [ex_user "g"].
Example ex_slice_entity :
  slice_entity ex_trie ex_data = SOk (mkEdata [(s2str "manager", VEntity (ex_user "bob"))] [] []).
Proof. vm_compute. reflexivity. Qed.
Example ex_adequate :
  adequate [] [(RVar Principal, ex_trie)]
    (TEGetAttr (TEGetAttr (TEVar Principal None) (s2str "manager") None) (s2str "name") None) = true
  /\ adequate [] [(RVar Principal, ex_trie)]
    (TEGetAttr (TEGetAttr (TEVar Principal None) (s2str "manager") None) (s2str "age") None) = false.
Proof. vm_compute. split; reflexivity. Qed.

(* non-vacuity of the main theorem: a manifest, a store, its executable slice (which is a good slice), and a
   fragment expression that reads through an entity-valued attribute *)
Definition ex_q : request := mkRequest (ex_user "alice") (mkUid [s2str "Action"] (s2str "view")) (ex_user "doc") [].
Definition ex_es : entities :=
  [ (ex_user "alice", mkEdata [(s2str "age", VLong 3); (s2str "manager", VEntity (ex_user "bob"))] [] [ex_user "g"]);
    (ex_user "bob", mkEdata [(s2str "age", VLong 5); (s2str "name", VString (s2str "b"))] [] []) ].
Definition ex_m : rtrie := [(RVar Principal, ex_trie)].
Definition ex_es' : entities :=
  [ (ex_user "alice", mkEdata [(s2str "manager", VEntity (ex_user "bob"))] [] []);
    (ex_user "bob", mkEdata [(s2str "name", VString (s2str "b"))] [] []) ].
Definition ex_e : texpr :=
  TEBinApp BEq (TEGetAttr (TEGetAttr (TEVar Principal None) (s2str "manager") None) (s2str "name") None)
           (TELit (PString (s2str "b")) None) None.

Example ex_slice_is_executable_slice :
  slice_by_manifest 8 [(request_type ex_q, ex_m)] ex_q ex_es = SOk ex_es'.
Proof. vm_compute. reflexivity. Qed.

Example ex_frag : frag [] ex_m ex_e = Some KExact.
Proof. vm_compute. reflexivity. Qed.

Example ex_good_slice : good_slice ex_q ex_es ex_es' ex_m.
Proof.
  intros r t L. unfold ex_m in L. cbn [lookup_root] in L.
  destruct (root_eqb r (RVar Principal)) eqn:E; [|discriminate]. inversion L; subst t.
  destruct r as [u|v]; [discriminate|]. destruct v; try discriminate.
  cbn. repeat split; try reflexivity;
    intros r0 t0 p t1 v x Hl; discriminate.
Qed.

Example ex_main_instance :
  eval [] ex_q ex_es' (erase ex_e) = eval [] ex_q ex_es (erase ex_e) /\ eval [] ex_q ex_es (erase ex_e) = Ok (VBool true).
Proof. split; [exact (c17_adequate_sound_partial _ _ _ _ _ _ ex_good_slice ex_frag) | vm_compute; reflexivity]. Qed.
