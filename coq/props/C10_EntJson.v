(* C10 — entity / context JSON round trip; schema-directed parsing agrees with the escapes.

   Model: model/EntJson.v on model/JsonTree.v (transcribed from entities/json/value.rs, context.rs).
   Proved here, for ALL values:
     c10_value_rt      serialise-then-parse (escape-directed, no schema) returns the value itself
                       (exact equality, which implies the model's value equality)
     c10_reserved      serialisation fails iff a record with a key __entity/__extn/__expr occurs
                       in the value, and then with the reserved-key error
     c10_context_rt    the same round trip for contexts whose top-level keys are not reserved
     c10_context_rt_refuted   the full statement for contexts is FALSE of the faithful model: a
                       one-entry context {"__entity": {type,id}} serialises (no refusal at the top
                       level) and the result is not a record when parsed back (finding
                       C10:context_top_level_reserved_key, replayed on the implementation)
     c10_implicit_explicit_partial   PARTIAL: every implicit form of an entity reference and of
                       an extension value parses, under the expected type, to the same datum as
                       the explicit escape parsed without a type.  Missing: the lifting through
                       set and record types (every per-node choice inside nested sets/records) and
                       the entity/store level (c10_schema_rt, c10_store_rt of the design); those
                       are covered by the correspondence and the implementation-level oracle only. *)
From Coq Require Import List Bool String.
Open Scope string_scope.
From Cedar Require Import EntJson EntJsonProofs.
Import ListNotations.

Theorem c10_value_rt : forall v j,
  wf_rval v = true -> value_to_json v = JOk j -> json_to_value None j = JOk v.
Proof. exact value_rt. Qed.
Print Assumptions c10_value_rt.

Theorem c10_reserved : forall v, calls_nonempty v = true ->
  ((exists e, value_to_json v = JErr e) <-> has_reserved v = true) /\
  (forall e, value_to_json v = JErr e -> e = EReservedKey).
Proof. exact reserved_iff. Qed.
Print Assumptions c10_reserved.

Theorem c10_context_rt : forall pairs j,
  existsb reserved_key (map fst pairs) = false ->
  wf_rval (RRecord pairs) = true -> rval_evaluable (RRecord pairs) = true ->
  context_to_json pairs = JOk j -> context_from_json None j = JOk pairs.
Proof. exact context_rt. Qed.
Print Assumptions c10_context_rt.

Theorem c10_context_rt_refuted :
  exists pairs j, context_to_json pairs = JOk j /\ context_from_json None j = JErr ENotARecord.
Proof. exact context_rt_refuted. Qed.
Print Assumptions c10_context_rt_refuted.

Theorem c10_implicit_explicit_partial :
  (forall t u, valid_name (jty u) = true ->
     parse_ty (STEntity t) (juid_json u) = JOk (REntity u) /\
     parse_ty (STEntity t) (JObj [(k_entity, juid_json u)]) = JOk (REntity u) /\
     json_to_value None (JObj [(k_entity, juid_json u)]) = JOk (REntity u)) /\
  (forall tyname ctor s, In (tyname, ctor) ext_constructors ->
     let explicit := JObj [(k_extn, JObj [(k_fn, JStr ctor); (k_arg, JStr s)])] in
     parse_ty (STExt tyname) (JStr s) = JOk (RCall ctor [RString s]) /\
     parse_ty (STExt tyname) (JObj [(k_fn, JStr ctor); (k_arg, JStr s)]) = JOk (RCall ctor [RString s]) /\
     parse_ty (STExt tyname) explicit = JOk (RCall ctor [RString s]) /\
     json_to_value None explicit = JOk (RCall ctor [RString s])).
Proof. split; [exact implicit_entity | exact implicit_ext]. Qed.
Print Assumptions c10_implicit_explicit_partial.

(* non-vacuity: a value with every constructor, odd record keys and a nested call is well formed,
   serialises, and comes back; a reserved key is refused *)
Definition ex_value : rval :=
  RRecord [ (s2str "type", RString (s2str "A")); (s2str "id", REntity (mkJuid (s2str "NS::T") (s2str "x y")))
          ; (s2str "", RSet [RLong i64_min; RSet []; RBool true])
          ; (s2str "fn", RCall (s2str "decimal") [RString (s2str "1.50")]) ].
Example ex_wf : wf_rval ex_value = true /\ calls_nonempty ex_value = true /\ has_reserved ex_value = false.
Proof. vm_compute. auto. Qed.
Example ex_rt : exists j, value_to_json ex_value = JOk j /\ json_to_value None j = JOk ex_value.
Proof.
  let r := eval vm_compute in (value_to_json ex_value) in match r with JOk ?x => exists x end.
  split; vm_compute; reflexivity.
Qed.
Example ex_refused :
  value_to_json (RSet [RRecord [(k_extn, RLong 1)]]) = JErr EReservedKey /\
  has_reserved (RSet [RRecord [(k_extn, RLong 1)]]) = true.
Proof. vm_compute. auto. Qed.
Example ex_context : exists j,
  context_to_json [(s2str "k", ex_value)] = JOk j /\ context_from_json None j = JOk [(s2str "k", ex_value)].
Proof.
  let r := eval vm_compute in (context_to_json [(s2str "k", ex_value)]) in match r with JOk ?x => exists x end.
  split; vm_compute; reflexivity.
Qed.
Example ex_implicit_in_record :
  parse_ty (STRecord [(s2str "d", (STExt (s2str "decimal"), true)); (s2str "u", (STSet (STEntity (s2str "T")), false))] false)
           (JObj [(s2str "d", JStr (s2str "1.5")); (s2str "u", JArr [JObj [(k_type, JStr (s2str "T")); (k_id, JStr (s2str "a"))]])])
  = JOk (RRecord [(s2str "d", RCall (s2str "decimal") [RString (s2str "1.5")]);
                  (s2str "u", RSet [REntity (mkJuid (s2str "T") (s2str "a"))])]).
Proof. vm_compute. reflexivity. Qed.
