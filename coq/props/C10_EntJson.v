(* C10 — entity / context JSON round trip; schema-directed parsing agrees with the escapes.

   Model: model/EntJson.v on model/JsonTree.v (transcribed from entities/json/value.rs, context.rs).
   Proved here, for ALL values:
     c10_value_rt      serialise-then-parse (escape-directed, no schema) returns the value itself
                       (exact equality, which implies the model's value equality)
     c10_reserved      serialisation fails iff a record with a key __entity/__extn/__expr occurs
                       in the value, and then with the reserved-key error
     c10_context_rt    the same round trip for contexts, with no condition on the keys (since /repo
                       4b26962 Context::to_json_value refuses reserved top-level keys; before that fix
                       the statement was false of the faithful model — finding
                       C10:context_top_level_reserved_key, now fixed)
     c10_context_reserved   a context is refused iff a reserved key occurs at the top level or below
     c10_entity_rt     entity (uid, attrs, tags, stored ancestors) -> JSON -> entity without schema
                       returns the entity itself: same uid, attribute and tag values, ancestor list
     c10_store_rt      a store as Entities holds it (`store_ok`: well-formed entities, unique uids,
                       ancestor lists transitively closed through the entities present, no entity its
                       own ancestor) -> JSON -> store without schema: the same entities in the same
                       order with the same uid, attributes, tags and the same ancestor SET
                       (the closure recomputed by the parser adds nothing)
     c10_store_schema_actions   loading WITH a schema returns the closed document entities (minus those
                       overridden by an equal-uid schema action) followed by exactly the schema's
                       action entities: all of them are present and every other entity has a uid
                       different from every schema action
     c10_implicit_explicit   for every schema type built from bool/long/string/entity/extension,
                       sets and CLOSED records (optional attributes present or absent), every JSON
                       form `variant t v j` of a value v of type t — free per-node choice of
                       {type,id} vs __entity, bare string vs {fn,arg} vs __extn, at any depth inside
                       sets and records — parses under the type to v, and the explicit serialisation
                       of v parses without a type to v as well.
   Not proved (correspondence + implementation-level oracle only): that schema-directed parsing at the
   ENTITY level succeeds on conformant data and returns the same entity (c10_schema_rt: dispatch on
   the schema's entity type, open entity shapes, tags) — hence the with-schema store round trip is
   proved only up to the parse step; open record types (unreachable from schemas today). *)
From Coq Require Import List Bool String.
Open Scope string_scope.
From Cedar Require Import EntJson EntJsonProofs.
Import ListNotations.

Theorem c10_value_rt : forall v j,
  wf_rval v = true -> value_to_json v = JOk j -> json_to_value None j = JOk v.
Proof. exact value_rt. Qed.
Print Assumptions c10_value_rt.

Theorem c10_reserved : forall v, calls_nonempty v = true ->
  ((exists e, value_to_json v = JErr e) <-> has_reserved v = true) /\
  (forall e, value_to_json v = JErr e -> e = EReservedKey).
Proof. exact reserved_iff. Qed.
Print Assumptions c10_reserved.

Theorem c10_context_rt : forall pairs j,
  wf_rval (RRecord pairs) = true -> rval_evaluable (RRecord pairs) = true ->
  context_to_json pairs = JOk j -> context_from_json None j = JOk pairs.
Proof. exact context_rt. Qed.
Print Assumptions c10_context_rt.

Theorem c10_context_reserved : forall pairs, calls_nonempty (RRecord pairs) = true ->
  ((exists e, context_to_json pairs = JErr e) <-> has_reserved (RRecord pairs) = true).
Proof. exact context_reserved. Qed.
Print Assumptions c10_context_reserved.

Theorem c10_entity_rt : forall e j,
  wf_entity e = true -> entity_to_json e = JOk j -> entity_from_json None j = EOk e.
Proof. exact entity_rt. Qed.
Print Assumptions c10_entity_rt.

Theorem c10_implicit_explicit : forall t v j je,
  variant t v j -> wf_rval v = true -> value_to_json v = JOk je ->
  json_to_value (Some t) j = JOk v /\ json_to_value None je = JOk v.
Proof. exact implicit_explicit. Qed.
Print Assumptions c10_implicit_explicit.

Theorem c10_store_rt : forall st j, store_ok st -> store_to_json st = JOk j ->
  exists st', store_from_json None [] j = SOk st' /\ Forall2 same_entity st st'.
Proof. exact store_rt. Qed.
Print Assumptions c10_store_rt.

Theorem c10_store_schema_actions : forall sch acts l st',
  store_from_json (Some sch) acts (JArr l) = SOk st' ->
  (exists es closed,
     emapM (entity_from_json (Some sch)) l = EOk es /\ close_store es = SOk closed /\
     st' = filter (fun e => negb (existsb (fun a => juid_eqb (je_uid e) (je_uid a)) acts)) closed ++ acts) /\
  incl acts st' /\
  (forall e, In e st' -> In e acts \/ (forall a, In a acts -> je_uid a <> je_uid e)).
Proof.
  intros sch acts l st' H. split; [exact (store_schema_actions sch acts l st' H)|].
  exact (store_schema_actions_in sch acts l st' H).
Qed.
Print Assumptions c10_store_schema_actions.

(* non-vacuity: a value with every constructor, odd record keys and a nested call is well formed,
   serialises, and comes back; a reserved key is refused *)
Definition ex_value : rval :=
  RRecord [ (s2str "type", RString (s2str "A")); (s2str "id", REntity (mkJuid (s2str "NS::T") (s2str "x y")))
          ; (s2str "", RSet [RLong i64_min; RSet []; RBool true])
          ; (s2str "fn", RCall (s2str "decimal") [RString (s2str "1.50")]) ].
Example ex_wf : wf_rval ex_value = true /\ calls_nonempty ex_value = true /\ has_reserved ex_value = false.
Proof. vm_compute. auto. Qed.
Example ex_rt : exists j, value_to_json ex_value = JOk j /\ json_to_value None j = JOk ex_value.
Proof.
  let r := eval vm_compute in (value_to_json ex_value) in match r with JOk ?x => exists x end.
  split; vm_compute; reflexivity.
Qed.
Example ex_refused :
  value_to_json (RSet [RRecord [(k_extn, RLong 1)]]) = JErr EReservedKey /\
  has_reserved (RSet [RRecord [(k_extn, RLong 1)]]) = true.
Proof. vm_compute. auto. Qed.
Example ex_context : exists j,
  context_to_json [(s2str "k", ex_value)] = JOk j /\ context_from_json None j = JOk [(s2str "k", ex_value)].
Proof.
  let r := eval vm_compute in (context_to_json [(s2str "k", ex_value)]) in match r with JOk ?x => exists x end.
  split; vm_compute; reflexivity.
Qed.
Example ex_implicit_in_record :
  parse_ty (STRecord [(s2str "d", (STExt (s2str "decimal"), true)); (s2str "u", (STSet (STEntity (s2str "T")), false))] false)
           (JObj [(s2str "d", JStr (s2str "1.5")); (s2str "u", JArr [JObj [(k_type, JStr (s2str "T")); (k_id, JStr (s2str "a"))]])])
  = JOk (RRecord [(s2str "d", RCall (s2str "decimal") [RString (s2str "1.5")]);
                  (s2str "u", RSet [REntity (mkJuid (s2str "T") (s2str "a"))])]).
Proof. vm_compute. reflexivity. Qed.

(* a typed value with a nested set of entity references, an optional attribute left out, and three
   different spellings of extension values: it has the variant below, so c10_implicit_explicit applies *)
Definition ex_ty : sty :=
  STRecord [ (s2str "d", (STExt (s2str "decimal"), true)); (s2str "o", (STLong, false))
           ; (s2str "r", (STRecord [(s2str "ip", (STExt (s2str "ipaddr"), true))] false, true))
           ; (s2str "u", (STSet (STSet (STEntity (s2str "T"))), false)) ] false.
Definition ex_tv : rval :=
  RRecord [ (s2str "d", RCall (s2str "decimal") [RString (s2str "1.5")])
          ; (s2str "r", RRecord [(s2str "ip", RCall (s2str "ip") [RString (s2str "::1")])])
          ; (s2str "u", RSet [RSet [REntity (mkJuid (s2str "T") (s2str "a")); REntity (mkJuid (s2str "T") (s2str "b"))]; RSet []]) ].
Definition ex_tj : json :=
  JObj [ (s2str "d", JStr (s2str "1.5"))
       ; (s2str "r", JObj [(s2str "ip", JObj [(k_fn, JStr (s2str "ip")); (k_arg, JStr (s2str "::1"))])])
       ; (s2str "u", JArr [JArr [juid_json (mkJuid (s2str "T") (s2str "a"));
                                 JObj [(k_entity, juid_json (mkJuid (s2str "T") (s2str "b")))]]; JArr []]) ].
Example ex_variant : variant ex_ty ex_tv ex_tj.
Proof.
  unfold ex_ty, ex_tv, ex_tj. apply V_rec.
  - repeat constructor; cbn; intuition discriminate.
  - apply RV_present. { apply V_ext_bare. cbn. auto. }
    apply RV_absent. { reflexivity. }
    apply RV_present.
    { apply V_rec. { repeat constructor; cbn; intuition discriminate. }
      apply RV_present. { apply V_ext_fnarg. cbn. auto. } apply RV_nil. }
    apply RV_present.
    { apply V_set. constructor.
      - apply V_set. constructor. { apply V_ent_impl. reflexivity. }
        constructor. { apply V_ent_expl. reflexivity. } constructor.
      - constructor. { apply V_set. constructor. } constructor. }
    apply RV_nil.
Qed.
Example ex_variant_wf : wf_rval ex_tv = true /\ exists je, value_to_json ex_tv = JOk je.
Proof.
  split; [vm_compute; reflexivity|].
  let r := eval vm_compute in (value_to_json ex_tv) in match r with JOk ?x => exists x end.
  vm_compute. reflexivity.
Qed.

Definition ex_entity : jentity :=
  mkJentity (mkJuid (s2str "NS::T") (s2str "x y")) [(s2str "__entity", ex_value)]
            [(s2str "t", RCall (s2str "datetime") [RString (s2str "2024-01-01")])]
            [mkJuid (s2str "G") (s2str "g1"); mkJuid (s2str "G") (s2str "g2")].
Example ex_entity_wf : wf_entity ex_entity = true.
Proof. vm_compute. reflexivity. Qed.
Example ex_entity_rt : exists j, entity_to_json ex_entity = JOk j /\ entity_from_json None j = EOk ex_entity.
Proof.
  let r := eval vm_compute in (entity_to_json ex_entity) in match r with JOk ?x => exists x end.
  split; vm_compute; reflexivity.
Qed.

(* a store with a two-step hierarchy (c < p < g, g absent): store_ok holds, it serialises and comes back *)
Definition ex_g : juid := mkJuid (s2str "G") (s2str "g").
Definition ex_p : jentity := mkJentity (mkJuid (s2str "G") (s2str "p")) [] [] [ex_g].
Definition ex_c : jentity := mkJentity (mkJuid (s2str "T") (s2str "c")) [(s2str "a", RLong 1)] [] [je_uid ex_p; ex_g].
Example ex_store_ok : store_ok [ex_c; ex_p].
Proof.
  split; [repeat constructor|]. split; [vm_compute; reflexivity|].
  assert (Hclosed : forall a, (a = je_anc ex_c \/ a = je_anc ex_p) -> closed_set [ex_c; ex_p] a).
  { intros a Ha p e' Hp Hf. destruct Ha as [->| ->]; cbn in Hp.
    - destruct Hp as [<-|[<-|[]]]; vm_compute in Hf; inversion Hf; subst; intros u Hu; cbn in *; tauto.
    - destruct Hp as [<-|[]]; vm_compute in Hf; inversion Hf. }
  constructor; [split; [apply Hclosed; auto|]|constructor; [split; [apply Hclosed; auto|]|constructor]].
  - cbn. intros [H|[H|[]]]; discriminate.
  - cbn. intros [H|[]]; discriminate.
Qed.
Example ex_store_rt : exists j st', store_to_json [ex_c; ex_p] = JOk j /\ store_from_json None [] j = SOk st'.
Proof.
  let r := eval vm_compute in (store_to_json [ex_c; ex_p]) in match r with JOk ?x => exists x end.
  let r := eval vm_compute in (close_store [ex_c; ex_p]) in match r with SOk ?x => exists x end.
  split; vm_compute; reflexivity.
Qed.
