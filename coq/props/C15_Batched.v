(* C15 — batched (loader-driven) authorization equals ordinary authorization.
   Model: model/Batched.v (loader loop of is_authorized_batched as of /repo 6dde98e; the partial
   evaluator is abstract).  Lemmas: proofs/BatchedProofs.v.

   Hypotheses (trusted base of C15, each one names the code fact it stands for):
     reinterp_stable         Evaluator::interpret returns Residual::Concrete / Residual::Error unchanged
     partial_needs_unloaded  a residual that is still Partial after interpretation over the partial store
                             st mentions a literal uid that st does not contain
     lits_in_universe        interpretation over a store the loader produced only mentions uids of the
                             universe (uids of store + request + policies); rs0_in_universe: policies too
     loader_answers / loader_in_universe   every requested id is answered; anything else the loader
                             returns is a uid of the universe  (PROVED for loader_of and loader_all)
     U_eqb_spec              the uid equality test is equality
     sound_class / sound_reinterp / good_*   residual soundness of TPE over partial stores obtained
                             from the full store through the loader (this is property C14)
   chain_progress (proofs/BatchedProofs.v) instantiates ALL interp hypotheses with the pointer-chain
   evaluator, so they are jointly satisfiable. *)
From Coq Require Import List Bool ZArith String.
Import ListNotations.
From Cedar Require Import Base Sexp Syntax Authz Batched BatchedProofs.

Section C15.
  Variable U : Type.
  Variable U_eqb : U -> U -> bool.
  Variable D : Type.
  Variable empty_entity : U -> D.
  Variable residual : Type.
  Variable classify : residual -> rclass.
  Variable lits : residual -> list U.
  Variable reinterp : pstore U D -> residual -> residual.
  Variable rs0 : list (rpol residual).
  Variable l : loader U D.

  Notation batchedX := (batched U U_eqb D empty_entity residual classify lits reinterp rs0).
  Notation batched_fullX := (batched_full U U_eqb D empty_entity residual classify lits reinterp rs0).

  (* the only non-decision outcome is InsufficientIterations (for EVERY loader, since 6dde98e) ... *)
  Theorem c15_insufficient : forall n, batchedX l n = BInsufficient \/ exists d, batchedX l n = BOk d.
  Proof. intro n. destruct (batchedX l n); [right; eauto|left; reflexivity]. Qed.

  (* ... it is reported only when all n iterations were used (n loader calls were made) ... *)
  Theorem c15_insufficient_uses_budget : forall n,
    batchedX l n = BInsufficient -> length (snd (batched_fullX l n)) = n.
  Proof. apply insufficient_uses_budget. Qed.

  (* ... and the loader is never called more often than the budget *)
  Theorem c15_calls_le_budget : forall n, (length (snd (batched_fullX l n)) <= n)%nat.
  Proof. apply calls_le_budget. Qed.

  (* an entity the loader returns although it is already loaded is ignored (the fix of finding F-1) *)
  Theorem c15_returned_again_ignored : forall st u e ans,
    loaded U U_eqb D st u = true ->
    add_all U U_eqb D empty_entity st ((u, e) :: ans) = add_all U U_eqb D empty_entity st ans.
  Proof. apply add_all_ignores_loaded. Qed.

  Hypothesis reinterp_stable : forall st, stable residual classify (reinterp st).

  (* a decision obtained with budget n is obtained with every larger budget *)
  Theorem c15_monotone : forall n k d, batchedX l n = BOk d -> batchedX l (n + k) = BOk d.
  Proof. apply monotone; assumption. Qed.

  (* budget > number of uids of the universe => a decision *)
  Variable Univ : list U.
  Variable good : pstore U D -> Prop.
  Hypothesis U_eqb_spec : forall a b, U_eqb a b = true <-> a = b.
  Hypothesis good_nil : good [].
  Hypothesis good_add : forall st ids, good st -> good (add_all U U_eqb D empty_entity st (l ids)).
  Hypothesis partial_needs_unloaded : forall st r,
    classify (reinterp st r) = RPartial -> exists u, In u (lits (reinterp st r)) /\ loaded U U_eqb D st u = false.
  Hypothesis lits_in_universe : forall st r, good st -> incl (lits r) Univ -> incl (lits (reinterp st r)) Univ.
  Hypothesis rs0_in_universe : forall er, In er rs0 -> incl (lits (snd er)) Univ.
  Hypothesis loader_answers : forall ids u, In u ids -> In u (map fst (l ids)).
  Hypothesis loader_in_universe : forall ids u, In u (map fst (l ids)) -> In u ids \/ In u Univ.

  Theorem c15_progress : forall n, (length Univ < n)%nat -> exists d, batchedX l n = BOk d.
  Proof. eapply progress; eassumption. Qed.
End C15.

Print Assumptions c15_insufficient.
Print Assumptions c15_insufficient_uses_budget.
Print Assumptions c15_calls_le_budget.
Print Assumptions c15_returned_again_ignored.
Print Assumptions c15_monotone.
Print Assumptions c15_progress.

(* the loader hypotheses of c15_progress hold of TestEntityLoader (loader_of) and of a loader that
   returns the whole store every time (loader_all) *)
Theorem c15_loader_of_ok : forall U U_eqb D (Univ : list U) (es : list (U * D)),
  (forall ids u, In u ids -> In u (map fst (loader_of U U_eqb D es ids))) /\
  (forall ids u, In u (map fst (loader_of U U_eqb D es ids)) -> In u ids \/ In u Univ).
Proof. intros. split; [apply loader_of_answers|apply loader_of_in_universe]. Qed.

Theorem c15_loader_all_ok : forall U U_eqb D (Univ : list U) (es : list (U * D)),
  incl (map fst es) Univ ->
  (forall ids u, In u ids -> In u (map fst (loader_all U U_eqb D es ids))) /\
  (forall ids u, In u (map fst (loader_all U U_eqb D es ids)) -> In u ids \/ In u Univ).
Proof. intros. split; [apply loader_all_answers|apply loader_all_in_universe; assumption]. Qed.

Print Assumptions c15_loader_of_ok.
Print Assumptions c15_loader_all_ok.

Section C15Agree.
  Variable U : Type.
  Variable U_eqb : U -> U -> bool.
  Variable D : Type.
  Variable empty_entity : U -> D.
  Variable residual : Type.
  Variable classify : residual -> rclass.
  Variable lits : residual -> list U.
  Variable reinterp : pstore U D -> residual -> residual.
  Variable rs0 : list (rpol residual).
  Variable l : loader U D.
  Variable conc : residual -> rclass.
  Variable good : pstore U D -> Prop.
  Hypothesis good_nil : good [].
  Hypothesis good_add : forall st ids, good st -> good (add_all U U_eqb D empty_entity st (l ids)).
  Hypothesis sound_class : forall r, classify r <> RPartial -> conc r = classify r.
  Hypothesis sound_reinterp : forall st r, good st -> conc (reinterp st r) = conc r.

  (* whenever the batched evaluation returns a decision it is the decision of the ordinary
     authorizer on the concrete outcomes of the policies — for EVERY budget.  `_partial`: residual
     soundness of the partial evaluator is a hypothesis (property C14), not proved here. *)
  Theorem c15_agree_partial : forall n d,
    batched U U_eqb D empty_entity residual classify lits reinterp rs0 l n = BOk d ->
    d = cdecide residual conc rs0.
  Proof. intros n d H. eapply agree; eauto. Qed.
End C15Agree.

Print Assumptions c15_agree_partial.

(* ---------------------------------------------------------------- the hypotheses are satisfiable:
   c15_progress for the pointer-chain instance of model/Batched.v, every interp hypothesis proved *)
Theorem c15_progress_chain : forall (es : list (Z * cdata)) (Univ : list Z) rs0,
  (forall u fl v, lookup Z Z.eqb cdata es u = Some (fl, Some v) -> In v Univ) ->
  (forall er, In er rs0 -> incl (c_lits (snd er)) Univ) ->
  forall n, (length Univ < n)%nat -> exists d, c_batched rs0 es n = BOk d.
Proof. intros es Univ rs0 H1 H2. apply chain_progress; assumption. Qed.

Print Assumptions c15_progress_chain.

Example c15_chain_stable : forall st, stable cres c_classify (c_reinterp st).
Proof. apply c_stable. Qed.

(* store 1 -> 2 -> 3 (flag true); entity 4 does not exist; policies: permit when 1.next.next.flag,
   forbid when 4 has next && 4.next.flag (4 is missing = empty: false) *)
Definition ex_store : list (Z * cdata) :=
  [(1, (Some false, Some 2)); (2, (Some false, Some 3)); (3, (Some true, None))]%Z.
Definition ex_pols : list (effect * cres) := [(Permit, CChain 1%Z 2); (Forbid, CChain 4%Z 1)].

Example c15_chain_budgets :
  map (c_batched ex_pols ex_store) [0; 1; 2; 3; 4; 9]%nat
  = [BInsufficient; BInsufficient; BInsufficient; BOk Allow; BOk Allow; BOk Allow].
Proof. vm_compute. reflexivity. Qed.

(* every hop needs one more iteration: a chain of 5 hops decides with budget 6, not 5 *)
Example c15_chain_five_hops :
  let es := [(1, (Some false, Some 2)); (2, (Some false, Some 3)); (3, (Some false, Some 4));
             (4, (Some false, Some 5)); (5, (Some false, Some 6)); (6, (Some true, None))]%Z in
  (c_batched [(Permit, CChain 1%Z 5)] es 5, c_batched [(Permit, CChain 1%Z 5)] es 6) = (BInsufficient, BOk Allow).
Proof. vm_compute. reflexivity. Qed.

(* a missing principal is an empty entity: `7.flag` with 7 absent is an evaluation error => Deny *)
Example c15_chain_missing : c_batched [(Permit, CChain 7%Z 0)] ex_store 1 = BOk Deny.
Proof. vm_compute. reflexivity. Qed.

(* the witness of finding F-1 after the fix: a loader that also returns entity 3 every time now gives
   the same decision as the exact loader (before /repo 6dde98e the second iteration failed with a
   Duplicate error; the check still reports that on a tree without the fix) *)
Example c15_extra_entity_same_decision :
  let l := fun ids => (loader_of Z Z.eqb cdata ex_store ids ++ [(3%Z, lookup Z Z.eqb cdata ex_store 3%Z)])%list in
  fst (c_batched_full ex_pols l 3) = BOk Allow /\ c_batched ex_pols ex_store 3 = BOk Allow /\
  fst (c_batched_full ex_pols (loader_all Z Z.eqb cdata ex_store) 1) = BOk Allow.
Proof. vm_compute. repeat split; reflexivity. Qed.
