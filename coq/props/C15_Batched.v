(* C15 — batched (loader-driven) authorization equals ordinary authorization.
   Model: model/Batched.v (loader loop of is_authorized_batched; the partial evaluator is abstract).
   Lemmas: proofs/BatchedProofs.v.

   Hypotheses (trusted base of C15, each one names the code fact it stands for):
     reinterp_stable      Evaluator::interpret returns Residual::Concrete / Residual::Error unchanged
     loader_no_collision  the loader's answer never contains an id already in the partial store
                          (true of TestEntityLoader: exactly the requested ids, which were filtered)
     sound_class / sound_reinterp / good_*   residual soundness of TPE over partial stores obtained
                          from the full store through the loader (this is property C14)
   Open (not proved here): c15_progress (budget > number of distinct uids always decides); it is
   checked on the implementation by the oracle of vp/props/c15.py only. *)
From Coq Require Import List Bool ZArith String.
Import ListNotations.
From Cedar Require Import Base Sexp Syntax Authz Batched BatchedProofs.

Section C15.
  Variable U : Type.
  Variable U_eqb : U -> U -> bool.
  Variable D : Type.
  Variable empty_entity : U -> D.
  Variable residual : Type.
  Variable classify : residual -> rclass.
  Variable lits : residual -> list U.
  Variable reinterp : pstore U D -> residual -> residual.
  Variable rs0 : list (rpol residual).
  Variable l : loader U D.

  Notation batchedX := (batched U U_eqb D empty_entity residual classify lits reinterp rs0).

  Hypothesis reinterp_stable : forall st, stable residual classify (reinterp st).

  (* a decision obtained with budget n is obtained with every larger budget (unless the loader
     collides with the loaded set, which is excluded below) *)
  Theorem c15_monotone_weak : forall n k d,
    batchedX l n = BOk d -> batchedX l (n + k) = BOk d \/ batchedX l (n + k) = BErrDuplicate.
  Proof. apply monotone_weak; assumption. Qed.

  Hypothesis loader_no_collision :
    forall st rs, add_all U U_eqb D empty_entity st (l (to_load U U_eqb D residual lits st rs)) <> None.

  Theorem c15_monotone : forall n k d, batchedX l n = BOk d -> batchedX l (n + k) = BOk d.
  Proof. apply monotone; assumption. Qed.

  (* the only non-decision outcome is InsufficientIterations ... *)
  Theorem c15_insufficient : forall n, batchedX l n = BInsufficient \/ exists d, batchedX l n = BOk d.
  Proof. apply insufficient_only; assumption. Qed.

  (* ... and it is reported only when all n iterations were used (n loader calls were made) *)
  Theorem c15_insufficient_uses_budget : forall n,
    batchedX l n = BInsufficient ->
    length (snd (batched_full U U_eqb D empty_entity residual classify lits reinterp rs0 l n)) = n.
  Proof. apply insufficient_uses_budget; assumption. Qed.
End C15.

Print Assumptions c15_monotone_weak.
Print Assumptions c15_monotone.
Print Assumptions c15_insufficient.
Print Assumptions c15_insufficient_uses_budget.

Section C15Agree.
  Variable U : Type.
  Variable U_eqb : U -> U -> bool.
  Variable D : Type.
  Variable empty_entity : U -> D.
  Variable residual : Type.
  Variable classify : residual -> rclass.
  Variable lits : residual -> list U.
  Variable reinterp : pstore U D -> residual -> residual.
  Variable rs0 : list (rpol residual).
  Variable l : loader U D.
  Variable conc : residual -> rclass.
  Variable good : pstore U D -> Prop.
  Hypothesis good_nil : good [].
  Hypothesis good_add : forall st ids st', good st -> add_all U U_eqb D empty_entity st (l ids) = Some st' -> good st'.
  Hypothesis sound_class : forall r, classify r <> RPartial -> conc r = classify r.
  Hypothesis sound_reinterp : forall st r, good st -> conc (reinterp st r) = conc r.

  (* whenever the batched evaluation returns a decision it is the decision of the ordinary
     authorizer on the concrete outcomes of the policies — for EVERY budget.  `_partial`: residual
     soundness of the partial evaluator is a hypothesis (property C14), not proved here. *)
  Theorem c15_agree_partial : forall n d,
    batched U U_eqb D empty_entity residual classify lits reinterp rs0 l n = BOk d ->
    d = cdecide residual conc rs0.
  Proof.
    intros n d H. eapply agree; eauto.
  Qed.
End C15Agree.

Print Assumptions c15_agree_partial.

(* ---------------------------------------------------------------- the hypotheses are satisfiable:
   the pointer-chain instance of model/Batched.v *)
Example c15_chain_stable : forall st, stable cres c_classify (c_reinterp st).
Proof. intros st r H. destruct r; simpl in *; [reflexivity|congruence]. Qed.

(* store 1 -> 2 -> 3 (flag true); entity 4 does not exist; policies: permit when 1.next.next.flag,
   forbid when 4.next.flag (dangling reference: evaluation error, not satisfied) *)
Definition ex_store : list (Z * cdata) := [(1, (false, Some 2)); (2, (false, Some 3)); (3, (true, None))]%Z.
Definition ex_pols : list (effect * cres) := [(Permit, CChain 1%Z 2); (Forbid, CChain 4%Z 1)].

Example c15_chain_budgets :
  map (c_batched ex_pols ex_store) [0; 1; 2; 3; 4; 9]%nat
  = [BInsufficient; BInsufficient; BInsufficient; BOk Allow; BOk Allow; BOk Allow].
Proof. vm_compute. reflexivity. Qed.

(* every hop needs one more iteration: a chain of 5 hops decides with budget 6, not 5 *)
Example c15_chain_five_hops :
  let es := [(1, (false, Some 2)); (2, (false, Some 3)); (3, (false, Some 4)); (4, (false, Some 5));
             (5, (false, Some 6)); (6, (true, None))]%Z in
  (c_batched [(Permit, CChain 1%Z 5)] es 5, c_batched [(Permit, CChain 1%Z 5)] es 6) = (BInsufficient, BOk Allow).
Proof. vm_compute. reflexivity. Qed.

(* a missing principal is an empty entity: permit when 7.flag with 7 absent is decided Deny *)
Example c15_chain_missing : c_batched [(Permit, CChain 7%Z 0)] ex_store 1 = BOk Deny.
Proof. vm_compute. reflexivity. Qed.

(* REFUTATION of "a loader may return more than requested": a loader that answers the requested
   ids with the store's data and ALSO returns entity 3 every time (allowed by the EntityLoader
   documentation: "Loading more entities than requested is allowed") makes the loop fail with a
   Duplicate error in the second iteration — neither a decision nor InsufficientIterations.
   Replayed on the implementation by the *_any loader variants of vp/props/c15.py. *)
Theorem c15_extra_duplicate_refuted :
  exists (es : list (Z * cdata)) (rs : list (effect * cres)) (n : nat),
    let l := fun ids => (loader_of Z Z.eqb cdata es ids ++ [(3%Z, lookup Z Z.eqb cdata es 3%Z)])%list in
    batched Z Z.eqb cdata c_empty cres c_classify c_lits c_reinterp rs l n = BErrDuplicate /\
    batched Z Z.eqb cdata c_empty cres c_classify c_lits c_reinterp rs (loader_of Z Z.eqb cdata es) n = BOk Allow.
Proof. exists ex_store, ex_pols, 3%nat. vm_compute. split; reflexivity. Qed.

Print Assumptions c15_extra_duplicate_refuted.
