(* C02 — expression evaluation follows the Cedar language semantics.
   Property theorems only.  `eval sl q es` is the model evaluator (model/Eval.v), transcribed
   from evaluator.rs; these theorems are the language definition in readable form. *)
From Coq Require Import Permutation.
From Cedar Require Import Eval Like EvalProofs ValueProofs LikeProofs.

(* Short-circuiting: an error (or anything else) in a skipped operand never surfaces *)
Theorem c02_and_short_circuit :
  forall sl q es a b, eval sl q es a = Ok (VBool false) -> eval sl q es (And a b) = Ok (VBool false).
Proof. exact and_false_l. Qed.
Print Assumptions c02_and_short_circuit.

Theorem c02_or_short_circuit :
  forall sl q es a b, eval sl q es a = Ok (VBool true) -> eval sl q es (Or a b) = Ok (VBool true).
Proof. exact or_true_l. Qed.
Print Assumptions c02_or_short_circuit.

(* ... and a non-boolean or an error in an evaluated operand always does *)
Theorem c02_and_evaluated_operands :
  forall sl q es a b,
    (forall e, eval sl q es a = Err e -> eval sl q es (And a b) = Err e) /\
    (forall v, eval sl q es a = Ok v -> (forall x, v <> VBool x) -> eval sl q es (And a b) = Err ErrType) /\
    (eval sl q es a = Ok (VBool true) ->
     eval sl q es (And a b) = match eval sl q es b with
                              | Ok (VPrim (PBool y)) => Ok (VBool y)
                              | Ok _ => Err ErrType
                              | Err e => Err e
                              end).
Proof.
  intros sl q es a b; split; [|split].
  - intros e; exact (and_err_l sl q es a b e).
  - intros v; exact (and_nonbool_l sl q es a b v).
  - exact (and_true_l sl q es a b).
Qed.
Print Assumptions c02_and_evaluated_operands.

Theorem c02_or_evaluated_operands :
  forall sl q es a b,
    (forall e, eval sl q es a = Err e -> eval sl q es (Or a b) = Err e) /\
    (forall v, eval sl q es a = Ok v -> (forall x, v <> VBool x) -> eval sl q es (Or a b) = Err ErrType) /\
    (eval sl q es a = Ok (VBool false) ->
     eval sl q es (Or a b) = match eval sl q es b with
                             | Ok (VPrim (PBool y)) => Ok (VBool y)
                             | Ok _ => Err ErrType
                             | Err e => Err e
                             end).
Proof.
  intros sl q es a b; split; [|split].
  - intros e; exact (or_err_l sl q es a b e).
  - intros v; exact (or_nonbool_l sl q es a b v).
  - exact (or_false_l sl q es a b).
Qed.
Print Assumptions c02_or_evaluated_operands.

Theorem c02_if :
  forall sl q es c t f,
    (eval sl q es c = Ok (VBool true) -> eval sl q es (If c t f) = eval sl q es t) /\
    (eval sl q es c = Ok (VBool false) -> eval sl q es (If c t f) = eval sl q es f) /\
    (forall e, eval sl q es c = Err e -> eval sl q es (If c t f) = Err e) /\
    (forall v, eval sl q es c = Ok v -> (forall x, v <> VBool x) -> eval sl q es (If c t f) = Err ErrType).
Proof.
  intros sl q es c t f; repeat split.
  - exact (if_true sl q es c t f).
  - exact (if_false sl q es c t f).
  - intros e; exact (if_err sl q es c t f e).
  - intros v; exact (if_nonbool sl q es c t f v).
Qed.
Print Assumptions c02_if.

(* Binary operators evaluate left to right and are strict in both operands *)
Theorem c02_binary_left_to_right :
  forall sl q es op a b,
    (forall e, eval sl q es a = Err e -> eval sl q es (BinApp op a b) = Err e) /\
    (forall va e, eval sl q es a = Ok va -> eval sl q es b = Err e -> eval sl q es (BinApp op a b) = Err e).
Proof.
  intros sl q es op a b; split.
  - intros e; exact (binapp_err_l sl q es op a b e).
  - intros va e; exact (binapp_err_r sl q es op a b va e).
Qed.
Print Assumptions c02_binary_left_to_right.

(* == is total across all types *)
Theorem c02_eq_total :
  forall sl q es a b va vb,
    eval sl q es a = Ok va -> eval sl q es b = Ok vb ->
    eval sl q es (BinApp BEq a b) = Ok (VBool (value_eqb va vb)).
Proof. exact eq_total. Qed.
Print Assumptions c02_eq_total.

(* checked 64-bit arithmetic: the exact result, or an overflow error iff it is not representable *)
Theorem c02_arith_exact :
  forall sl q es op a b x y,
    (op = BAdd \/ op = BSub \/ op = BMul) ->
    eval sl q es a = Ok (VLong x) -> eval sl q es b = Ok (VLong y) ->
    eval sl q es (BinApp op a b) =
      if in_i64 (arith op x y) then Ok (VLong (arith op x y)) else Err ErrOverflow.
Proof. exact arith_exact. Qed.
Print Assumptions c02_arith_exact.

Theorem c02_neg_exact :
  forall sl q es a x,
    eval sl q es a = Ok (VLong x) ->
    eval sl q es (UnApp UNeg a) = if in_i64 (- x) then Ok (VLong (- x)) else Err ErrOverflow.
Proof. exact neg_exact. Qed.
Print Assumptions c02_neg_exact.

Theorem c02_arith_type_error :
  forall sl q es op a b va vb,
    (op = BAdd \/ op = BSub \/ op = BMul) ->
    eval sl q es a = Ok va -> eval sl q es b = Ok vb ->
    (forall x, va <> VLong x) \/ (forall y, vb <> VLong y) ->
    eval sl q es (BinApp op a b) = Err ErrType.
Proof. exact arith_type_error. Qed.
Print Assumptions c02_arith_type_error.

(* `in` is reflexive-transitive hierarchy membership, also against sets of entities *)
Theorem c02_in_entity :
  forall sl q es e f u a,
    eval sl q es e = Ok (VEntity u) -> eval sl q es f = Ok (VEntity a) ->
    eval sl q es (BinApp BIn e f) = Ok (VBool (member es u a)).
Proof. exact in_entity. Qed.
Print Assumptions c02_in_entity.

Theorem c02_in_entity_set :
  forall sl q es e f u us,
    eval sl q es e = Ok (VEntity u) -> eval sl q es f = Ok (VSet (map VEntity us)) ->
    eval sl q es (BinApp BIn e f) = Ok (VBool (existsb (member es u) us)).
Proof. exact in_entity_set. Qed.
Print Assumptions c02_in_entity_set.

Theorem c02_in_set_with_nonentity :
  forall sl q es e f u l,
    eval sl q es e = Ok (VEntity u) -> eval sl q es f = Ok (VSet l) ->
    (exists v, In v l /\ forall x, v <> VEntity x) ->
    eval sl q es (BinApp BIn e f) = Err ErrType.
Proof. exact in_set_nonentity. Qed.
Print Assumptions c02_in_set_with_nonentity.

(* has / attribute access: `has` is false for absent entities, access is an error *)
Theorem c02_has_absent_entity :
  forall sl q es e u a,
    eval sl q es e = Ok (VEntity u) -> find_entity u es = None ->
    eval sl q es (HasAttr e a) = Ok (VBool false) /\ eval sl q es (GetAttr e a) = Err ErrEntityMissing.
Proof. intros; split; [eapply has_absent_entity | eapply get_absent_entity]; eassumption. Qed.
Print Assumptions c02_has_absent_entity.

Theorem c02_has_iff_access_succeeds :
  forall sl q es e a,
    ((exists r, eval sl q es e = Ok (VRecord r)) \/ (exists u, eval sl q es e = Ok (VEntity u))) ->
    (eval sl q es (HasAttr e a) = Ok (VBool true) <-> exists v, eval sl q es (GetAttr e a) = Ok v).
Proof.
  intros sl q es e a [[r H]|[u H]]; [eapply has_iff_get_record | eapply has_iff_get_entity]; eassumption.
Qed.
Print Assumptions c02_has_iff_access_succeeds.

Theorem c02_is :
  forall sl q es e u t,
    eval sl q es e = Ok (VEntity u) -> eval sl q es (Is e t) = Ok (VBool (name_eqb (uty u) t)).
Proof. exact is_spec. Qed.
Print Assumptions c02_is.

(* `like`: wildcard matching over Unicode scalar values, `*` = any sequence *)
Theorem c02_like :
  forall sl q es e p s,
    eval sl q es e = Ok (VString s) ->
    exists b, eval sl q es (Like e p) = Ok (VBool b) /\ (b = true <-> Matches p s).
Proof.
  intros sl q es e p s H. exists (wildcard p s); split; [apply like_spec; assumption | apply wildcard_iff].
Qed.
Print Assumptions c02_like.

(* The implementation's matcher is a greedy two-pointer loop with a single backtrack point
   (Pattern::wildcard_match, transcribed as Like.wildcard_loop); it computes exactly the
   declarative matcher above, for every pattern and every string. *)
Theorem c02_like_loop :
  forall p s, wildcard_loop p s = wildcard p s.
Proof. exact wildcard_loop_correct. Qed.
Print Assumptions c02_like_loop.

(* == is an equivalence relation on values ... *)
Theorem c02_eq_equivalence :
  (forall v, value_eqb v v = true) /\
  (forall a b, value_eqb a b = true -> value_eqb b a = true) /\
  (forall a b c, value_eqb a b = true -> value_eqb b c = true -> value_eqb a c = true).
Proof. exact (conj value_eqb_refl (conj value_eqb_sym value_eqb_trans)). Qed.
Print Assumptions c02_eq_equivalence.

(* ... under which sets are duplicate-free and order-insensitive: two sets are == exactly when
   they have the same members; permuting or duplicating elements is unobservable *)
Theorem c02_set_eq_same_members :
  forall xs ys, value_eqb (VSet xs) (VSet ys) = true <-> forall v, set_mem v xs = set_mem v ys.
Proof. exact set_eq_iff_same_members. Qed.
Print Assumptions c02_set_eq_same_members.

Theorem c02_set_order_insensitive :
  forall xs ys, Permutation xs ys -> value_eqb (VSet xs) (VSet ys) = true.
Proof. exact set_order_insensitive. Qed.
Print Assumptions c02_set_order_insensitive.

Theorem c02_set_duplicate_insensitive :
  forall x xs, value_eqb (VSet (x :: x :: xs)) (VSet (x :: xs)) = true.
Proof. exact set_duplicate_insensitive. Qed.
Print Assumptions c02_set_duplicate_insensitive.

(* contains / containsAll / containsAny / isEmpty = membership / inclusion / overlap / emptiness *)
Theorem c02_set_operations :
  forall sl q es a b s t v,
    eval sl q es a = Ok (VSet s) ->
    (eval sl q es b = Ok v -> eval sl q es (BinApp BContains a b) = Ok (VBool (set_mem v s))) /\
    (eval sl q es b = Ok (VSet t) ->
       exists r, eval sl q es (BinApp BContainsAll a b) = Ok (VBool r) /\
                 (r = true <-> forall x, set_mem x t = true -> set_mem x s = true)) /\
    (eval sl q es b = Ok (VSet t) ->
       exists r, eval sl q es (BinApp BContainsAny a b) = Ok (VBool r) /\
                 (r = true <-> exists x, set_mem x s = true /\ set_mem x t = true)) /\
    eval sl q es (UnApp UIsEmpty a) = Ok (VBool (match s with [] => true | _ => false end)).
Proof.
  intros sl q es a b s t v Ha; repeat split.
  - intros Hb; cbn; rewrite Ha, Hb; reflexivity.
  - intros Hb; exists (set_subset t s); split; [cbn; rewrite Ha, Hb; reflexivity | apply set_subset_spec].
  - intros Hb; exists (negb (set_disjoint s t)); split; [cbn; rewrite Ha, Hb; reflexivity|].
    rewrite Bool.negb_true_iff. apply set_disjoint_spec.
  - cbn; rewrite Ha; reflexivity.
Qed.
Print Assumptions c02_set_operations.

(* set-valued operations cannot distinguish == sets *)
Theorem c02_set_mem_respects_eq :
  forall v v' xs ys,
    value_eqb v v' = true -> value_eqb (VSet xs) (VSet ys) = true -> set_mem v xs = set_mem v' ys.
Proof.
  intros v v' xs ys H1 H2. rewrite (set_mem_respects v v' xs H1). apply set_mem_respects_set; assumption.
Qed.
Print Assumptions c02_set_mem_respects_eq.

(* Non-vacuity examples *)
Example c02_example_short_circuit :
  let u := mkUid [[65%N]] [97%N] in
  eval [] (mkRequest u u u []) []
    (And (Lit (PBool false)) (BinApp BAdd (Lit (PLong 1)) (Lit (PString [])))) = Ok (VBool false).
Proof. reflexivity. Qed.
Example c02_example_overflow :
  let u := mkUid [[65%N]] [97%N] in
  eval [] (mkRequest u u u []) [] (BinApp BAdd (Lit (PLong i64_max)) (Lit (PLong 1))) = Err ErrOverflow.
Proof. reflexivity. Qed.
Example c02_example_like : Matches [PChar 97%N; PStar; PChar 98%N] [97%N; 120%N; 121%N; 98%N].
Proof. apply wildcard_iff; reflexivity. Qed.
Example c02_example_sets :
  value_eqb (VSet [VLong 1; VLong 2; VLong 1]) (VSet [VLong 2; VLong 1]) = true /\
  value_eqb (VSet [VLong 1]) (VSet [VLong 1; VLong 3]) = false.
Proof. split; reflexivity. Qed.
Example c02_example_like_loop :
  wildcard_loop [PChar 97%N; PStar; PChar 98%N; PStar] [97%N; 98%N; 120%N; 98%N; 99%N] = true /\
  wildcard_loop [PStar; PChar 97%N] [97%N; 98%N] = false.
Proof. split; reflexivity. Qed.
