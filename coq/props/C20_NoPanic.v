(* C20 — no panics: the proof part.
   Gallina functions are total, so "the model does not panic" would be vacuous.  model/NoPanic.v therefore
   transcribes, at INDEX level, Rust functions whose panic freedom rests on an invariant asserted only in prose
   (`#[expect(clippy::indexing_slicing, reason = "...")]`), and makes every panicking primitive explicit: a slice
   index, an unsigned subtraction (overflow checks are on in this workspace's release profile) and a plain shift
   yield `Panic site` exactly where the Rust operation panics.  The theorems below say that NO input reaches a
   Panic outcome (and, where a proven functional model exists, that the checked code computes it).
   The transfer to /repo is the correspondence of the C20 check: the same definitions are run (extracted, and by
   vm_compute on a sample) against fuzzy_match::fuzzy_search_limited, Pattern::wildcard_match, ip(..).isInRange(..)
   and the display of JSON policies on generated inputs; a panic of the implementation where the model returns a
   value is a VIOLATION with the input as replay.

   This is a PARTIAL treatment of C20 by nature: the sites below are 4 of the ~300 `#[expect(clippy::...)]`
   escapes; everything else of C20 is runtime exploration and is labelled as such in the evidence.

     c20_levenshtein_no_panic      fuzzy_match.rs levenshtein_distance: every matrix[j][i], w1[i-1], w2[j-1] in bounds
     c20_levenshtein_refines       ... and the matrix loops compute the Wagner-Fischer recurrence lev_rec
     c20_fuzzy_search_no_panic     fuzzy_search_limited (any key, candidate list, threshold) returns
     c20_fuzzy_search_candidate    ... and a suggestion is one of the candidates (or the fold's initial "")
     c20_fuzzy_fold_minimal        ... at minimal distance among all candidates
     c20_wildcard_no_panic         Pattern::wildcard_match: pattern[j], text[i], pattern_len - 1 never panic
     c20_wildcard_refines          ... and the index-level loop computes the declarative matcher `wildcard` of C02
     c20_ip_in_range_no_panic      IPAddr::is_in_range on parsed addresses: PREFIX_MAX_LEN - prefix cannot underflow,
                                   and the checked code computes C07's ip_is_in_range
     c20_contains_two_no_panic     ipaddr.rs contains_at_least_two, byte level: the slice offset is a char boundary for every string
     c20_ip_strings_no_panic       ip(s1).isInRange(ip(s2)) from strings: no panic site on the way is reached
     c20_ip_prefix_bound           the parser establishes prefix <= width (the invariant the subtraction relies on)
     c20_ip_prefix_needed          ... and without it the subtraction would panic (the invariant is not vacuous)
     c20_display_extn_no_panic     est display of {"__extn":{"fn","args"}}: no panic for any function and arity
     c20_policyset_core_no_panic / c20_policyset_history_no_panic   the panic!() sites of PolicySet::{link, unlink,
                                   remove_template} (outcome EPanic of model/PolicySet.v, tied to the code by C08's check)
                                   are unreachable under C08's invariant, hence along every API history
     c20_display_extn_old_refuted  the code before fix 3dd4acc panicked exactly on a method-style call with no
                                   arguments (finding F-b), and the repaired code agrees with it elsewhere        *)
From Coq Require Import List ZArith NArith Bool String.
Import ListNotations.
From Cedar Require Import NoPanic NoPanicUtf8 NoPanicProofs NoPanicUtf8Proofs NoPanicLike NoPanicLev PolicySet PolicySetWF NoPanicPolicySet.

Theorem c20_levenshtein_no_panic : forall w1 w2 : str, exists n, levenshtein w1 w2 = POk n.
Proof. exact levenshtein_no_panic. Qed.
Print Assumptions c20_levenshtein_no_panic.

(* ... and the three loops over the matrix compute the Wagner-Fischer recurrence lev_rec (distance between the first i chars
   of w1 and the first j chars of w2, by recursion on j and i): a refinement of the imperative code to the textbook
   definition, for all words *)
Theorem c20_levenshtein_refines : forall w1 w2 : str,
  levenshtein w1 w2 = POk (lev_rec w1 w2 (List.length w2) (List.length w1)).
Proof. exact levenshtein_refines. Qed.
Print Assumptions c20_levenshtein_refines.

(* sanity of that specification through the code: distance 0 to itself, |w| to the empty word *)
Theorem c20_levenshtein_self : forall w : str,
  levenshtein w w = POk 0%N /\ levenshtein w [] = POk (N.of_nat (List.length w)).
Proof. exact (fun w => conj (levenshtein_self w) (levenshtein_empty_r w)). Qed.
Print Assumptions c20_levenshtein_self.

Theorem c20_fuzzy_search_no_panic : forall (key : str) (lst : list str) (maxd : option N),
  exists o, fuzzy_search_limited key lst maxd = POk o.
Proof. exact fuzzy_search_no_panic. Qed.
Print Assumptions c20_fuzzy_search_no_panic.

Theorem c20_fuzzy_search_candidate : forall (key : str) (lst : list str) (maxd : option N) (w : str),
  fuzzy_search_limited key lst maxd = POk (Some w) -> In w lst \/ w = [].
Proof. exact fuzzy_search_candidate. Qed.
Print Assumptions c20_fuzzy_search_candidate.

(* ... at minimal distance among all candidates (functional specification of the fold in fuzzy_search_limited) *)
Theorem c20_fuzzy_fold_minimal : forall (key : str) (lst : list str) (acc t : N * str),
  fuzzy_fold key lst acc = POk t ->
  (forall w', In w' lst -> exists d', levenshtein key w' = POk d' /\ (fst t <= d')%N) /\
  (fst t <= fst acc)%N /\
  (t = acc \/ (In (snd t) lst /\ levenshtein key (snd t) = POk (fst t))).
Proof. exact fuzzy_fold_minimal. Qed.
Print Assumptions c20_fuzzy_fold_minimal.

Theorem c20_wildcard_no_panic : forall (pat : pattern) (text : str), exists o, wildcard_indexed pat text = POk o.
Proof. exact wildcard_indexed_no_panic. Qed.
Print Assumptions c20_wildcard_no_panic.

(* ... and it computes the declarative matcher of C02 (`wildcard p s = true <-> Matches p s`, c02_like): the
   usize-index code (i, j, star_idx, tmp_idx) refines the suffix-level loop of Like.v step by step, never
   exhausting the fuel derived from LikeProofs' termination measure *)
Theorem c20_wildcard_refines : forall (pat : pattern) (text : str),
  wildcard_indexed pat text = POk (Some (wildcard pat text)).
Proof. exact wildcard_indexed_refines. Qed.
Print Assumptions c20_wildcard_refines.

Theorem c20_ip_in_range_no_panic : forall s1 s2 : str,
  ip_in_range_strs s1 s2 =
  POk (match ip_parse s1, ip_parse s2 with Some a, Some b => Some (ip_is_in_range a b) | _, _ => None end).
Proof. exact ip_in_range_strs_no_panic. Qed.
Print Assumptions c20_ip_in_range_no_panic.

(* extensions/ipaddr.rs contains_at_least_two at BYTE level (`s.get(i + c.len_utf8()..).unwrap()`): `i + len_utf8(c)` is a
   char boundary inside the string for EVERY string and char (the source has a Kani proof for length <= 6 only), and the
   byte-level code computes the char-level model that C07's ip parser uses *)
Theorem c20_contains_two_no_panic : forall (s : str) (c : N),
  contains_at_least_two_checked s c = POk (contains_at_least_two s c).
Proof. exact contains_at_least_two_checked_ok. Qed.
Print Assumptions c20_contains_two_no_panic.

(* ip(s1).isInRange(ip(s2)) from the two STRINGS with every panic site on the way explicit (byte-level slicing in the
   parser, the prefix subtraction in is_in_range): never a panic, and the value is C07's *)
Theorem c20_ip_strings_no_panic : forall s1 s2 : str,
  ip_in_range_strs_checked s1 s2 =
  POk (match ip_parse s1, ip_parse s2 with Some a, Some b => Some (ip_is_in_range a b) | _, _ => None end).
Proof. exact ip_in_range_strs_checked_ok. Qed.
Print Assumptions c20_ip_strings_no_panic.

Theorem c20_ip_prefix_bound : forall (s : str) (a : ipaddr),
  ip_parse s = Some a -> (ip_prefix a <= ip_width (ip_v6 a))%N.
Proof. exact ip_parse_prefix_bound. Qed.
Print Assumptions c20_ip_prefix_bound.

Theorem c20_ip_prefix_needed : forall (v6 : bool) (p : N),
  (ip_width v6 < p)%N -> no_panic (netmask_checked v6 p) = false.
Proof. exact netmask_checked_panics. Qed.
Print Assumptions c20_ip_prefix_needed.

Theorem c20_display_extn_no_panic : forall (fn : str) (args : list str), exists s, display_extn_multi fn args = POk s.
Proof. exact display_extn_multi_no_panic. Qed.
Print Assumptions c20_display_extn_no_panic.

Theorem c20_display_extn_old_refuted :
  (forall (ms : bool) (args : list str),
     no_panic (extn_multi_layout_old ms args) = false <-> ms = true /\ args = []) /\
  (forall (ms : bool) (args : list str) l,
     extn_multi_layout_old ms args = POk l -> extn_multi_layout ms args = POk l).
Proof. exact (conj extn_layout_old_panics_iff extn_layout_agrees_with_old). Qed.
Print Assumptions c20_display_extn_old_refuted.

(* The panic!() sites of the policy-set bookkeeping ("template_to_links_map missing a template key", "policy id exists in
   asts but not ests", ...), modelled in model/PolicySet.v as the outcome `OErr EPanic`:
   unreachable under C08's well-formedness invariant ... *)
Theorem c20_policyset_core_no_panic : forall s i, WF s ->
  ps_unlink s i <> OErr EPanic /\ ps_remove_template s i <> OErr EPanic.
Proof. exact (fun s i W => conj (ps_unlink_no_panic s i W) (ps_remove_template_no_panic s i W)). Qed.
Print Assumptions c20_policyset_core_no_panic.

(* ... hence at every step of every (merge-free) history of cedar_policy::PolicySet operations from the empty set.
   (Without the invariant the site IS reachable: c08_wf_refuted_without_it / finding C08:link-to-static-policy-body.) *)
Theorem c20_policyset_history_no_panic : forall pre o,
  Forall no_merge pre -> no_merge o ->
  fst (snd (api_step (run_ops api_step pre empty_h) o)) <> OErr EPanic.
Proof. exact api_history_no_panic. Qed.
Print Assumptions c20_policyset_history_no_panic.

(* non-vacuity: concrete runs through every site *)
Example c20_examples :
  levenshtein (s2str "kitten") (s2str "sitting") = POk 3%N /\
  fuzzy_search_limited (s2str "princpal") [s2str "prince"; s2str "principal"] None = POk (Some (s2str "principal")) /\
  wildcard_indexed [PChar 97; PStar; PChar 98] (s2str "axxb") = POk (Some true) /\
  ip_in_range_strs (s2str "10.1.2.3") (s2str "0.0.0.0/0") = POk (Some true) /\
  display_extn_multi (s2str "isIpv4") [] = POk (s2str "isIpv4()") /\
  extn_multi_layout_old true (@nil str) = Panic "display_cedarvaluejson: args[0]"%string.
Proof. vm_compute. repeat split. Qed.
