(* C03 — strict validation is sound (and not vacuous): property theorems on the model.

   Proved, for BOTH validation modes, every well-formed schema, request environment, request and store:
     c03_sound_partial        tc accepts e (in_fragment e), the request is one of the environment, every entity of
                              the store conforms to the schema (EntityConforms of Conform.v, = the boolean checker
                              conf_entity by c11_entity: c03_store_ok_from_checker), the prior capabilities hold
                              =>  eval e is a permitted error (missing entity / overflow / extension) or a value
                              inhabiting the assigned type (TypeConforms), a `true` result justifies the output
                              capabilities, and the capabilities of a True-typed expression hold unconditionally
     c03_impossible_partial   an expression typed False never evaluates to true
     c03_policy_sound_partial an accepted condition (Success / Irrelevant) evaluates to a boolean or a permitted error
     c03_strict_in_permissive_partial   strict-accepted => permissive-accepted with the same type and capabilities
   "partial" = the syntactic fragment TypecheckMain.in_fragment:
     literals, variables, && and || with full capability flow (union / intersection, short-circuit singleton
     typing), !, ==, if-then-else with singleton short-circuit typing and capability flow (branches: any boolean-rooted form of the fragment),
     `has` and `.` on access paths (variable followed by attribute selections) over records AND entities:
     required / optional attributes, optional ones behind capabilities, nested records, entity-typed attributes,
     open / closed types, absent entities; integer arithmetic (+, -, *, unary -: value or overflow); < and <=
     (longs, datetime, duration); like; is; isEmpty, contains, containsAll, containsAny.
   Not in the fragment (see notes/C03.md): attribute access on non-path expressions, non-boolean `if` branches,
   tags, in, extension calls, set and record literals. *)
From Cedar Require Import Typecheck ConformProofs ExprEq TypecheckProofs TypecheckProofs2 TypecheckProofs3 TypecheckProofs4 TypecheckIf TypecheckMain TypecheckModes TypecheckSimple TypecheckSub.

Theorem c03_sound_partial :
  forall m sch env q es,
  schema_wf sch = true -> (forall t, is_action_type t = true -> find_etype sch t = None) ->
  decl_ty_ok (re_context env) = true -> env_ok env q -> store_ok sch es ->
  forall e, in_fragment e = true ->
  forall cs t cs', caps_hold q es cs -> tc m sch env cs e = Some (t, cs') -> sound_result q es e t cs'.
Proof. exact tc_sound. Qed.
Print Assumptions c03_sound_partial.

Theorem c03_impossible_partial :
  forall m sch env q es,
  schema_wf sch = true -> (forall t, is_action_type t = true -> find_etype sch t = None) ->
  decl_ty_ok (re_context env) = true -> env_ok env q -> store_ok sch es ->
  forall e cs cs', in_fragment e = true -> caps_hold q es cs ->
  tc m sch env cs e = Some (TBool BFalse, cs') -> eval [] q es e <> Ok (VBool true).
Proof. exact tc_impossible. Qed.
Print Assumptions c03_impossible_partial.

Theorem c03_policy_sound_partial :
  forall m sch env q es,
  schema_wf sch = true -> (forall t, is_action_type t = true -> find_etype sch t = None) ->
  decl_ty_ok (re_context env) = true -> env_ok env q -> store_ok sch es ->
  forall e t, in_fragment e = true ->
  tc_env m sch env e = EnvSuccess t \/ tc_env m sch env e = EnvIrrelevant ->
  (exists c, eval [] q es e = Err c /\ allowed_err c) \/ (exists b, eval [] q es e = Ok (VBool b)).
Proof. exact tc_env_sound. Qed.
Print Assumptions c03_policy_sound_partial.

(* both modes are one function: on the proved fragment everything strict typechecking accepts is accepted by
   permissive typechecking, with the same type and the same capabilities.  "partial" = in_fragment. *)
Theorem c03_strict_in_permissive_partial :
  forall sch env e, in_fragment e = true ->
  forall cs r, tc Strict sch env cs e = Some r -> tc Permissive sch env cs e = Some r.
Proof. exact strict_in_permissive_fragment. Qed.
Print Assumptions c03_strict_in_permissive_partial.

(* non-vacuity: the declarative judgement `Simple` (TypecheckSimple.v: declared accesses, == / < at equal scalar
   types, has, !, ||, and the documented guard idioms `e has a && ..`, `if e has a then .. else ..`, nested
   `e has a && e.a has b && ..`; it does not mention tc) implies acceptance by STRICT typechecking *)
Theorem c03_accepts_guarded :
  forall sch env cs e, Simple sch env cs e -> exists x c, tc Strict sch env cs e = Some (TBool x, c).
Proof. exact simple_accepted. Qed.
Print Assumptions c03_accepts_guarded.

(* the subtype relation of types.rs is sound over ALL types (nested records, sets, entity LUBs, singleton
   booleans), in both modes: a value of a type inhabits every well-formed (duplicate-free record keys) supertype.
   (First half of the lub/subtype soundness needed for `if` with arbitrary branches; the upper-bound property of
   `lub` on its structural record branch is not proved yet.) *)
Theorem c03_subty_sound :
  forall a m b v, wf_ty b = true -> subty m a b = true -> TypeConforms v a -> TypeConforms v b.
Proof. exact subty_sound. Qed.
Print Assumptions c03_subty_sound.

(* the store hypothesis is what the implementation-side checker (model: Conform.conf_entity) establishes *)
Theorem c03_store_ok_from_checker :
  forall sch es, schema_wf sch = true ->
  (forall u d, find_entity u es = Some d -> conf_entity sch (u, d) = None) -> store_ok sch es.
Proof. intros sch es Hwf H u d Hf. apply (conf_entity_iff sch (u, d) Hwf). apply H. exact Hf. Qed.
Print Assumptions c03_store_ok_from_checker.

(* ---- non-vacuity: the hypotheses are satisfiable, the guarded idioms are accepted, their unguarded,
   wrong-side-of-|| and after-! variants are rejected (strict mode) *)
Definition ex_user : etype := [s2str "User"].
Definition ex_sch : schema :=
  mkSchema [(ex_user, mkEtypeInfo [(s2str "o", (TLong, false)); (s2str "r", (TLong, true))] false None [] None)] [].
Definition ex_ctx : ty := TRecord [(s2str "n", (TLong, true)); (s2str "o", (TLong, false))] false.
Definition ex_env : reqenv := mkReqEnv ex_user (mkUid [s2str "Action"] (s2str "view")) ex_user ex_ctx None None.
Definition ex_has := HasAttr (Var Context) (s2str "o").
Definition ex_use := BinApp BEq (GetAttr (Var Context) (s2str "o")) (GetAttr (Var Context) (s2str "n")).
Definition ex_phas := HasAttr (Var Principal) (s2str "o").
Definition ex_puse := BinApp BEq (GetAttr (Var Principal) (s2str "o")) (GetAttr (Var Principal) (s2str "r")).

Example c03_accepts_guarded_example :
  in_fragment (And ex_has ex_use) = true /\
  tc Strict ex_sch ex_env [] (And ex_has ex_use) = Some (TBool BAny, [cap_attr (Var Context) (s2str "o")]) /\
  in_fragment (If ex_phas ex_puse (Lit (PBool false))) = true /\
  tc Strict ex_sch ex_env [] (If ex_phas ex_puse (Lit (PBool false))) = Some (TBool BAny, []) /\
  tc Strict ex_sch ex_env [] (And ex_phas ex_puse) = Some (TBool BAny, [cap_attr (Var Principal) (s2str "o")]).
Proof. repeat split; vm_compute; reflexivity. Qed.

Example c03_simple_example :
  Simple ex_sch ex_env [] (And ex_phas ex_puse) /\
  Simple ex_sch ex_env [] (If ex_has ex_use (Lit (PBool false))).
Proof.
  split.
  - eapply S_guard_and with (tp := ty_entity ex_user) (t := TLong) (req := false);
      [apply A_var; reflexivity|vm_compute; reflexivity|vm_compute; reflexivity|].
    eapply S_eq with (t := TLong); [| |reflexivity].
    + eapply A_attr with (tp := ty_entity ex_user) (req := false);
        [apply A_var; reflexivity|vm_compute; reflexivity|vm_compute; reflexivity|right; vm_compute; reflexivity].
    + eapply A_attr with (tp := ty_entity ex_user) (req := true);
        [apply A_var; reflexivity|vm_compute; reflexivity|vm_compute; reflexivity|left; reflexivity].
  - eapply S_guard_if with (tp := ex_ctx) (t := TLong) (req := false);
      [apply A_var; reflexivity|vm_compute; reflexivity|vm_compute; reflexivity| |apply S_bool].
    eapply S_eq with (t := TLong); [| |reflexivity].
    + eapply A_attr with (tp := ex_ctx) (req := false);
        [apply A_var; reflexivity|vm_compute; reflexivity|vm_compute; reflexivity|right; vm_compute; reflexivity].
    + eapply A_attr with (tp := ex_ctx) (req := true);
        [apply A_var; reflexivity|vm_compute; reflexivity|vm_compute; reflexivity|left; reflexivity].
Qed.

Example c03_rejects_unguarded_example :
  tc Strict ex_sch ex_env [] ex_use = None /\ tc Strict ex_sch ex_env [] (Or ex_has ex_use) = None /\
  tc Strict ex_sch ex_env [] (And (UnApp UNot ex_has) ex_use) = None /\
  tc Strict ex_sch ex_env [] ex_puse = None /\
  tc Strict ex_sch ex_env [] (If ex_phas (Lit (PBool true)) ex_puse) = None.
Proof. repeat split; vm_compute; reflexivity. Qed.

Definition ex_q : request :=
  mkRequest (mkUid ex_user (s2str "a")) (mkUid [s2str "Action"] (s2str "view")) (mkUid ex_user (s2str "d"))
            [(s2str "n", VLong 1)].
Example c03_hypotheses_satisfiable :
  schema_wf ex_sch = true /\ (forall t, is_action_type t = true -> find_etype ex_sch t = None) /\
  decl_ty_ok (re_context ex_env) = true /\ env_ok ex_env ex_q /\ store_ok ex_sch [] /\ caps_hold ex_q [] [].
Proof.
  split; [vm_compute; reflexivity|]. split.
  { intros t Ht. unfold find_etype, ex_sch. cbn [s_etypes find_etype_in].
    destruct (name_eqb t ex_user) eqn:E; [|reflexivity].
    apply name_eqb_eq in E. subst t. vm_compute in Ht. discriminate Ht. }
  split; [vm_compute; reflexivity|]. split.
  { constructor; try reflexivity. apply TC_record.
    - intros k t [H|[H|[]]]; inversion H; subst; reflexivity.
    - intros k v [H|[]] t r Hl; inversion H; subst. vm_compute in Hl. inversion Hl; subst. constructor.
    - intros _ k v [H|[]]; inversion H; subst; reflexivity. }
  split; [intros u d H; discriminate H|apply caps_hold_nil].
Qed.
