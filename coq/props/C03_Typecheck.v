(* C03 — strict validation is sound (and not vacuous): property theorems on the model.

   Proved (all for BOTH validation modes, every schema, request environment, request, store):
     c03_sound_partial        tc accepts e (in_fragment), the request is one of the environment, the prior
                              capabilities hold  =>  eval e is a permitted error (missing entity / overflow /
                              extension) or a value inhabiting the assigned type (TypeConforms of Conform.v), and a
                              `true` result justifies the output capabilities
     c03_impossible_partial   an expression typed False never evaluates to true
     c03_policy_sound_partial an accepted condition (Success / Irrelevant) evaluates to a boolean or a permitted error
   "partial" = the syntactic fragment TypecheckProofs.in_fragment: literals, variables, &&, || (right operand
   without capabilities), !, ==, and `has` / `.` on the context record with capability tracking (the documented
   `context has a && context.a ...` idiom, required and optional attributes, closed records).
   NOT proved (stated in notes/C03.md, compared with the implementation by the correspondence and searched by
   the oracle): if-then-else, attribute access on entities and nested paths, tags, in / is / like / contains*,
   arithmetic and comparisons, extension calls, set and record literals, c03_strict_in_permissive and the
   general non-vacuity judgement c03_accepts_guarded (only the Examples below). *)
From Cedar Require Import Typecheck TypecheckProofs.

Theorem c03_sound_partial :
  forall m sch env q es, env_ok env q ->
  forall e, in_fragment e = true ->
  forall cs t cs', caps_hold q es cs -> tc m sch env cs e = Some (t, cs') -> sound_result q es e t cs'.
Proof. exact tc_sound. Qed.
Print Assumptions c03_sound_partial.

Theorem c03_impossible_partial :
  forall m sch env q es e cs cs', env_ok env q -> in_fragment e = true -> caps_hold q es cs ->
  tc m sch env cs e = Some (TBool BFalse, cs') -> eval [] q es e <> Ok (VBool true).
Proof. exact tc_impossible. Qed.
Print Assumptions c03_impossible_partial.

Theorem c03_policy_sound_partial :
  forall m sch env q es e t, env_ok env q -> in_fragment e = true ->
  tc_env m sch env e = EnvSuccess t \/ tc_env m sch env e = EnvIrrelevant ->
  (exists c, eval [] q es e = Err c /\ allowed_err c) \/ (exists b, eval [] q es e = Ok (VBool b)).
Proof. exact tc_env_sound. Qed.
Print Assumptions c03_policy_sound_partial.

(* ---- non-vacuity: the hypotheses are satisfiable, the guarded idiom is accepted, its unguarded and
   wrong-side-of-|| variants are rejected (strict mode) *)
Definition ex_sch : schema := mkSchema [] [].
Definition ex_ctx : ty := TRecord [(s2str "n", (TLong, true)); (s2str "o", (TLong, false))] false.
Definition ex_env : reqenv := mkReqEnv [s2str "User"] (mkUid [s2str "Action"] (s2str "view")) [s2str "Doc"] ex_ctx None None.
Definition ex_has := HasAttr (Var Context) (s2str "o").
Definition ex_use := BinApp BEq (GetAttr (Var Context) (s2str "o")) (GetAttr (Var Context) (s2str "n")).

Example c03_accepts_guarded_example :
  in_fragment (And ex_has ex_use) = true /\
  tc Strict ex_sch ex_env [] (And ex_has ex_use) = Some (TBool BAny, [cap_attr (Var Context) (s2str "o")]).
Proof. split; vm_compute; reflexivity. Qed.

Example c03_rejects_unguarded_example :
  tc Strict ex_sch ex_env [] ex_use = None /\ tc Strict ex_sch ex_env [] (Or ex_has ex_use) = None /\
  tc Strict ex_sch ex_env [] (And (UnApp UNot ex_has) ex_use) = None.
Proof. repeat split; vm_compute; reflexivity. Qed.

Definition ex_q : request :=
  mkRequest (mkUid [s2str "User"] (s2str "a")) (mkUid [s2str "Action"] (s2str "view")) (mkUid [s2str "Doc"] (s2str "d"))
            [(s2str "n", VLong 1)].
Example c03_hypotheses_satisfiable : env_ok ex_env ex_q /\ caps_hold ex_q [] [].
Proof.
  split; [|apply caps_hold_nil]. constructor; try reflexivity.
  apply TC_record.
  - intros k t [H|[H|[]]]; inversion H; subst; reflexivity.
  - intros k v [H|[]] t r Hl; inversion H; subst. vm_compute in Hl. inversion Hl; subst. constructor.
  - intros _ k v [H|[]]; inversion H; subst; reflexivity.
Qed.
