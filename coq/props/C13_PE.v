(* C13 — partial evaluation with unknowns is sound.  Property theorems only.

   Model: coq/model/PE.v (peval, PartialResponse views, reauthorize), transcribed from
   evaluator.rs / authorizer/partial_response.rs and run against the implementation by ./check C13.

   Reading guide (all definitions are Printed below the theorems that use them):
   * sg is the substitution sigma; (q, es) is a sg-COMPLETION of the partial request / store
     (pq, pes): stated relationally — every request variable's partial value is sound
     (`forall sl v, sound_pres sg sl q es (peval_var pq v) (Var v)`) and every stored entity has
     the same tags / ancestors and attribute-wise completed attributes (`store_complete`).
   * wt_expr sg e: every unknown of e is mapped by sg to a value of its declared type
     (the WELL-TYPED substitutions of the property text).
   * agree a b: equal values, or BOTH errors — the error class may differ.
   * Outside the model, visible in the statements: POut / SOut (an extension VALUE had to be
     converted back into an expression) and partial entity stores (Entities::partial) — covered by
     the implementation-level oracle of ./check C13 only. *)
From Coq Require Import String.
From Cedar Require Import Authz PE PEProofs PESound PEReauth.
Open Scope string_scope.

(* ---- c13_peval_sound: for EVERY expression of the language (structural induction, one lemma
   per peval arm in proofs/PESound.v) ----
     peval e = PV v   ->  eval (sg e) = Ok v
     peval e = PR r   ->  agree (eval (sg r)) (eval (sg e))  /\  r is again well-typed for sg
     peval e = PErr _ ->  eval (sg e) is an error
   also for an evaluator that already carries a mapper mu ⊆ sg (as reauthorize does). *)
Theorem c13_peval_sound :
  forall (sg mu : mapper) (sl : slotenv) (pq : prequest) (pes : pentities) (q : request) (es : entities),
    (forall (n : str) (v : value), mu n = Some v -> sg n = Some v) ->
    (forall v : var, sound_pres sg sl q es (peval_var pq v) (Var v)) ->
    store_complete sg sl pes q es ->
    forall e : expr,
      wt_expr sg e = true ->
      sound_pres sg sl q es (peval mu sl pq pes e) e.
Proof. exact peval_sound. Qed.
Print Assumptions c13_peval_sound.
Print sound_pres.
Print sound_res.
Print agree.
Print store_complete.
Print attr_complete.

(* the status recorded for a policy is sound for the concrete outcome of (sg policy) *)
Theorem c13_policy_status_sound :
  forall (sg mu : mapper) pq pes q es p,
    (forall n v, mu n = Some v -> sg n = Some v) ->
    (forall sl v, sound_pres sg sl q es (peval_var pq v) (Var v)) ->
    (forall sl, store_complete sg sl pes q es) ->
    wt_expr sg (pcondition p) = true ->
    peval_policy mu (penv p) pq pes p <> SOut ->
    status_sound (peval_policy mu (penv p) pq pes p) (eval_policy_subst sg q es p).
Proof. exact policy_status_sound. Qed.
Print Assumptions c13_policy_status_sound.
Print status_sound.
Print eval_policy_subst.

(* ---- the PartialResponse views, for the partial response of ANY policy list ---- *)
Print completion.

(* a definite partial decision is the decision for every completion *)
Theorem c13_decision :
  forall sg pq pes q es ps d,
    completion sg pq pes q es ps ->
    pdecision (pitems (is_authorized_partial ps pq pes)) = Some d ->
    rdecision (authorize_with (eval_policy_subst sg q es) ps) = d.
Proof. exact decision_final. Qed.
Print Assumptions c13_decision.

(* must_be_determining ⊆ actual determining policies ⊆ may_be_determining *)
Theorem c13_determining :
  forall sg pq pes q es ps i,
    completion sg pq pes q es ps ->
    (In i (must_be_determining (pitems (is_authorized_partial ps pq pes))) ->
     In i (rreasons (authorize_with (eval_policy_subst sg q es) ps))) /\
    (In i (rreasons (authorize_with (eval_policy_subst sg q es) ps)) ->
     In i (may_be_determining (pitems (is_authorized_partial ps pq pes)))).
Proof. exact determining_final. Qed.
Print Assumptions c13_determining.

(* definitely satisfied / errored / trivially false policies behave so under the substitution *)
Theorem c13_definitely :
  forall sg pq pes q es ps i,
    completion sg pq pes q es ps ->
    (In i (definitely_satisfied (pitems (is_authorized_partial ps pq pes))) ->
     exists p, In p ps /\ pid p = i /\ eval_policy_subst sg q es p = Ok true) /\
    (In i (definitely_errored (pitems (is_authorized_partial ps pq pes))) ->
     exists p e, In p ps /\ pid p = i /\ eval_policy_subst sg q es p = Err e) /\
    (In i (trivially_false (pitems (is_authorized_partial ps pq pes))) ->
     exists p, In p ps /\ pid p = i /\ eval_policy_subst sg q es p = Ok false).
Proof. exact definitely_final. Qed.
Print Assumptions c13_definitely.


(* ---- reauthorize, policy by policy ----
   reauth_status sg q es st  is the status PartialResponse::reauthorize records for a policy whose
   first-phase status was st: the policy  true && (true && (true && residual))  (resp. true / false)
   evaluated by peval with the mapper sg on the completed request and store.  It never is a residual,
   and the policy is satisfied under reauthorize iff it is satisfied from scratch — the decision and
   the determining policies are functions of exactly these satisfied sets.
   _partial: (a) stated per policy — the lifting to the policy LIST (items of reauthorize =
   map over the first-phase items; decision / reason of pconcretize) is not proved in Coq, it is
   compared on every run by ./check C13; (b) the completed request is taken as given:
   concretize_request sg pq = embed_request q is not proved (Context::substitute re-evaluation);
   (c) static policies (no slots). *)
Theorem c13_reauthorize_partial :
  forall sg q es pq pes p,
    (forall sl v, sound_pres sg sl q es (peval_var pq v) (Var v)) ->
    (forall sl, store_complete sg sl pes q es) ->
    penv p = [] ->
    wt_expr sg (pcondition p) = true ->
    peval_policy no_mapping [] pq pes p <> SOut ->
    match reauth_status sg q es (peval_policy no_mapping [] pq pes p) with
    | SSat => eval_policy_subst sg q es p = Ok true
    | SFalse | SErr _ => eval_policy_subst sg q es p <> Ok true
    | SRes _ | SOut => False
    end.
Proof. exact reauth_policy_sound. Qed.
Print Assumptions c13_reauthorize_partial.
Print reauth_status.

(* in concrete mode (concrete request and store, every unknown mapped) peval leaves no residual *)
Theorem c13_reauthorize_no_residual :
  forall mu sl q es e, wt_expr mu e = true ->
    is_concrete (peval mu sl (embed_request q) (embed_entities es) e).
Proof. exact peval_concrete. Qed.
Print Assumptions c13_reauthorize_no_residual.

(* ---- non-vacuity: a concrete partial request with an unknown principal ---- *)
Definition ex_user : etype := [s2str "User"].
Definition ex_alice : uid := mkUid ex_user (s2str "alice").
Definition ex_bob : uid := mkUid ex_user (s2str "bob").
Definition ex_act : uid := mkUid [s2str "Action"] (s2str "view").
Definition ex_pq : prequest :=
  mkPRequest (EUnknown (Some ex_user)) (EKnown ex_act) (EKnown ex_bob)
             (CResidual [(s2str "flag", Unknown (s2str "f") None)]).
Definition ex_tpl (id : String.string) (eff : effect) (body : expr) : policy :=
  mkPolicy (mkTemplate (s2str id) [] eff CAny AAny CAny (Some body)) None [].
(* permit when principal == alice ; forbid when context.flag ; permit (always) ; permit when 1 + "a" *)
Definition ex_ps : list policy :=
  [ ex_tpl "p0" Permit (BinApp BEq (Var Principal) (Lit (PEntity ex_alice)));
    ex_tpl "p1" Forbid (GetAttr (Var Context) (s2str "flag"));
    ex_tpl "p2" Permit (Lit (PBool true));
    ex_tpl "p3" Permit (BinApp BAdd (Lit (PLong 1)) (Lit (PString (s2str "a")))) ].
Definition ex_resp := is_authorized_partial ex_ps ex_pq [].
Definition ex_sigma (flag : bool) : mapper :=
  fun n => if str_eqb n (s2str "principal") then Some (VEntity ex_alice)
           else if str_eqb n (s2str "f") then Some (VBool flag) else None.
Definition ex_q (flag : bool) : request := mkRequest ex_alice ex_act ex_bob [(s2str "flag", VBool flag)].

(* the residual forbid makes the partial decision indefinite; must = [], may = p0 p1 p2 *)
Example c13_ex_views :
  pdecision (pitems ex_resp) = None /\
  must_be_determining (pitems ex_resp) = [] /\
  may_be_determining (pitems ex_resp) = [s2str "p0"; s2str "p1"; s2str "p2"] /\
  definitely_satisfied (pitems ex_resp) = [s2str "p2"] /\
  definitely_errored (pitems ex_resp) = [s2str "p3"].
Proof. vm_compute. repeat split. Qed.

(* the hypothesis of the theorems holds for this instance under both completions of the flag,
   and reauthorize agrees with concrete authorization from scratch *)
Example c13_ex_status_sound :
  forall flag, Forall (fun p => status_sound (peval_policy no_mapping (penv p) ex_pq [] p)
                                             (eval_policy_subst (ex_sigma flag) (ex_q flag) [] p)) ex_ps.
Proof. intros [|]; repeat constructor; vm_compute; eauto. Qed.

Example c13_ex_reauthorize :
  forall flag,
    option_map (fun r => (rdecision (pconcretize (pitems r)), rreasons (pconcretize (pitems r))))
               (reauthorize (ex_sigma flag) [] ex_resp)
    = Some (rdecision (is_authorized ex_ps (ex_q flag) []), rreasons (is_authorized ex_ps (ex_q flag) [])).
Proof. intros [|]; vm_compute; reflexivity. Qed.

(* without the forbid the decision is definite *)
Example c13_ex_definite :
  pdecision (pitems (is_authorized_partial [nth 0 ex_ps (ex_tpl "x" Permit T); nth 2 ex_ps (ex_tpl "x" Permit T)] ex_pq []))
  = Some Allow.
Proof. vm_compute. reflexivity. Qed.

(* the hypothesis `completion` of the theorems holds for the example under both completions *)
Example c13_ex_completion :
  forall flag, completion (ex_sigma flag) ex_pq [] (ex_q flag) [] ex_ps.
Proof.
  intros flag. split; [|split].
  - intros sl v. destruct flag, v; cbv; auto.
  - intros sl u. reflexivity.
  - intros p [E|[E|[E|[E|[]]]]]; subst p; split; try (vm_compute; congruence); destruct flag; reflexivity.
Qed.
