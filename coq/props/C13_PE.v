(* C13 — partial evaluation with unknowns is sound.  Property theorems only.

   Model: coq/model/PE.v (peval, PartialResponse views, reauthorize), transcribed from
   evaluator.rs / authorizer/partial_response.rs and run against the implementation by ./check C13.

   What is proved here (for ALL policy lists, status functions and concrete outcome functions):
   the PartialResponse views are sound with respect to ANY concrete per-policy outcome function
   `evalp` that the partial statuses are sound for (`status_sound`): a definite partial decision
   is the concrete decision, must ⊆ determining ⊆ may, definitely satisfied / errored / trivially
   false policies are so concretely.  `evalp` is instantiated with the concrete evaluator under
   a substitution sigma (eval_policy (sigma q) (sigma es)) in the corollaries.

   _partial: the per-policy hypothesis `status_sound (peval-status p) (eval_policy ... p)` —
   i.e. c13_peval_sound lifted to policies — is NOT proved in Coq for the whole expression
   language; it is discharged only by the correspondence/oracle run (./check C13 compares the
   model's and the implementation's residuals semantically under >= 10 substitutions per case and
   checks exactly this hypothesis on the implementation).  c13_reauthorize is likewise covered by
   the correspondence and the implementation-level oracle only. *)
From Coq Require Import String.
From Cedar Require Import Authz PE PEProofs PESound.
Open Scope string_scope.

(* a definite partial decision is the decision for every completion *)
Theorem c13_decision_partial :
  forall (pstat : policy -> pstatus) (evalp : policy -> res bool),
    (forall p, status_sound (pstat p) (evalp p)) ->
    forall ps d, pdecision (pitems_with pstat ps) = Some d -> rdecision (authorize_with evalp ps) = d.
Proof. exact decision_sound. Qed.
Print Assumptions c13_decision_partial.

(* must_be_determining ⊆ actual determining policies *)
Theorem c13_determining_must_partial :
  forall (pstat : policy -> pstatus) (evalp : policy -> res bool),
    (forall p, status_sound (pstat p) (evalp p)) ->
    forall ps i, In i (must_be_determining (pitems_with pstat ps)) -> In i (rreasons (authorize_with evalp ps)).
Proof. exact must_sound. Qed.
Print Assumptions c13_determining_must_partial.

(* actual determining policies ⊆ may_be_determining *)
Theorem c13_determining_may_partial :
  forall (pstat : policy -> pstatus) (evalp : policy -> res bool),
    (forall p, status_sound (pstat p) (evalp p)) ->
    forall ps i, In i (rreasons (authorize_with evalp ps)) -> In i (may_be_determining (pitems_with pstat ps)).
Proof. exact may_sound. Qed.
Print Assumptions c13_determining_may_partial.

Theorem c13_definitely_satisfied_partial :
  forall (pstat : policy -> pstatus) (evalp : policy -> res bool),
    (forall p, status_sound (pstat p) (evalp p)) ->
    forall ps i, In i (definitely_satisfied (pitems_with pstat ps)) ->
                 exists p, In p ps /\ pid p = i /\ evalp p = Ok true.
Proof. exact satisfied_sound. Qed.
Print Assumptions c13_definitely_satisfied_partial.

Theorem c13_definitely_errored_partial :
  forall (pstat : policy -> pstatus) (evalp : policy -> res bool),
    (forall p, status_sound (pstat p) (evalp p)) ->
    forall ps i, In i (definitely_errored (pitems_with pstat ps)) ->
                 exists p e, In p ps /\ pid p = i /\ evalp p = Err e.
Proof. exact errored_sound. Qed.
Print Assumptions c13_definitely_errored_partial.

Theorem c13_trivially_false_partial :
  forall (pstat : policy -> pstatus) (evalp : policy -> res bool),
    (forall p, status_sound (pstat p) (evalp p)) ->
    forall ps i, In i (trivially_false (pitems_with pstat ps)) ->
                 exists p, In p ps /\ pid p = i /\ evalp p = Ok false.
Proof. exact false_sound. Qed.
Print Assumptions c13_trivially_false_partial.


(* ---- soundness of the partial evaluator itself ----
   sound_pres sg sl q es p e  unfolds to (Print below):
     p = PV v   ->  eval sl q es (subst sg e) = Ok v
     p = PR r   ->  agree (eval sl q es (subst sg r)) (eval sl q es (subst sg e))  /\  wt_expr sg r = true
                    (agree: equal values, or BOTH errors — the error class may differ)
     p = PErr _ ->  exists x, eval sl q es (subst sg e) = Err x
     p = POut   ->  True      (outside the model: an extension VALUE had to be turned into an expression)
   Hypotheses: sg extends the mapper mu; (q, es) is a sg-completion of (pq, pes): every request
   variable's partial value is sound (second hypothesis) and every stored entity has the same
   tags/ancestors and attribute-wise completed attributes (store_complete); every unknown of e is
   mapped by sg to a value of its declared type (wt_expr).
   _partial: covers the constructs of the VISIBLE predicate in_fragment (Print below). *)
Theorem c13_peval_sound_partial :
  forall (sg mu : mapper) (sl : slotenv) (pq : prequest) (pes : pentities) (q : request) (es : entities),
    (forall (n : str) (v : value), mu n = Some v -> sg n = Some v) ->
    (forall v : var, sound_pres sg sl q es (peval_var pq v) (Var v)) ->
    store_complete sg sl pes q es ->
    forall e : expr,
      in_fragment e = true -> wt_expr sg e = true ->
      sound_pres sg sl q es (peval mu sl pq pes e) e.
Proof. exact peval_sound_fragment. Qed.
Print Assumptions c13_peval_sound_partial.
Print in_fragment.
Print sound_res.

(* ---- non-vacuity: a concrete partial request with an unknown principal ---- *)
Definition ex_user : etype := [s2str "User"].
Definition ex_alice : uid := mkUid ex_user (s2str "alice").
Definition ex_bob : uid := mkUid ex_user (s2str "bob").
Definition ex_act : uid := mkUid [s2str "Action"] (s2str "view").
Definition ex_pq : prequest :=
  mkPRequest (EUnknown (Some ex_user)) (EKnown ex_act) (EKnown ex_bob)
             (CResidual [(s2str "flag", Unknown (s2str "f") None)]).
Definition ex_tpl (id : String.string) (eff : effect) (body : expr) : policy :=
  mkPolicy (mkTemplate (s2str id) [] eff CAny AAny CAny (Some body)) None [].
(* permit when principal == alice ; forbid when context.flag ; permit (always) ; permit when 1 + "a" *)
Definition ex_ps : list policy :=
  [ ex_tpl "p0" Permit (BinApp BEq (Var Principal) (Lit (PEntity ex_alice)));
    ex_tpl "p1" Forbid (GetAttr (Var Context) (s2str "flag"));
    ex_tpl "p2" Permit (Lit (PBool true));
    ex_tpl "p3" Permit (BinApp BAdd (Lit (PLong 1)) (Lit (PString (s2str "a")))) ].
Definition ex_resp := is_authorized_partial ex_ps ex_pq [].
Definition ex_sigma (flag : bool) : mapper :=
  fun n => if str_eqb n (s2str "principal") then Some (VEntity ex_alice)
           else if str_eqb n (s2str "f") then Some (VBool flag) else None.
Definition ex_q (flag : bool) : request := mkRequest ex_alice ex_act ex_bob [(s2str "flag", VBool flag)].

(* the residual forbid makes the partial decision indefinite; must = [], may = p0 p1 p2 *)
Example c13_ex_views :
  pdecision (pitems ex_resp) = None /\
  must_be_determining (pitems ex_resp) = [] /\
  may_be_determining (pitems ex_resp) = [s2str "p0"; s2str "p1"; s2str "p2"] /\
  definitely_satisfied (pitems ex_resp) = [s2str "p2"] /\
  definitely_errored (pitems ex_resp) = [s2str "p3"].
Proof. vm_compute. repeat split. Qed.

(* the hypothesis of the theorems holds for this instance under both completions of the flag,
   and reauthorize agrees with concrete authorization from scratch *)
Example c13_ex_status_sound :
  forall flag, Forall (fun p => status_sound (peval_policy no_mapping (penv p) ex_pq [] p)
                                             (eval_policy (ex_q flag) [] p)) ex_ps.
Proof. intros [|]; repeat constructor; vm_compute; eauto. Qed.

Example c13_ex_reauthorize :
  forall flag,
    option_map (fun r => (rdecision (pconcretize (pitems r)), rreasons (pconcretize (pitems r))))
               (reauthorize (ex_sigma flag) [] ex_resp)
    = Some (rdecision (is_authorized ex_ps (ex_q flag) []), rreasons (is_authorized ex_ps (ex_q flag) [])).
Proof. intros [|]; vm_compute; reflexivity. Qed.

(* without the forbid the decision is definite *)
Example c13_ex_definite :
  pdecision (pitems (is_authorized_partial [nth 0 ex_ps (ex_tpl "x" Permit T); nth 2 ex_ps (ex_tpl "x" Permit T)] ex_pq []))
  = Some Allow.
Proof. vm_compute. reflexivity. Qed.

(* the hypotheses of c13_peval_sound_partial hold for the example request under both completions *)
Example c13_ex_completion :
  forall flag v, sound_pres (ex_sigma flag) [] (ex_q flag) [] (peval_var ex_pq v) (Var v).
Proof. intros [|] [| | |]; vm_compute; auto. Qed.
Example c13_ex_store : forall flag, store_complete (ex_sigma flag) [] [] (ex_q flag) [].
Proof. intros flag u. reflexivity. Qed.
