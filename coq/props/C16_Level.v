(* C16_Level.v — C16: level validation guarantees the level-n entity slice suffices.

   Model: model/Level.v — `lv` is LevelChecker::{check_expr_level, check_entity_deref_target_level}
   (level_validate.rs) on the typed expression of one request environment; `slice_at_level` is the
   slice pinned in DESIGN.md C16.

   FULL on the model:
     c16_monotone                  raising n never turns acceptance into rejection (any n <= n2)
     c16_level_independent_of_max  the dereference level computed for a target does not depend on n
     c16_slice_subset              the slice is a sub-store
     c16_slice_monotone            slice n is contained in slice (n+1)
     c16_slice_keeps_data          an entity within n hops has, in the slice, exactly the record
                                   (attributes, tags, ancestor set) it has in the store; others are absent
     c16_slice_hop_closed          every uid mentioned by an entity of slice n is within n+1 hops
                                   (the invariant "values obtained by k hops mention uids at distance <= k+1")
     c16_slice_sound_base          one dereference applied directly to a request variable evaluates on the
                                   level-(n+1) slice as on the full store (no hypothesis on annotations)
   PARTIAL (everything below is proved for ALL constructors of typed expressions — literals, variables,
   slots, if, &&, ||, unary/binary operators incl. in / hasTag / getTag, extension calls, getAttr / hasAttr on
   entities and records, like, is, set and record literals with access paths — but UNDER THE HYPOTHESIS
   `te_ok`: the type annotations are sound, i.e. the target of every getAttr/hasAttr annotated with an entity
   type evaluates (if at all) to an entity and annotated with a record type to a record, and record
   literals have distinct keys.  That hypothesis is what C03 should deliver; C03's theorem on main covers
   only a small fragment, so it is NOT discharged here — hence `_partial`.  Conformance of the store is not
   needed beyond `te_ok`.):
     c16_target_distance_partial   the invariant: a dereference target accepted with level l evaluates on the
                                   full store to a value whose projection along the access path mentions only
                                   uids within l+1 hops of the request roots
     c16_between_partial           sandwich: ANY store that agrees with the full store on the entities within n
                                   hops (the slice, every store between slice and full store, and more)
                                   evaluates an expression accepted at level n exactly like the full store
     c16_slice_sound_partial       the instance for slice_at_level n
     c16_response_partial          lift to responses (Authz.is_authorized, the function C01's theorems
                                   characterise): same decision, determining policies and erroring policies
                                   (with error classes) on every such store, for policy lists whose
                                   conditions are erasures of accepted typed expressions *)
From Cedar Require Import Level LevelProofs LevelSound.

Theorem c16_monotone : forall act n n2 e,
  (n <= n2)%N -> level_ok act n e = true -> level_ok act n2 e = true.
Proof. exact level_ok_mono_le. Qed.
Print Assumptions c16_monotone.

Theorem c16_level_independent_of_max : forall act n n2 path e,
  fst (lv act n (Some path) e) = fst (lv act n2 (Some path) e).
Proof. exact lv_level_indep. Qed.
Print Assumptions c16_level_independent_of_max.

Theorem c16_slice_subset : forall n q es x, In x (slice_at_level n q es) -> In x es.
Proof. exact slice_subset. Qed.
Print Assumptions c16_slice_subset.

Theorem c16_slice_monotone : forall n q es x,
  In x (slice_at_level n q es) -> In x (slice_at_level (S n) q es).
Proof. exact slice_monotone. Qed.
Print Assumptions c16_slice_monotone.

Theorem c16_slice_keeps_data : forall n q es u,
  find_entity u (slice_at_level n q es) =
  if uid_mem u (reach es n (request_roots q)) then find_entity u es else None.
Proof. exact slice_find. Qed.
Print Assumptions c16_slice_keeps_data.

Theorem c16_slice_hop_closed : forall n q es u d,
  find_entity u (slice_at_level n q es) = Some d ->
  forall x, In x (edata_uids d) -> uid_mem x (reach es (S n) (request_roots q)) = true.
Proof. exact slice_hop_closed. Qed.
Print Assumptions c16_slice_hop_closed.

Theorem c16_slice_sound_base : forall n q es sl v k op p,
  let s := slice_at_level (S n) q es in
  eval sl q s (GetAttr (Var v) k) = eval sl q es (GetAttr (Var v) k) /\
  eval sl q s (HasAttr (Var v) k) = eval sl q es (HasAttr (Var v) k) /\
  eval sl q s (BinApp op (Var v) (Lit p)) = eval sl q es (BinApp op (Var v) (Lit p)).
Proof. exact slice_sound_base. Qed.
Print Assumptions c16_slice_sound_base.

Theorem c16_target_distance_partial : forall sl q es n te path v v',
  te_ok sl q es te -> snd (lv (raction q) (N.of_nat n) (Some path) te) = [] ->
  eval sl q es (erase te) = Ok v -> proj path v = Some v' ->
  incl (value_uids v') (reach es (S (N.to_nat (fst (lv (raction q) (N.of_nat n) (Some path) te)))) (request_roots q)).
Proof. exact target_distance. Qed.
Print Assumptions c16_target_distance_partial.

Theorem c16_between_partial : forall sl q es st n te,
  (forall u, In u (reach es n (request_roots q)) -> find_entity u st = find_entity u es) ->
  te_ok sl q es te ->
  level_ok (raction q) (N.of_nat n) te = true ->
  eval sl q st (erase te) = eval sl q es (erase te).
Proof. exact between_sound. Qed.
Print Assumptions c16_between_partial.

Theorem c16_slice_sound_partial : forall sl q es n te,
  te_ok sl q es te -> level_ok (raction q) (N.of_nat n) te = true ->
  eval sl q (slice_at_level n q es) (erase te) = eval sl q es (erase te).
Proof. exact slice_sound. Qed.
Print Assumptions c16_slice_sound_partial.

Theorem c16_response_partial : forall ps q es st n,
  (st = slice_at_level n q es \/
   forall u, In u (reach es n (request_roots q)) -> find_entity u st = find_entity u es) ->
  (forall p, In p ps ->
     exists te, erase te = pcondition p /\ te_ok (penv p) q es te /\ level_ok (raction q) (N.of_nat n) te = true) ->
  is_authorized ps q st = is_authorized ps q es.
Proof.
  intros ps q es st n [->|H] Hps; [apply (response_slice ps q es n) | apply (response_between ps q es st n)]; assumption.
Qed.
Print Assumptions c16_response_partial.

(* ---- non-vacuity: `principal.manager.n < 7` (typed for principal : User) needs level 2 ---- *)
Definition uU : uid := mkUid [s2str "User"] (s2str "a").
Definition uAct : uid := mkUid [s2str "Action"] (s2str "view").
Definition tUser : oty := Some (TEntity (ELub [[s2str "User"]])).
Definition ex_policy : texpr :=
  TEBinApp BLess
    (TEGetAttr (TEGetAttr (TEVar Principal tUser) (s2str "manager") tUser) (s2str "n") (Some TLong))
    (TELit (PLong 7) (Some TLong)) (Some (TBool BAny)).
Example ex_rejected_at_1 : level_ok uAct 1 ex_policy = false. Proof. vm_compute. reflexivity. Qed.
Example ex_accepted_at_2 : level_ok uAct 2 ex_policy = true. Proof. vm_compute. reflexivity. Qed.
Example ex_errors_at_0 : level_errors uAct 0 ex_policy = [LMax 2]. Proof. vm_compute. reflexivity. Qed.
(* a dereference hidden in a record literal and projected: {a: principal.manager}.a.n needs level 2 *)
Definition ex_record : texpr :=
  TEGetAttr (TEGetAttr (TERecord [(s2str "a", TEGetAttr (TEVar Principal tUser) (s2str "manager") tUser)]
                                 (Some (TRecord [(s2str "a", (TEntity (ELub [[s2str "User"]]), true))] false)))
                       (s2str "a") tUser) (s2str "n") (Some TLong).
Example ex_record_1 : level_ok uAct 1 ex_record = false. Proof. vm_compute. reflexivity. Qed.
Example ex_record_2 : level_ok uAct 2 ex_record = true. Proof. vm_compute. reflexivity. Qed.
(* the slice: a -> b -> c by `manager`; level 1 keeps a only, level 2 adds b *)
Definition uB : uid := mkUid [s2str "User"] (s2str "b").
Definition uC : uid := mkUid [s2str "User"] (s2str "c").
Definition ex_store : entities :=
  [(uU, mkEdata [(s2str "manager", VEntity uB)] [] []); (uB, mkEdata [(s2str "manager", VEntity uC)] [] [uC]);
   (uC, mkEdata [] [] [])].
Definition ex_req : request := mkRequest uU uAct uU [].
Example ex_slice_0 : map fst (slice_at_level 0 ex_req ex_store) = []. Proof. vm_compute. reflexivity. Qed.
Example ex_slice_1 : map fst (slice_at_level 1 ex_req ex_store) = [uU]. Proof. vm_compute. reflexivity. Qed.
Example ex_slice_2 : map fst (slice_at_level 2 ex_req ex_store) = [uU; uB]. Proof. vm_compute. reflexivity. Qed.
Example ex_slice_keeps : find_entity uB (slice_at_level 2 ex_req ex_store) = Some (mkEdata [(s2str "manager", VEntity uC)] [] [uC]).
Proof. vm_compute. reflexivity. Qed.

(* the soundness hypotheses are satisfiable and the level is tight: b.n = 3 *)
Definition ex_store2 : entities :=
  [(uU, mkEdata [(s2str "manager", VEntity uB)] [] []);
   (uB, mkEdata [(s2str "manager", VEntity uC); (s2str "n", VLong 3)] [] [uC]); (uC, mkEdata [] [] [])].
Example ex_te_ok : te_ok [] ex_req ex_store2 ex_policy.
Proof.
  cbn [te_ok ex_policy]. repeat split; intros Ht v Hv; vm_compute in Ht; try discriminate;
    vm_compute in Hv; inversion Hv; subst; eexists; reflexivity.
Qed.
Example ex_sound_2 :
  eval [] ex_req (slice_at_level 2 ex_req ex_store2) (erase ex_policy) = eval [] ex_req ex_store2 (erase ex_policy).
Proof. apply (c16_slice_sound_partial [] ex_req ex_store2 2 ex_policy ex_te_ok). vm_compute. reflexivity. Qed.
Example ex_full_value : eval [] ex_req ex_store2 (erase ex_policy) = Ok (VBool true).
Proof. vm_compute. reflexivity. Qed.
Example ex_level_tight : eval [] ex_req (slice_at_level 1 ex_req ex_store2) (erase ex_policy) = Err ErrEntityMissing.
Proof. vm_compute. reflexivity. Qed.
