(* C16_Level.v — property theorems of C16 (filled in below). *)
From Cedar Require Import Level LevelProofs.
