(* C16_Level.v — C16: level validation guarantees the level-n entity slice suffices.

   Model: model/Level.v — `lv` is LevelChecker::{check_expr_level, check_entity_deref_target_level}
   (level_validate.rs) on the typed expression of one request environment; `slice_at_level` is the
   slice pinned in DESIGN.md C16.

   FULL on the model:
     c16_monotone                  raising n never turns acceptance into rejection (any n <= n2)
     c16_level_independent_of_max  the dereference level computed for a target does not depend on n
     c16_slice_subset              the slice is a sub-store
     c16_slice_monotone            slice n is contained in slice (n+1)
     c16_slice_keeps_data          an entity within n hops has, in the slice, exactly the record
                                   (attributes, tags, ancestor set) it has in the store; others are absent
     c16_slice_hop_closed          every uid mentioned by an entity of slice n is within n+1 hops
                                   (the invariant "values obtained by k hops mention uids at distance <= k+1")
   PARTIAL:
     c16_slice_sound_partial       evaluation on the slice = evaluation on the full store ONLY for the
                                   base case of the invariant: one dereference (attribute read, has, in,
                                   hasTag/getTag) applied directly to a request variable, at any level >= 1.
                                   MISSING: the inductive step through dereference chains, if, record
                                   literals with access paths and getTag, which needs the soundness of the
                                   type annotations (C03); the lift to whole responses (C01).  That part of
                                   the property is covered only by the correspondence + the slice-vs-full
                                   oracle on the implementation (vp/props/c16.py). *)
From Cedar Require Import Level LevelProofs.

Theorem c16_monotone : forall act n n2 e,
  (n <= n2)%N -> level_ok act n e = true -> level_ok act n2 e = true.
Proof. exact level_ok_mono_le. Qed.
Print Assumptions c16_monotone.

Theorem c16_level_independent_of_max : forall act n n2 path e,
  fst (lv act n (Some path) e) = fst (lv act n2 (Some path) e).
Proof. exact lv_level_indep. Qed.
Print Assumptions c16_level_independent_of_max.

Theorem c16_slice_subset : forall n q es x, In x (slice_at_level n q es) -> In x es.
Proof. exact slice_subset. Qed.
Print Assumptions c16_slice_subset.

Theorem c16_slice_monotone : forall n q es x,
  In x (slice_at_level n q es) -> In x (slice_at_level (S n) q es).
Proof. exact slice_monotone. Qed.
Print Assumptions c16_slice_monotone.

Theorem c16_slice_keeps_data : forall n q es u,
  find_entity u (slice_at_level n q es) =
  if uid_mem u (reach es n (request_roots q)) then find_entity u es else None.
Proof. exact slice_find. Qed.
Print Assumptions c16_slice_keeps_data.

Theorem c16_slice_hop_closed : forall n q es u d,
  find_entity u (slice_at_level n q es) = Some d ->
  forall x, In x (edata_uids d) -> uid_mem x (reach es (S n) (request_roots q)) = true.
Proof. exact slice_hop_closed. Qed.
Print Assumptions c16_slice_hop_closed.

Theorem c16_slice_sound_partial : forall n q es sl v k op p,
  let s := slice_at_level (S n) q es in
  eval sl q s (GetAttr (Var v) k) = eval sl q es (GetAttr (Var v) k) /\
  eval sl q s (HasAttr (Var v) k) = eval sl q es (HasAttr (Var v) k) /\
  eval sl q s (BinApp op (Var v) (Lit p)) = eval sl q es (BinApp op (Var v) (Lit p)).
Proof. exact slice_sound_base. Qed.
Print Assumptions c16_slice_sound_partial.

(* ---- non-vacuity: `principal.manager.n < 7` (typed for principal : User) needs level 2 ---- *)
Definition uU : uid := mkUid [s2str "User"] (s2str "a").
Definition uAct : uid := mkUid [s2str "Action"] (s2str "view").
Definition tUser : oty := Some (TEntity (ELub [[s2str "User"]])).
Definition ex_policy : texpr :=
  TEBinApp BLess
    (TEGetAttr (TEGetAttr (TEVar Principal tUser) (s2str "manager") tUser) (s2str "n") (Some TLong))
    (TELit (PLong 7) (Some TLong)) (Some (TBool BAny)).
Example ex_rejected_at_1 : level_ok uAct 1 ex_policy = false. Proof. vm_compute. reflexivity. Qed.
Example ex_accepted_at_2 : level_ok uAct 2 ex_policy = true. Proof. vm_compute. reflexivity. Qed.
Example ex_errors_at_0 : level_errors uAct 0 ex_policy = [LMax 2]. Proof. vm_compute. reflexivity. Qed.
(* a dereference hidden in a record literal and projected: {a: principal.manager}.a.n needs level 2 *)
Definition ex_record : texpr :=
  TEGetAttr (TEGetAttr (TERecord [(s2str "a", TEGetAttr (TEVar Principal tUser) (s2str "manager") tUser)]
                                 (Some (TRecord [(s2str "a", (TEntity (ELub [[s2str "User"]]), true))] false)))
                       (s2str "a") tUser) (s2str "n") (Some TLong).
Example ex_record_1 : level_ok uAct 1 ex_record = false. Proof. vm_compute. reflexivity. Qed.
Example ex_record_2 : level_ok uAct 2 ex_record = true. Proof. vm_compute. reflexivity. Qed.
(* the slice: a -> b -> c by `manager`; level 1 keeps a only, level 2 adds b *)
Definition uB : uid := mkUid [s2str "User"] (s2str "b").
Definition uC : uid := mkUid [s2str "User"] (s2str "c").
Definition ex_store : entities :=
  [(uU, mkEdata [(s2str "manager", VEntity uB)] [] []); (uB, mkEdata [(s2str "manager", VEntity uC)] [] [uC]);
   (uC, mkEdata [] [] [])].
Definition ex_req : request := mkRequest uU uAct uU [].
Example ex_slice_0 : map fst (slice_at_level 0 ex_req ex_store) = []. Proof. vm_compute. reflexivity. Qed.
Example ex_slice_1 : map fst (slice_at_level 1 ex_req ex_store) = [uU]. Proof. vm_compute. reflexivity. Qed.
Example ex_slice_2 : map fst (slice_at_level 2 ex_req ex_store) = [uU; uB]. Proof. vm_compute. reflexivity. Qed.
Example ex_slice_keeps : find_entity uB (slice_at_level 2 ex_req ex_store) = Some (mkEdata [(s2str "manager", VEntity uC)] [] [uC]).
Proof. vm_compute. reflexivity. Qed.
