(* C08 — template linking equals substitution; policy-set edits keep ids consistent.
   Proved here (on the model coq/model/PolicySet.v, for all states / operations / bindings):
     c08_fail_noop_api, c08_fail_noop_core : a failed operation returns the state unchanged
       (including the restore paths of remove_static / unlink / remove_template and a failed merge);
     c08_link_arity : link succeeds iff the template exists, exactly its slots are bound
       (c08_binding_exact characterises check_binding) and the new id is unused;
     c08_link_effect_annotations_partial : effect / annotations of a link are its template's.
   NOT proved (kept by correspondence + implementation-level oracle only, see notes/C08.md):
     WF preservation over histories, refinement to the abstract map, link = substitution for
     evaluation, merge properties. *)
From Cedar Require Import PolicySet PolicySetProofs.

Theorem c08_fail_noop_api : forall h o h' e r, api_step h o = (h', (OErr e, r)) -> h' = h.
Proof. exact api_step_fail_noop. Qed.
Print Assumptions c08_fail_noop_api.

Theorem c08_fail_noop_core : forall h o h' e r, ast_step h o = (h', (OErr e, r)) -> h' = h.
Proof. exact ast_step_fail_noop. Qed.
Print Assumptions c08_fail_noop_core.

Theorem c08_link_arity : forall s tmpl new env,
  (exists s', ps_link s tmpl new env = OOk s') <->
  (exists t, alookup tmpl (ps_templates s) = Some t /\ check_binding t env = true /\ bound s new = false).
Proof. exact ps_link_ok_iff. Qed.
Print Assumptions c08_link_arity.

Theorem c08_binding_exact : forall t env,
  check_binding t env = true <->
  ((forall s, In s (tslots t) -> env_has s env = true) /\
   (forall s u, In (s, u) env -> exists s', In s' (tslots t) /\ slot_eqb s s' = true)).
Proof. exact check_binding_spec. Qed.
Print Assumptions c08_binding_exact.

Theorem c08_link_effect_annotations_partial : forall t new env,
  peffect (mkPolicy t (Some new) env) = teffect t /\ tannot (ptemplate (mkPolicy t (Some new) env)) = tannot t.
Proof. exact link_effect_annotations. Qed.
Print Assumptions c08_link_effect_annotations_partial.

(* non-vacuity: a link with exactly the template's slot succeeds, one with a missing slot fails *)
Definition ex_t : template := mkTemplate [116%N] [] Permit (CEq RefSlot) AAny CAny None.
Definition ex_u : uid := mkUid [[85%N]] [97%N].
Example ex_link_ok :
  exists s1 s2, ps_add_template empty_pset ex_t = OOk s1 /\ ps_link s1 [116%N] [108%N] [(SlotPrincipal, ex_u)] = OOk s2.
Proof. eexists. eexists. split; vm_compute; reflexivity. Qed.
Example ex_link_arity :
  exists s1, ps_add_template empty_pset ex_t = OOk s1 /\ ps_link s1 [116%N] [108%N] [] = OErr EArity.
Proof. eexists. split; vm_compute; reflexivity. Qed.
Example ex_fail_noop :
  api_step empty_h (OpUnlink [120%N]) = (empty_h, (OErr ELinkNonexistent, [])).
Proof. vm_compute. reflexivity. Qed.
