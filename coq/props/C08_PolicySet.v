(* C08 — template linking equals substitution; policy-set edits keep ids consistent.
   Proved here (on the model coq/model/PolicySet.v, for all states / operations / bindings):
     c08_fail_noop_api, c08_fail_noop_core : a failed operation returns the state unchanged
       (including the restore paths of remove_static / unlink / remove_template and a failed merge);
     c08_link_arity : link succeeds iff the template exists, exactly its slots are bound
       (c08_binding_exact characterises check_binding) and the new id is unused;
     c08_link_effect_annotations_partial : effect / annotations of a link are its template's.
     c08_wf_step (API level, every operation except merge) / c08_history_partial (every merge-free
       history from the empty set): the invariant WFapi = core WF (templates stored under their id;
       every link stored under its id, its template present, exactly the template's slots bound, static
       iff slot-less template; no id both template and template-linked policy; every slot-less template
       is a present static policy; template_to_links = exactly the inverse image) + API maps =
       projection of the core maps.  `_partial`: merge is not covered (not proved).
     c08_wf_step_core : the same for ast::PolicySet under the VISIBLE precondition core_ok (no slot-less
       template added as template, no re-add of a template-linked policy object, no merge; since the
       fix 3c064e2 `link` needs no precondition — c08_link_static_body_refused);
       c08_wf_refuted_without_it : without it the faithful model loses the invariant (witness
       add_template t; link t->x; unlink x; add_template x; add(unlinked object x): x is both a template
       and a template-linked policy — core level only, the API refuses to `add` a linked policy).
     c08_link_subst_partial : for every request, store, template, binding and link id, evaluating the
       linked policy (slot environment of Eval.v) = evaluating the static policy obtained by writing the
       bound entity in place of each slot (subst_slots); unbound slots give ErrUnlinkedSlot on both sides.
       `_partial`: the hypothesis body_closed (the when/unless body evaluates independently of the slot
       environment — the parser rejects slots there) is semantic, not derived from a syntactic check.
     c08_refines : refinement of the six core operations to the abstract finite map
       abs_of : id -> static body | template | link(template id, values): each successful operation is the
       abstract put/delete, and (under WF) it succeeds exactly when the abstract precondition holds
       (add*: id free; link: entry is a template, exact binding, id free; unlink: entry is a link;
       remove_static: entry is static; remove_template: entry is a template no link names);
       c08_policies_exact : the policies authorization iterates over (`ps_links`) are exactly the static
       bodies and links of the abstract map.
   NOT proved: merge (invariant preservation, contents = a U rho(b), rho injective/fresh). *)
From Cedar Require Import PolicySet PolicySetProofs PolicySetWF PolicySetSubst PolicySetRefine.

Theorem c08_fail_noop_api : forall h o h' e r, api_step h o = (h', (OErr e, r)) -> h' = h.
Proof. exact api_step_fail_noop. Qed.
Print Assumptions c08_fail_noop_api.

Theorem c08_fail_noop_core : forall h o h' e r, ast_step h o = (h', (OErr e, r)) -> h' = h.
Proof. exact ast_step_fail_noop. Qed.
Print Assumptions c08_fail_noop_core.

Theorem c08_link_arity : forall s tmpl new env,
  (exists s', ps_link s tmpl new env = OOk s') <->
  (exists t, alookup tmpl (ps_templates s) = Some t /\ (t_is_static t && amem tmpl (ps_links s)) = false /\
             check_binding t env = true /\ bound s new = false).
Proof. exact ps_link_ok_iff. Qed.
Print Assumptions c08_link_arity.

Theorem c08_binding_exact : forall t env,
  check_binding t env = true <->
  ((forall s, In s (tslots t) -> env_has s env = true) /\
   (forall s u, In (s, u) env -> exists s', In s' (tslots t) /\ slot_eqb s s' = true)).
Proof. exact check_binding_spec. Qed.
Print Assumptions c08_binding_exact.

Theorem c08_link_effect_annotations_partial : forall t new env,
  peffect (mkPolicy t (Some new) env) = teffect t /\ tannot (ptemplate (mkPolicy t (Some new) env)) = tannot t.
Proof. exact link_effect_annotations. Qed.
Print Assumptions c08_link_effect_annotations_partial.

Theorem c08_wf_step : forall h o h' r,
  Hinv h -> no_merge o -> api_step h o = (h', r) -> Hinv h'.
Proof. exact api_step_Hinv. Qed.
Print Assumptions c08_wf_step.

Theorem c08_history_partial : forall ops,
  Forall no_merge ops -> Hinv (run_ops api_step ops empty_h).
Proof. intros ops F. exact (api_history_Hinv ops empty_h Hinv_empty F). Qed.
Print Assumptions c08_history_partial.

Theorem c08_wf_step_core : forall h o h' r,
  CoreInv h -> core_ok h o -> ast_step h o = (h', r) -> CoreInv h'.
Proof. exact ast_step_CoreInv. Qed.
Print Assumptions c08_wf_step_core.

Theorem c08_wf_refuted_without_it :
  exists ops, ~ WF (a_ast (h_api (run_ops ast_step ops empty_h))).
Proof. exists wit_ops. exact core_WF_refuted. Qed.
Print Assumptions c08_wf_refuted_without_it.

Theorem c08_link_subst_partial : forall q es t env i,
  body_closed q es t ->
  eval_policy q es (mkPolicy t (Some i) env) = eval_policy q es (static_of (subst_slots env t)).
Proof. exact link_subst. Qed.
Print Assumptions c08_link_subst_partial.

(* 3c064e2: the body of a present static policy is not a link target (the former refutation witness) *)
Theorem c08_link_static_body_refused : forall s t new env,
  alookup (tid t) (ps_templates s) = Some t -> t_is_static t = true -> amem (tid t) (ps_links s) = true ->
  ps_link s (tid t) new env = OErr ENoSuchTemplate.
Proof. exact link_static_body_refused. Qed.
Print Assumptions c08_link_static_body_refused.

Theorem c08_refines : forall s, WF s ->
  (forall t s', ps_add_static s t = OOk s' -> forall i, abs_of s' i = aput (abs_of s) (tid t) (AStatic t) i) /\
  (forall t, (exists s', ps_add_static s t = OOk s') <-> abs_of s (tid t) = None) /\
  (forall t s', ps_add_template s t = OOk s' -> forall i, abs_of s' i = aput (abs_of s) (tid t) (ATemplate t) i) /\
  (forall t, (exists s', ps_add_template s t = OOk s') <-> abs_of s (tid t) = None) /\
  (forall tmpl new env s', ps_link s tmpl new env = OOk s' ->
      forall i, abs_of s' i = aput (abs_of s) new (ALink tmpl env) i) /\
  (forall tmpl new env, (exists s', ps_link s tmpl new env = OOk s') <->
      (exists t, abs_of s tmpl = Some (ATemplate t) /\ check_binding t env = true /\ abs_of s new = None)) /\
  (forall i s' p, ps_unlink s i = OOk (s', p) -> forall j, abs_of s' j = adel (abs_of s) i j) /\
  (forall i, (exists r, ps_unlink s i = OOk r) <-> (exists t e, abs_of s i = Some (ALink t e))) /\
  (forall i s' p, ps_remove_static s i = OOk (s', p) -> forall j, abs_of s' j = adel (abs_of s) i j) /\
  (forall i, (exists r, ps_remove_static s i = OOk r) <-> (exists t, abs_of s i = Some (AStatic t))) /\
  (forall i s', ps_remove_template s i = OOk s' -> forall j, abs_of s' j = adel (abs_of s) i j) /\
  (forall i, (exists s', ps_remove_template s i = OOk s') <->
      ((exists t, abs_of s i = Some (ATemplate t)) /\ forall j e, abs_of s j <> Some (ALink i e))).
Proof.
  intros s W.
  split; [intros; eapply add_static_refines; eauto|].
  split; [intros; apply add_static_ok_iff|].
  split; [intros; eapply add_template_refines; eauto|].
  split; [intros; apply add_template_ok_iff|].
  split; [intros; eapply link_refines; eauto|].
  split; [intros; apply link_ok_iff; exact W|].
  split; [intros; eapply unlink_refines; eauto|].
  split; [intros; apply unlink_ok_iff; exact W|].
  split; [intros; eapply remove_static_refines; eauto|].
  split; [intros; apply remove_static_ok_iff; exact W|].
  split; [intros; eapply remove_template_refines; eauto|].
  intros; apply remove_template_ok_iff; exact W.
Qed.
Print Assumptions c08_refines.

Theorem c08_policies_exact : forall s i,
  (forall p, alookup i (ps_links s) = Some p ->
     abs_of s i = Some (match plink p with None => AStatic (ptemplate p) | Some _ => ALink (tid (ptemplate p)) (penv p) end)) /\
  (alookup i (ps_links s) = None -> abs_of s i = None \/ exists t, abs_of s i = Some (ATemplate t)).
Proof. intros s i. split; [intros p; apply policies_exact | apply policies_only]. Qed.
Print Assumptions c08_policies_exact.

(* merge, the part that is proved: without renaming a successful merge renamed nothing (any conflict is
   an error, and by c08_fail_noop_* the set is then unchanged); with renaming merge always succeeds *)
Theorem c08_merge_partial : forall a b,
  (forall s' r, ps_merge a b false = OOk (s', r) -> r = []) /\ (exists s' r, ps_merge a b true = OOk (s', r)).
Proof. intros a b. split; [apply ps_merge_norename | apply ps_merge_rename_total]. Qed.
Print Assumptions c08_merge_partial.

(* consequences of the invariant, in the property's words *)
Theorem c08_no_shared_id : forall s i p t, WF s ->
  alookup i (ps_links s) = Some p -> alookup i (ps_templates s) = Some t -> plink p = None /\ t = ptemplate p.
Proof.
  intros s i p t W HL HT. assert (Hs : plink p = None) by (eapply wf_disj; eauto; congruence).
  split; [exact Hs|]. destruct (wf_link _ W _ _ HL) as [Hpid [B _]].
  rewrite (static_pid _ Hs) in Hpid. rewrite Hpid in B. congruence.
Qed.
Print Assumptions c08_no_shared_id.

Theorem c08_link_has_template : forall s i p, WF s ->
  alookup i (ps_links s) = Some p -> alookup (tid (ptemplate p)) (ps_templates s) = Some (ptemplate p).
Proof. intros s i p W H. exact (proj1 (proj2 (wf_link _ W _ _ H))). Qed.
Print Assumptions c08_link_has_template.

(* non-vacuity: a link with exactly the template's slot succeeds, one with a missing slot fails *)
Definition ex_t : template := mkTemplate [116%N] [] Permit (CEq RefSlot) AAny CAny None.
Definition ex_u : uid := mkUid [[85%N]] [97%N].
Example ex_link_ok :
  exists s1 s2, ps_add_template empty_pset ex_t = OOk s1 /\ ps_link s1 [116%N] [108%N] [(SlotPrincipal, ex_u)] = OOk s2.
Proof. eexists. eexists. split; vm_compute; reflexivity. Qed.
Example ex_link_arity :
  exists s1, ps_add_template empty_pset ex_t = OOk s1 /\ ps_link s1 [116%N] [108%N] [] = OErr EArity.
Proof. eexists. split; vm_compute; reflexivity. Qed.
Example ex_history : Hinv (run_ops api_step
  [OpAddTemplate ex_t; OpLink [116%N] [108%N] [(SlotPrincipal, ex_u)]; OpUnlink [108%N]; OpRemoveTemplate [116%N]] empty_h).
Proof. apply c08_history_partial. repeat constructor. Qed.
Example ex_body_closed : forall q es, body_closed q es ex_t.
Proof. intros q es sl e H. discriminate H. Qed.
Example ex_fail_noop :
  api_step empty_h (OpUnlink [120%N]) = (empty_h, (OErr ELinkNonexistent, [])).
Proof. vm_compute. reflexivity. Qed.
