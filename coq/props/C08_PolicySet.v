(* C08 — template linking equals substitution; policy-set edits keep ids consistent *)
From Cedar Require Import PolicySet PolicySetProofs.
