(* C01 — Authorization: default-deny, forbid-overrides, skip-on-error, pure function.
   Property theorems only; each is closed by `exact <lemma>` and followed by Print Assumptions.
   All statements quantify over an arbitrary list of policies `ps` and an arbitrary per-policy
   evaluation function `evalp` (instantiated with the model evaluator in the corollaries). *)
From Coq Require Import Permutation.
From Cedar Require Import Authz AuthzProofs.

(* decision = Allow  <->  some permit satisfied and no forbid satisfied *)
Theorem c01_decision_allow :
  forall (evalp : policy -> res bool) (ps : list policy),
    rdecision (authorize_with evalp ps) = Allow <->
    (exists p, In p ps /\ peffect p = Permit /\ evalp p = Ok true) /\
    ~ (exists p, In p ps /\ peffect p = Forbid /\ evalp p = Ok true).
Proof. exact decision_allow_iff. Qed.
Print Assumptions c01_decision_allow.

(* ... and Deny otherwise (default deny, forbid overrides, erroring policies do not count) *)
Theorem c01_decision_deny :
  forall (evalp : policy -> res bool) (ps : list policy),
    rdecision (authorize_with evalp ps) = Deny <->
    ~ ((exists p, In p ps /\ peffect p = Permit /\ evalp p = Ok true) /\
       ~ (exists p, In p ps /\ peffect p = Forbid /\ evalp p = Ok true)).
Proof. exact decision_deny_iff. Qed.
Print Assumptions c01_decision_deny.

(* diagnostics.errors = exactly the erroring policies, by id, with their error *)
Theorem c01_errors :
  forall (evalp : policy -> res bool) (ps : list policy) (i : str) (e : err),
    In (i, e) (rerrors (authorize_with evalp ps)) <->
    exists p, In p ps /\ pid p = i /\ evalp p = Err e.
Proof. exact errors_iff. Qed.
Print Assumptions c01_errors.

(* an erroring policy counts as not satisfied *)
Theorem c01_error_not_satisfied :
  forall (evalp : policy -> res bool) (ps : list policy) (i : str) (e : err),
    In (i, e) (rerrors (authorize_with evalp ps)) ->
    exists p, In p ps /\ pid p = i /\ evalp p <> Ok true.
Proof. exact error_not_satisfied. Qed.
Print Assumptions c01_error_not_satisfied.

(* diagnostics.reason = the satisfied forbids if there are any, otherwise the satisfied permits *)
Theorem c01_reasons :
  forall (evalp : policy -> res bool) (ps : list policy) (i : str),
    In i (rreasons (authorize_with evalp ps)) <->
    ((exists p, In p ps /\ peffect p = Forbid /\ evalp p = Ok true) /\
     exists p, In p ps /\ pid p = i /\ peffect p = Forbid /\ evalp p = Ok true) \/
    (~ (exists p, In p ps /\ peffect p = Forbid /\ evalp p = Ok true) /\
     exists p, In p ps /\ pid p = i /\ peffect p = Permit /\ evalp p = Ok true).
Proof. exact reasons_iff. Qed.
Print Assumptions c01_reasons.

(* the response does not depend on policy order *)
Theorem c01_order_independent :
  forall (evalp : policy -> res bool) (ps ps' : list policy),
    Permutation ps ps' ->
    rdecision (authorize_with evalp ps) = rdecision (authorize_with evalp ps') /\
    Permutation (rreasons (authorize_with evalp ps)) (rreasons (authorize_with evalp ps')) /\
    Permutation (rerrors (authorize_with evalp ps)) (rerrors (authorize_with evalp ps')).
Proof.
  intros evalp ps ps' H; destruct (authorize_perm evalp ps ps' H) as [a b c]; exact (conj a (conj b c)).
Qed.
Print Assumptions c01_order_independent.

(* ... nor on how policy ids are spelled: renaming ids renames the response, nothing else *)
Theorem c01_id_spelling :
  forall (q : request) (es : entities) (f : str -> str) (ps : list policy),
    let r := is_authorized ps q es in
    let r' := is_authorized (map (rename_policy f) ps) q es in
    rdecision r' = rdecision r /\ rreasons r' = map f (rreasons r) /\
    rerrors r' = map (fun ie => (f (fst ie), snd ie)) (rerrors r).
Proof.
  intros q es f ps. exact (authorize_rename (eval_policy q es) f (eval_policy_rename q es f) ps).
Qed.
Print Assumptions c01_id_spelling.

(* Non-vacuity: a concrete set mixing a satisfied permit, a satisfied forbid and an erroring permit *)
Example c01_example :
  let mk i eff body := mkPolicy (mkTemplate [i] [] eff CAny AAny CAny (Some body)) None [] in
  let ps := [mk 1%N Permit (Lit (PBool true));
             mk 2%N Forbid (Lit (PBool true));
             mk 3%N Permit (BinApp BAdd (Lit (PLong 1)) (Lit (PString [])))] in
  let u := mkUid [[65%N]] [97%N] in
  let r := is_authorized ps (mkRequest u u u []) [] in
  rdecision r = Deny /\ rreasons r = [[2%N]] /\ rerrors r = [([3%N], ErrType)].
Proof. vm_compute. repeat split. Qed.
