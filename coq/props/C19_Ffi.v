(* C19 — JSON/FFI, stateful cache and CLI front ends give exactly the API answers.
   Property theorems only; each is closed by `exact <lemma>` and followed by Print Assumptions.

   The cache theorems quantify over ARBITRARY parsers (`parse_pset`, `parse_schema`) and an
   arbitrary function `authorize` standing for everything the stateless and the stateful entry
   point do after policies and schema are available (uid/context/request/entities parsing and
   Authorizer::is_authorized): the reference for those is the Rust API, not a model.  What is proved
   is the part the front end adds: the name-indexed cache over call histories.  That the two Rust
   code paths after the look-up coincide is checked by the oracle of vp/props/c19.py, not proved.
   Outside the model: thread-local storage across threads, the wasm bindings. *)
From Cedar Require Import Ffi FfiProofs.

Section C19.
  Variables src pset schema call answer : Type.
  Variable parse_pset : src -> option pset.
  Variable parse_schema : src -> option schema.
  Variable authorize : pset -> option schema -> call -> answer.

  Notation step := (step src pset schema call answer parse_pset parse_schema authorize).
  Notation run := (run src pset schema call answer parse_pset parse_schema authorize).
  Notation trace := (trace src pset schema call answer parse_pset parse_schema authorize).
  Notation reg_pset := (reg_pset src pset call parse_pset).
  Notation reg_schema := (reg_schema src schema call parse_schema).
  Notation spec_of := (spec_of src pset schema call parse_pset parse_schema).
  Notation meets := (meets src pset schema call answer parse_pset parse_schema authorize).

  (* For every history and every stateful call occurring in it: the answer is the one the
     stateless entry point gives on the SOURCES last successfully registered under the names the
     call uses (`meets .. (SpecStateless ps ss)`: stateless ps ss c = SAuth r and the answer is r),
     and a "not found" failure naming exactly the missing kinds when there is no such
     registration. *)
  Theorem c19_stateful :
    forall (h1 h2 : list (op src call)) (sn : option cname) (pn : cname) (c : call),
      exists a, nth_error (trace (h1 ++ StatefulAuth sn pn c :: h2)) (length h1) = Some a
                /\ meets a (spec_of h1 sn pn) c.
  Proof. exact (stateful_in_history src pset schema call answer parse_pset parse_schema authorize). Qed.

  (* the same, for a call issued after the history *)
  Theorem c19_stateful_final :
    forall (h : list (op src call)) (sn : option cname) (pn : cname) (c : call),
      meets (snd (step (run h) (StatefulAuth sn pn c))) (spec_of h sn pn) c.
  Proof. exact (stateful_final src pset schema call answer parse_pset parse_schema authorize). Qed.

  (* the stateful answer is a function of the last successful registrations under the two names
     the call uses — policy set AND schema; nothing else of the history matters *)
  Theorem c19_stateful_depends_only :
    forall (h h' : list (op src call)) (sn : option cname) (pn : cname) (c : call),
      reg_pset h pn = reg_pset h' pn ->
      (forall n, sn = Some n -> reg_schema h n = reg_schema h' n) ->
      snd (step (run h) (StatefulAuth sn pn c)) = snd (step (run h') (StatefulAuth sn pn c)).
  Proof. exact (stateful_depends_only src pset schema call answer parse_pset parse_schema authorize). Qed.

  (* a registration whose source does not parse leaves the cache as it was *)
  Theorem c19_failed_preparse_noop :
    forall (st : state pset schema) (n : cname) (s : src),
      (parse_pset s = None -> step st (PreparsePset n s) = (st, AParse false)) /\
      (parse_schema s = None -> step st (PreparseSchema n s) = (st, AParse false)).
  Proof. exact (failed_preparse_noop src pset schema call answer parse_pset parse_schema authorize). Qed.

  (* authorization calls never change the cache *)
  Theorem c19_auth_readonly :
    forall (st : state pset schema) sn pn (c : call), fst (step st (StatefulAuth sn pn c)) = st.
  Proof. exact (auth_readonly src pset schema call answer parse_pset parse_schema authorize). Qed.

  (* registrations under another name, of the other kind, and authorization calls do not change
     what is registered under a name *)
  Theorem c19_names_independent :
    forall (h : list (op src call)) (n n' : cname) (s : src) (c : call) sn pn,
      (str_eqb n n' = false -> reg_pset (h ++ [PreparsePset n' s]) n = reg_pset h n) /\
      (str_eqb n n' = false -> reg_schema (h ++ [PreparseSchema n' s]) n = reg_schema h n) /\
      reg_pset (h ++ [PreparseSchema n' s]) n = reg_pset h n /\
      reg_schema (h ++ [PreparsePset n' s]) n = reg_schema h n /\
      reg_pset (h ++ [StatefulAuth sn pn c]) n = reg_pset h n /\
      reg_schema (h ++ [StatefulAuth sn pn c]) n = reg_schema h n.
  Proof. exact (names_independent src pset schema call parse_pset parse_schema). Qed.
End C19.
Print Assumptions c19_stateful.
Print Assumptions c19_stateful_final.
Print Assumptions c19_stateful_depends_only.
Print Assumptions c19_failed_preparse_noop.
Print Assumptions c19_auth_readonly.
Print Assumptions c19_names_independent.

(* policies given as one text: the i-th policy carries the id policy<i> *)
Theorem c19_assembly_ids :
  forall (B : Type) (ps : list B) (i : nat) (b : B),
    nth_error ps i = Some b ->
    nth_error (assign_ids (Concatenated ps)) i = Some (policy_id (N.of_nat i), b).
Proof. exact assembly_ids. Qed.
Print Assumptions c19_assembly_ids.

(* ... these ids are pairwise distinct for every length: assembling a text never fails on ids *)
Theorem c19_assembly_text_ok :
  forall (B : Type) (ps : list B), assemble (Concatenated ps) = Some (assign_ids (Concatenated ps)).
Proof. exact assembly_text_ok. Qed.
Print Assumptions c19_assembly_text_ok.

(* policies given as a JSON array: each element is parsed with id None, i.e. `policy0` for a text
   element and `JSON policy` for a JSON element, so two elements of the same kind ALWAYS collide
   (what the code does; finding F-C19-array in notes/C19.md) *)
Theorem c19_assembly_set_fails :
  forall (B : Type) (k : bool) (b1 b2 : B) (l1 l2 l3 : list (bool * B)),
    assemble (SetOf (l1 ++ (k, b1) :: l2 ++ (k, b2) :: l3)) = None.
Proof. exact assembly_set_fails. Qed.
Print Assumptions c19_assembly_set_fails.

(* "every array of well-formed static policies assembles" is FALSE of the faithful model:
   witness = two policies in Cedar text; replayed on the implementation by vp/props/c19.py *)
Theorem c19_assembly_set_refuted :
  exists ps : list (bool * unit),
    (forall kb, In kb ps -> fst kb = false) /\ assemble (SetOf ps) = None.
Proof. exact assembly_set_refuted. Qed.
Print Assumptions c19_assembly_set_refuted.

(* CLI authorize: 0 allow / 2 deny / 1 error, and the status determines the outcome *)
Theorem c19_exit_code :
  exit_code (authorize_exit AoAllow) = 0%N /\ exit_code (authorize_exit AoDeny) = 2%N /\
  exit_code (authorize_exit AoError) = 1%N /\
  (forall o1 o2, exit_code (authorize_exit o1) = exit_code (authorize_exit o2) -> o1 = o2).
Proof. exact exit_code_authorize. Qed.
Print Assumptions c19_exit_code.

(* CLI validate: 1 iff the inputs could not be read, 3 iff validation failed (or warnings with
   --deny-warnings), 0 iff it passed *)
Theorem c19_exit_code_validate :
  forall dw o,
    (exit_code (validate_exit dw o) = 1%N <-> o = VoInputError) /\
    (exit_code (validate_exit dw o) = 3%N <->
       exists p w, o = VoResult p w /\ (p = false \/ (dw = true /\ w = true))) /\
    (exit_code (validate_exit dw o) = 0%N <->
       exists w, o = VoResult true w /\ (dw = false \/ w = false)).
Proof. exact exit_code_validate. Qed.
Print Assumptions c19_exit_code_validate.

(* ---- non-vacuity: a history with re-registration, a failing registration and an unknown name,
   under a parser that accepts even numbers ---- *)
Definition ex_parse (s : N) : option N := if N.even s then Some s else None.
Definition ex_auth (p : N) (s : option N) (c : N) : N * option N * N := (p, s, c).
Definition nA : cname := [65%N].
Definition nB : cname := [66%N].
Definition ex_h : list (op N N) :=
  [PreparsePset nA 2%N; PreparsePset nA 4%N; PreparsePset nA 5%N; PreparseSchema nB 8%N;
   StatefulAuth (Some nB) nA 7%N; StatefulAuth None nB 7%N; StatefulAuth (Some nA) nA 1%N].
Example c19_stateful_ex :
  trace N N N N _ ex_parse ex_parse ex_auth ex_h =
  [AParse true; AParse true; AParse false; AParse true;
   AAuth (4%N, Some 8%N, 7%N); ANotFound false true; ANotFound true false].
Proof. vm_compute. reflexivity. Qed.
Example c19_spec_ex :
  spec_of N N N N ex_parse ex_parse (firstn 4 ex_h) (Some nB) nA = SpecStateless _ 4%N (Some 8%N)
  /\ stateless N N N N _ ex_parse ex_parse ex_auth 4%N (Some 8%N) 7%N = SAuth _ (4%N, Some 8%N, 7%N).
Proof. vm_compute. split; reflexivity. Qed.
Example c19_ids_ex :
  map fst (assign_ids (Concatenated (repeat tt 12))) =
  map policy_id [0;1;2;3;4;5;6;7;8;9;10;11]%N
  /\ policy_id 11 = [112; 111; 108; 105; 99; 121; 49; 49]%N
  /\ assemble (SetOf [(false, tt); (false, tt)]) = None /\ assemble (SetOf [(false, tt)]) = Some [(policy_id 0, tt)]
  /\ assemble (SetOf [(true, tt); (false, tt)]) = Some [(json_policy_id, tt); (policy_id 0, tt)].
Proof. vm_compute. repeat split; reflexivity. Qed.
Example c19_exit_ex :
  exit_code (validate_exit false (VoResult false false)) = 3%N /\
  exit_code (validate_exit true (VoResult true true)) = 3%N /\
  exit_code (validate_exit false (VoResult true true)) = 0%N.
Proof. vm_compute. repeat split; reflexivity. Qed.
