(* C06 — structured policy formats are lossless: the JSON (EST) conversions, expression and
   condition level.  Model: model/Json.v, model/Est.v; lemmas: proofs/EstProofs.v.

   c06_est_expr                 full statement for expressions: every JSON-representable expression
                                (predicate Rep, see EstProofs.v) is read back exactly from the JSON
                                that From<ast::Expr> for est::Expr produces.
   c06_est_conditions_none      a policy without when/unless clauses: `conditions: []` reads back as no body.
   c06_est_conditions           a policy body e is read back exactly from the `conditions` array that
                                From<ast::Template> for est::Policy produces (the absence of duplicate keys
                                in the produced JSON is derived: nodup_expr).
   c06_est_policy               the whole policy / template: id, effect, annotations (order and values), the
                                three scope constraints (all forms, slots, is / is-in) and the body are read
                                back exactly from template_to_est, for every JSON-representable template
                                (TemplateRep, EstPolicyProofs.v).
   c06_est_links                policy sets: the staticPolicies / templates / templateLinks document produced
                                from a set description (ids, member policies, per link: template id, new id,
                                slot bindings) is read back exactly (EstSetRep, EstSetProofs.v).  This is the
                                JSON layer; the construction of the ast-level set from the description
                                (build_pset: add_static / add_template / link of C08) and the extraction
                                pset_to_estset are tied to the implementation by correspondence, and
                                pset_to_estset (build_pset d) ~ d is NOT proved here.
   Not proved (oracle + harness only): c06_text_vs_ast_json, c06_json_meaning, c06_pst, c06_proto
   (no Pst.v / ProtoTree.v model exists). *)
From Coq Require Import String.
From Cedar Require Import EstSet EstProofs EstPolicyProofs EstSetProofs.
Open Scope Z_scope.

Theorem c06_est_expr : forall e, Rep e -> est_to_ast_expr (ast_to_est_expr e) = Ok e.
Proof. exact est_expr_roundtrip. Qed.
Print Assumptions c06_est_expr.

Theorem c06_est_conditions_none : est_to_ast_conditions (ast_to_est_conditions None) = Ok None.
Proof. exact est_conditions_roundtrip_none. Qed.
Print Assumptions c06_est_conditions_none.

Theorem c06_est_conditions : forall e,
  Rep e -> Est.has_slot e = false ->
  est_to_ast_conditions (ast_to_est_conditions (Some e)) = Ok (Some e).
Proof. exact est_conditions_roundtrip_full. Qed.
Print Assumptions c06_est_conditions.

Theorem c06_est_policy : forall t,
  TemplateRep t -> est_to_template (tid t) (template_to_est t) = Ok t.
Proof. exact template_roundtrip. Qed.
Print Assumptions c06_est_policy.

Theorem c06_est_links : forall d,
  EstSetRep d -> est_to_estset (estset_to_est d) = Ok d.
Proof. exact estset_roundtrip. Qed.
Print Assumptions c06_est_links.

(* ---- non-vacuity: a body using every kind of node satisfies the hypotheses ---- *)
Definition ex_user : uid := mkUid [K "NS"; K "User"] (K "a b").
Definition ex_body : expr :=
  And (BinApp BIn (Var Principal) (SetE [Lit (PEntity ex_user)]))
      (If (Is (Var Resource) [K "Photo"])
          (Like (GetAttr (Var Context) (K "s")) [PChar 97; PStar; PChar 42])
          (Or (HasAttr (RecordE [(K "__entity", Lit (PLong (-5))); (K "if", Lit (PString []))]) (K "if"))
              (ExtCall [K "isIpv4"] [ExtCall [K "ip"] [Lit (PString (K "1.2.3.4"))]]))).

Example ex_body_rep : Rep ex_body.
Proof. cbn. repeat split; try reflexivity. exists (K "isIpv4"). split; reflexivity. exists (K "ip"). split; reflexivity. Qed.

Example ex_body_roundtrip :
  est_to_ast_conditions (ast_to_est_conditions (Some ex_body)) = Ok (Some ex_body).
Proof. apply c06_est_conditions; [exact ex_body_rep | reflexivity]. Qed.

Definition ex_template : template :=
  mkTemplate (K "t0") [(K "a", K "x"); (K "if", [])] Forbid
    (CIsIn [K "NS"; K "User"] RefSlot)
    (AIn [mkUid [K "Action"] (K "view"); mkUid [K "NS"; K "Action"] (K "x y")])
    (CEq (RefUid ex_user)) (Some ex_body).
Example ex_template_rep : TemplateRep ex_template.
Proof.
  unfold TemplateRep. cbn. repeat split; try reflexivity;
    try (exists (K "isIpv4"); split; reflexivity); try (exists (K "ip"); split; reflexivity).
Qed.
Example ex_template_roundtrip : est_to_template (K "t0") (template_to_est ex_template) = Ok ex_template.
Proof. apply (c06_est_policy ex_template). exact ex_template_rep. Qed.
(* annotations out of key order are NOT read back in that order (BTreeMap) *)
Example ex_annotations_sorted :
  est_to_template (K "p") (template_to_est (mkTemplate (K "p") [(K "b", []); (K "a", [])] Permit CAny AAny CAny None)) =
  Ok (mkTemplate (K "p") [(K "a", []); (K "b", [])] Permit CAny AAny CAny None).
Proof. reflexivity. Qed.

Definition ex_set : estset :=
  mkEstSet [(K "t0", ex_template)]
           [(K "s0", mkTemplate (K "s0") [] Permit CAny AAny CAny None)]
           [mkLink (K "t0") (K "l0") [(SlotPrincipal, ex_user)]].
Example ex_set_rep : EstSetRep ex_set.
Proof. unfold EstSetRep. cbn. repeat split; try reflexivity;
    try (exists (K "isIpv4"); split; reflexivity); try (exists (K "ip"); split; reflexivity). Qed.
Example ex_set_roundtrip : est_to_estset (estset_to_est ex_set) = Ok ex_set.
Proof. apply c06_est_links. exact ex_set_rep. Qed.
Example ex_set_builds :
  match build_pset ex_set with
  | Ok s => map fst (ps_links s) = [K "s0"; K "l0"] /\ (pset_to_estset s) = ex_set
  | Err _ => False
  end.
Proof. vm_compute. split; reflexivity. Qed.

(* the fragment boundary is real: a folded `&&` and an Unknown are NOT read back *)
Example ex_and_folds :
  est_to_ast_expr (ast_to_est_expr (And (Lit (PBool true)) (Lit (PBool false)))) = Ok (Lit (PBool false)).
Proof. reflexivity. Qed.
Example ex_unknown_becomes_call :
  est_to_ast_expr (ast_to_est_expr (Unknown (K "x") None)) = Ok (ExtCall [K "unknown"] [Lit (PString (K "x"))]).
Proof. reflexivity. Qed.

(* JSON-only forms are desugared as the implementation does *)
Example ex_has_chain :
  est_to_ast_expr (obj1 "has" (JObj [(K "left", obj1 "Var" (JStr (K "principal")));
                                     (K "attr", JArr [JStr (K "a"); JStr (K "b")])])) =
  Ok (And (HasAttr (Var Principal) (K "a")) (HasAttr (GetAttr (Var Principal) (K "a")) (K "b"))).
Proof. reflexivity. Qed.
Example ex_greater :
  est_to_ast_expr (obj1 ">" (lr (obj1 "Value" (JInt 3)) (obj1 "Value" (JInt 2)))) =
  Ok (UnApp UNot (BinApp BLessEq (Lit (PLong 3)) (Lit (PLong 2)))).
Proof. reflexivity. Qed.
