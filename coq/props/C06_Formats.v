(* C06 — structured policy formats are lossless: the JSON (EST) conversions, expression and
   condition level.  Model: model/Json.v, model/Est.v; lemmas: proofs/EstProofs.v.

   c06_est_expr                 full statement for expressions: every JSON-representable expression
                                (predicate Rep, see EstProofs.v) is read back exactly from the JSON
                                that From<ast::Expr> for est::Expr produces.
   c06_est_conditions_none      a policy without when/unless clauses: `conditions: []` reads back as no body.
   c06_est_conditions_partial   a policy body e is read back exactly from the `conditions` array that
                                From<ast::Template> for est::Policy produces.  PARTIAL: carries the side
                                condition json_nodup (ast_to_est_expr e) (no duplicate keys in the produced
                                JSON), which holds for every representable e but is not derived from Rep here;
                                scope constraints, effect, annotations, ids and template links are NOT part of
                                the model: they are covered by the implementation-level oracle only.
   Not proved (oracle + harness only): c06_est_policy, c06_est_links, c06_text_vs_ast_json,
   c06_json_meaning, c06_pst, c06_proto. *)
From Coq Require Import String.
From Cedar Require Import Est EstProofs.
Open Scope Z_scope.

Theorem c06_est_expr : forall e, Rep e -> est_to_ast_expr (ast_to_est_expr e) = Ok e.
Proof. exact est_expr_roundtrip. Qed.
Print Assumptions c06_est_expr.

Theorem c06_est_conditions_none : est_to_ast_conditions (ast_to_est_conditions None) = Ok None.
Proof. exact est_conditions_roundtrip_none. Qed.
Print Assumptions c06_est_conditions_none.

Theorem c06_est_conditions_partial : forall e,
  Rep e -> has_slot e = false -> json_nodup (ast_to_est_expr e) = true ->
  est_to_ast_conditions (ast_to_est_conditions (Some e)) = Ok (Some e).
Proof. exact est_conditions_roundtrip. Qed.
Print Assumptions c06_est_conditions_partial.

(* ---- non-vacuity: a body using every kind of node satisfies the hypotheses ---- *)
Definition ex_user : uid := mkUid [K "NS"; K "User"] (K "a b").
Definition ex_body : expr :=
  And (BinApp BIn (Var Principal) (SetE [Lit (PEntity ex_user)]))
      (If (Is (Var Resource) [K "Photo"])
          (Like (GetAttr (Var Context) (K "s")) [PChar 97; PStar; PChar 42])
          (Or (HasAttr (RecordE [(K "__entity", Lit (PLong (-5))); (K "if", Lit (PString []))]) (K "if"))
              (ExtCall [K "isIpv4"] [ExtCall [K "ip"] [Lit (PString (K "1.2.3.4"))]]))).

Example ex_body_rep : Rep ex_body.
Proof. cbn. repeat split; try reflexivity. exists (K "isIpv4"). split; reflexivity. exists (K "ip"). split; reflexivity. Qed.

Example ex_body_roundtrip :
  est_to_ast_conditions (ast_to_est_conditions (Some ex_body)) = Ok (Some ex_body).
Proof. apply c06_est_conditions_partial; [exact ex_body_rep | reflexivity | reflexivity]. Qed.

(* the fragment boundary is real: a folded `&&` and an Unknown are NOT read back *)
Example ex_and_folds :
  est_to_ast_expr (ast_to_est_expr (And (Lit (PBool true)) (Lit (PBool false)))) = Ok (Lit (PBool false)).
Proof. reflexivity. Qed.
Example ex_unknown_becomes_call :
  est_to_ast_expr (ast_to_est_expr (Unknown (K "x") None)) = Ok (ExtCall [K "unknown"] [Lit (PString (K "x"))]).
Proof. reflexivity. Qed.

(* JSON-only forms are desugared as the implementation does *)
Example ex_has_chain :
  est_to_ast_expr (obj1 "has" (JObj [(K "left", obj1 "Var" (JStr (K "principal")));
                                     (K "attr", JArr [JStr (K "a"); JStr (K "b")])])) =
  Ok (And (HasAttr (Var Principal) (K "a")) (HasAttr (GetAttr (Var Principal) (K "a")) (K "b"))).
Proof. reflexivity. Qed.
Example ex_greater :
  est_to_ast_expr (obj1 ">" (lr (obj1 "Value" (JInt 3)) (obj1 "Value" (JInt 2)))) =
  Ok (UnApp UNot (BinApp BLessEq (Lit (PLong 3)) (Lit (PLong 2)))).
Proof. reflexivity. Qed.
