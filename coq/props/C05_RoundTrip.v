(* C05 — policy text -> AST -> text round trip.
   Proved here (full): the escape stage.  Every string the printer emits through escape_debug
   (string literals, entity ids, annotation values, record keys, quoted attribute names) is read
   back unchanged by to_unescaped_string, and every pattern printed by Display for Pattern is read
   back unchanged by to_pattern — for ALL strings / patterns of scalar values and for EVERY choice
   of the two "rendered as \u{..}" predicates (so the statement does not depend on the Unicode
   tables of the Rust standard library).
   c05_expr_roundtrip (below, full for expressions): the token-level round trip  parse (print e) = e
   for every printable expression; c05_meaning: printing never changes meaning.
   Not proved (see notes/C05.md): c05_lex_render (checked executably on every case),
   c05_policy_roundtrip, c05_policyset. *)
From Cedar Require Import Unescape UnescapeProofs Relex RelexProofs Eval Printable ParseProofs3.
Open Scope N_scope.

Theorem c05_escape :
  forall (np ge : N -> bool) (s : str),
    wf_str s = true -> to_unescaped_string (escape_debug np ge s) = UOk s.
Proof. exact unescape_escape. Qed.
Print Assumptions c05_escape.

Theorem c05_escape_pattern :
  forall (np ge : N -> bool) (p : pattern),
    wf_pattern p = true -> to_pattern (show_pattern np ge p) = UOk p.
Proof. exact to_pattern_show. Qed.
Print Assumptions c05_escape_pattern.

(* the part of c05_lex_render that concerns quoted text: what the printer puts between quotes
   (escape_debug for strings / ids / keys / annotation values, Display for Pattern) matches the inside
   of the STRINGLIT token regex — no bare quote, no dangling backslash, no backslash-newline — so it
   lexes back as ONE string token, whose content is then recovered by c05_escape / c05_escape_pattern. *)
Theorem c05_escape_relex :
  forall (np ge : N -> bool) (s : str), stringlit_inside (escape_debug np ge s) = true.
Proof. exact escape_debug_relexes. Qed.
Print Assumptions c05_escape_relex.

Theorem c05_escape_pattern_relex :
  forall (np ge : N -> bool) (p : pattern), stringlit_inside (show_pattern np ge p) = true.
Proof. exact show_pattern_relexes. Qed.
Print Assumptions c05_escape_pattern_relex.

Example c05_relex_ex :
  stringlit_inside [97; 34] = false /\ stringlit_inside [92] = false /\ stringlit_inside [92; 10] = false /\
  stringlit_inside [92; 34; 92; 92] = true.
Proof. vm_compute. repeat split. Qed.

(* non-vacuity: concrete strings / patterns with quotes, backslash, NUL, star, a combining mark and a
   non-BMP character; predicates that escape the combining mark and U+200B *)
Example c05_escape_ex :
  let np := fun c => c =? 8203 in let ge := fun c => c =? 769 in
  let s := [769; 34; 92; 0; 42; 10; 39; 128512; 8203; 769; 97] in
  wf_str s = true /\
  escape_debug np ge s =
    [92;117;123;51;48;49;125; 92;34; 92;92; 92;48; 42; 92;110; 92;39; 128512; 92;117;123;50;48;48;98;125; 769; 97] /\
  to_unescaped_string (escape_debug np ge s) = UOk s.
Proof. vm_compute. repeat split. Qed.

Example c05_escape_pattern_ex :
  let np := fun c => c =? 8203 in let ge := fun c => c =? 769 in
  let p := [PChar 97; PStar; PChar 42; PChar 92; PChar 769; PStar; PChar 34] in
  wf_pattern p = true /\
  show_pattern np ge p = [97; 42; 92;42; 92;92; 92;117;123;51;48;49;125; 42; 92;34] /\
  to_pattern (show_pattern np ge p) = UOk p.
Proof. vm_compute. repeat split. Qed.

(* the reject side of the escape reader: forms the implementation refuses *)
Example c05_unescape_rejects :
  to_unescaped_string [92; 42] = UErr /\                      (* \* outside a pattern *)
  to_unescaped_string [92; 117; 123; 100; 56; 48; 48; 125] = UErr /\   (* \u{d800} *)
  to_unescaped_string [92; 120; 56; 48] = UErr /\             (* \x80 *)
  to_unescaped_string [92; 117; 123; 95; 52; 49; 125] = UErr /\ (* \u{_41} *)
  to_unescaped_string [92; 117; 123; 52; 95; 49; 125] = UOk [65] /\ (* \u{4_1} *)
  to_pattern [92; 117; 123; 50; 97; 125; 92; 42] = UOk [PStar; PChar 42].
Proof. vm_compute. repeat split. Qed.

(* ---- the expression round trip on token lists: FULL for expressions ----
   For EVERY printable expression (Printable.printable: the closed description of the ASTs the lowering
   of cst_to_ast can produce — i64 literals, scalar-value strings, identifier names that are not
   reserved, And/Or not of two boolean literals, known extension functions with their call style,
   strictly key-sorted records, no Unknown) parsing the printed token list gives the expression back:
   all literals (negative ones and i64::MIN print as (-N)), variables, slots, ! and -, the infix
   operators with their left-associative chains printed without parentheses, && ||, if-then-else,
   attribute chains .a / ["a b"], has / like / is, method calls (.contains .. .hasTag, .isEmpty and
   method-style extension functions), function-style extension calls, set and record literals (keys
   in identifier or string form), nested arbitrarily. *)
Theorem c05_expr_roundtrip :
  forall (np ge : N -> bool) (e : expr),
    printable e = true -> parse_expr_toks (print_toks np ge e) = Some e.
Proof. exact expr_roundtrip. Qed.
Print Assumptions c05_expr_roundtrip.

(* with a continuation: the parser stops exactly at the end of the printed expression whenever the
   next token cannot continue an expression (follow_ok 0) *)
Theorem c05_expr_roundtrip_rest :
  forall (np ge : N -> bool) (e : expr) (rest : list token),
    printable e = true -> follow_ok 0 rest = true ->
    parse_expr (S (length (print_toks np ge e ++ rest))) (print_toks np ge e ++ rest)
      = Some (sp np ge e, rest) /\ into_expr (sp np ge e) = Some e.
Proof. exact expr_roundtrip_rest. Qed.
Print Assumptions c05_expr_roundtrip_rest.

(* printing never changes meaning: what the parser reads back from the printed tokens evaluates
   exactly like the original, on every request, entity store and slot environment (Eval.eval of C02) *)
Theorem c05_meaning :
  forall (np ge : N -> bool) (e : expr),
    printable e = true ->
    exists e', parse_expr_toks (print_toks np ge e) = Some e' /\
               forall sl q es, eval sl q es e' = eval sl q es e.
Proof.
  intros np ge e Hp. exists e. split; [apply expr_roundtrip; exact Hp|reflexivity].
Qed.
Print Assumptions c05_meaning.

(* non-vacuity: a printable expression of the fragment using most constructs (if, &&, ||, has, like, is,
   attribute chains with identifier and quoted names, !, unary minus, i64::MIN, -, ==, an entity id with a quote) *)
Example c05_expr_roundtrip_ex :
  let np := fun c => c =? 8203 in let ge := fun c => c =? 769 in
  let e := If (And (HasAttr (GetAttr (GetAttr (Var Principal) [97]) [98; 32; 99]) [120; 32; 121])
                   (UnApp UNot (BinApp BLess (UnApp UNeg (Lit (PLong 1)))
                                  (BinApp BMul (Lit (PLong (-9223372036854775808))) (Lit (PLong 2))))))
             (Like (GetAttr (RecordE [([97], SetE [Lit (PLong 1); ExtCall [[100;101;99;105;109;97;108]] [Lit (PString [49;46;48])]]); ([98;32;99], BinApp BContains (SetE []) (UnApp UIsEmpty (Var Context)))]) [97]) [PChar 97; PStar; PChar 42])
             (Or (Is (Lit (PEntity (mkUid [[65]; [66]] [113; 34]))) [[65]; [66]])
                 (And (And (BinApp BEq (BinApp BSub (BinApp BSub (Lit (PLong 1)) (BinApp BSub (Lit (PLong 2)) (Lit (PLong 3)))) (Lit (PLong 5))) (Lit (PLong 4)))
                           (Var Principal)) (BinApp BLess (BinApp BMul (BinApp BMul (Lit (PLong 2)) (Lit (PLong 3))) (Lit (PLong 4))) (BinApp BAdd (BinApp BAdd (Lit (PLong 1)) (Lit (PLong 1))) (Lit (PLong 1)))))) in
  printable e = true /\ parse_expr_toks (print_toks np ge e) = Some e.
Proof. vm_compute. repeat split. Qed.
