(* C05 — policy text -> AST -> text round trip.
   Proved here (full): the escape stage.  Every string the printer emits through escape_debug
   (string literals, entity ids, annotation values, record keys, quoted attribute names) is read
   back unchanged by to_unescaped_string, and every pattern printed by Display for Pattern is read
   back unchanged by to_pattern — for ALL strings / patterns of scalar values and for EVERY choice
   of the two "rendered as \u{..}" predicates (so the statement does not depend on the Unicode
   tables of the Rust standard library).
   c05_expr_roundtrip_partial (below): the token-level round trip  parse (print e) = e  for printable
   expressions of the fragment Printable.in_fragment; the constructs outside the fragment are listed
   there.  Not proved (see notes/C05.md): c05_lex_render, c05_policy_roundtrip, c05_policyset. *)
From Cedar Require Import Unescape UnescapeProofs Relex RelexProofs Printable ParseProofs3.
Open Scope N_scope.

Theorem c05_escape :
  forall (np ge : N -> bool) (s : str),
    wf_str s = true -> to_unescaped_string (escape_debug np ge s) = UOk s.
Proof. exact unescape_escape. Qed.
Print Assumptions c05_escape.

Theorem c05_escape_pattern :
  forall (np ge : N -> bool) (p : pattern),
    wf_pattern p = true -> to_pattern (show_pattern np ge p) = UOk p.
Proof. exact to_pattern_show. Qed.
Print Assumptions c05_escape_pattern.

(* the part of c05_lex_render that concerns quoted text: what the printer puts between quotes
   (escape_debug for strings / ids / keys / annotation values, Display for Pattern) matches the inside
   of the STRINGLIT token regex — no bare quote, no dangling backslash, no backslash-newline — so it
   lexes back as ONE string token, whose content is then recovered by c05_escape / c05_escape_pattern. *)
Theorem c05_escape_relex :
  forall (np ge : N -> bool) (s : str), stringlit_inside (escape_debug np ge s) = true.
Proof. exact escape_debug_relexes. Qed.
Print Assumptions c05_escape_relex.

Theorem c05_escape_pattern_relex :
  forall (np ge : N -> bool) (p : pattern), stringlit_inside (show_pattern np ge p) = true.
Proof. exact show_pattern_relexes. Qed.
Print Assumptions c05_escape_pattern_relex.

Example c05_relex_ex :
  stringlit_inside [97; 34] = false /\ stringlit_inside [92] = false /\ stringlit_inside [92; 10] = false /\
  stringlit_inside [92; 34; 92; 92] = true.
Proof. vm_compute. repeat split. Qed.

(* non-vacuity: concrete strings / patterns with quotes, backslash, NUL, star, a combining mark and a
   non-BMP character; predicates that escape the combining mark and U+200B *)
Example c05_escape_ex :
  let np := fun c => c =? 8203 in let ge := fun c => c =? 769 in
  let s := [769; 34; 92; 0; 42; 10; 39; 128512; 8203; 769; 97] in
  wf_str s = true /\
  escape_debug np ge s =
    [92;117;123;51;48;49;125; 92;34; 92;92; 92;48; 42; 92;110; 92;39; 128512; 92;117;123;50;48;48;98;125; 769; 97] /\
  to_unescaped_string (escape_debug np ge s) = UOk s.
Proof. vm_compute. repeat split. Qed.

Example c05_escape_pattern_ex :
  let np := fun c => c =? 8203 in let ge := fun c => c =? 769 in
  let p := [PChar 97; PStar; PChar 42; PChar 92; PChar 769; PStar; PChar 34] in
  wf_pattern p = true /\
  show_pattern np ge p = [97; 42; 92;42; 92;92; 92;117;123;51;48;49;125; 42; 92;34] /\
  to_pattern (show_pattern np ge p) = UOk p.
Proof. vm_compute. repeat split. Qed.

(* the reject side of the escape reader: forms the implementation refuses *)
Example c05_unescape_rejects :
  to_unescaped_string [92; 42] = UErr /\                      (* \* outside a pattern *)
  to_unescaped_string [92; 117; 123; 100; 56; 48; 48; 125] = UErr /\   (* \u{d800} *)
  to_unescaped_string [92; 120; 56; 48] = UErr /\             (* \x80 *)
  to_unescaped_string [92; 117; 123; 95; 52; 49; 125] = UErr /\ (* \u{_41} *)
  to_unescaped_string [92; 117; 123; 52; 95; 49; 125] = UOk [65] /\ (* \u{4_1} *)
  to_pattern [92; 117; 123; 50; 97; 125; 92; 42] = UOk [PStar; PChar 42].
Proof. vm_compute. repeat split. Qed.

(* ---- the expression round trip on token lists (partial: Printable.in_fragment) ----
   FULL STATEMENT (not proved):  forall e, printable e = true -> parse_expr_toks (print_toks np ge e) = Some e.
   PROVED: the same with the additional hypothesis in_fragment e = true, which excludes
   record literals only.  Inside the fragment: method calls (.contains .. .hasTag, .isEmpty, method-style
   extension functions), function-style extension calls, set literals, all literals (incl. negative and i64::MIN, strings and entity ids with
   arbitrary scalar values), variables, slots, !, -, == < <= in + - *, && || (including the
   left-associative chains a && b && c, a + b + c, a - b - c, a * b * c that are printed without
   parentheses), if-then-else, .attr and [attr] chains, has, like, is — nested arbitrarily.
   The statement with a continuation `rest` says the parser stops exactly at the end of the printed
   expression whenever the next token cannot continue an expression (follow_ok 0). *)
Theorem c05_expr_roundtrip_partial :
  forall (np ge : N -> bool) (e : expr),
    printable e = true -> in_fragment e = true ->
    parse_expr_toks (print_toks np ge e) = Some e.
Proof. exact expr_roundtrip. Qed.
Print Assumptions c05_expr_roundtrip_partial.

Theorem c05_expr_roundtrip_rest_partial :
  forall (np ge : N -> bool) (e : expr) (rest : list token),
    printable e = true -> in_fragment e = true -> follow_ok 0 rest = true ->
    parse_expr (S (length (print_toks np ge e ++ rest))) (print_toks np ge e ++ rest)
      = Some (sp np ge e, rest) /\ into_expr (sp np ge e) = Some e.
Proof. exact expr_roundtrip_rest. Qed.
Print Assumptions c05_expr_roundtrip_rest_partial.

(* non-vacuity: a printable expression of the fragment using most constructs (if, &&, ||, has, like, is,
   attribute chains with identifier and quoted names, !, unary minus, i64::MIN, -, ==, an entity id with a quote) *)
Example c05_expr_roundtrip_ex :
  let np := fun c => c =? 8203 in let ge := fun c => c =? 769 in
  let e := If (And (HasAttr (GetAttr (GetAttr (Var Principal) [97]) [98; 32; 99]) [120; 32; 121])
                   (UnApp UNot (BinApp BLess (UnApp UNeg (Lit (PLong 1)))
                                  (BinApp BMul (Lit (PLong (-9223372036854775808))) (Lit (PLong 2))))))
             (Like (Var Context) [PChar 97; PStar; PChar 42])
             (Or (Is (Lit (PEntity (mkUid [[65]; [66]] [113; 34]))) [[65]; [66]])
                 (And (And (BinApp BEq (BinApp BSub (BinApp BSub (Lit (PLong 1)) (BinApp BSub (Lit (PLong 2)) (Lit (PLong 3)))) (Lit (PLong 5))) (Lit (PLong 4)))
                           (Var Principal)) (BinApp BLess (BinApp BMul (BinApp BMul (Lit (PLong 2)) (Lit (PLong 3))) (Lit (PLong 4))) (BinApp BAdd (BinApp BAdd (Lit (PLong 1)) (Lit (PLong 1))) (Lit (PLong 1)))))) in
  printable e = true /\ in_fragment e = true /\ parse_expr_toks (print_toks np ge e) = Some e.
Proof. vm_compute. repeat split. Qed.
