(* C11 — Schema conformance checks accept exactly conformant requests, contexts and entities,
   through every entry point that takes a schema.
   Property theorems only; each is closed by `exact <lemma>` (proofs/ConformProofs.v) and followed by
   Print Assumptions.

   The checkers (model/Conform.v part 1, transcribed from conformance.rs / coreschema.rs / types.rs)
   are proved EQUAL to the declarative specification ValueConforms / EntityConforms / RequestConforms
   (model/Conform.v part 3, written from the property text) for ALL schemas and data.
   Hypothesis `schema_wf sch = true` (entity theorems only): the representation invariants of a
   resolved schema (attribute maps duplicate-free at every depth; declared types are types a schema
   can produce; action ids have basename Action) — evaluated on every generated schema by the check.

   Full: c11_value, c11_entity, c11_request, c11_context, all c11_reject_*, c11_entry_add,
         c11_entry_upsert, c11_entry_from_entities, c11_entry_request_new, c11_entry_context_validate,
         c11_entry_same_checker, c11_no_schematype_panic.
   Partial: c11_entry_json_partial — the JSON entry points are proved SOUND (accept => conformant, same
         checker after the parse); that the type-directed parse never rejects a conformant datum is
         compared by correspondence only (the model answers Unmodelled on implicit escapes).
   Refuted: c11_context_from_json_refuted — the faithful model of Context::from_json_* accepts a
         datum that violates the schema (finding F-d, replayed on the implementation by the check). *)
From Coq Require Import String.
From Cedar Require Import Conform ConformProofs.
Open Scope string_scope.

(* ---- the checkers accept exactly the conformant data *)
Theorem c11_value :
  forall sch v t, conf_value sch v t = true <-> ValueConforms sch v t.
Proof. exact conf_value_iff. Qed.
Print Assumptions c11_value.

Theorem c11_entity :
  forall sch e, schema_wf sch = true -> (conf_entity sch e = None <-> EntityConforms sch e).
Proof. exact conf_entity_iff. Qed.
Print Assumptions c11_entity.

Theorem c11_request :
  forall sch q, conf_request sch q = None <-> RequestConforms sch q.
Proof. exact conf_request_iff. Qed.
Print Assumptions c11_request.

Theorem c11_context :
  forall sch a ctx, conf_context sch a ctx = None <-> ContextConforms sch a ctx.
Proof. exact conf_context_iff. Qed.
Print Assumptions c11_context.

(* the entity checker (SchemaType route) and the context checker (validator Type route) decide the
   same typing relation on every declared type *)
Theorem c11_checkers_agree :
  forall t, decl_ty_ok t = true ->
  exists st, to_sty t = Some st /\ forall v, tc_value_st v st = tc_value_ty v t.
Proof. exact st_agrees. Qed.
Print Assumptions c11_checkers_agree.

(* the Rust `expect` on the Type -> SchemaType conversion cannot fire on a well-formed schema *)
Theorem c11_no_schematype_panic :
  forall sch e, schema_wf sch = true -> conf_entity sch e <> Some CSchemaType.
Proof. exact conf_entity_not_schematype. Qed.
Print Assumptions c11_no_schematype_panic.

(* ---- one rejection lemma per single-fault class *)
(* wrong type *)
Theorem c11_reject_wrong_type :
  forall sch v t, ~ TypeConforms v t -> conf_value sch v t = false.
Proof. exact reject_wrong_type. Qed.
Print Assumptions c11_reject_wrong_type.

(* any fault inside a set element / a record field rejects the enclosing value: any nesting depth *)
Theorem c11_reject_nested_in_set :
  forall sch x l e, In x l -> conf_value sch x e = false -> conf_value sch (VSet l) (TSet (Some e)) = false.
Proof. exact reject_in_set. Qed.
Print Assumptions c11_reject_nested_in_set.

Theorem c11_reject_nested_in_record :
  forall sch k x kvs attrs open t r,
    In (k, x) kvs -> lookup k attrs = Some (t, r) -> conf_value sch x t = false ->
    conf_value sch (VRecord kvs) (TRecord attrs open) = false.
Proof. exact reject_in_record. Qed.
Print Assumptions c11_reject_nested_in_record.

(* required attribute missing (nested record / entity) *)
Theorem c11_reject_missing_required_nested :
  forall sch k t kvs attrs open,
    In (k, (t, true)) attrs -> has_key k kvs = false -> conf_value sch (VRecord kvs) (TRecord attrs open) = false.
Proof. exact reject_missing_required_field. Qed.
Print Assumptions c11_reject_missing_required_nested.

Theorem c11_reject_missing_required :
  forall sch, schema_wf sch = true -> forall u d i,
    is_action_type (uty u) = false -> find_etype sch (uty u) = Some i ->
    forall k, In k (required_attrs i) -> has_key k (eattrs d) = false -> conf_entity sch (u, d) <> None.
Proof. exact reject_missing_required_attr. Qed.
Print Assumptions c11_reject_missing_required.

(* undeclared attribute (nested record / entity) *)
Theorem c11_reject_undeclared_attr_nested :
  forall sch k x kvs attrs,
    In (k, x) kvs -> lookup k attrs = None -> conf_value sch (VRecord kvs) (TRecord attrs false) = false.
Proof. exact reject_undeclared_field. Qed.
Print Assumptions c11_reject_undeclared_attr_nested.

Theorem c11_reject_undeclared_attr :
  forall sch, schema_wf sch = true -> forall u d i,
    is_action_type (uty u) = false -> find_etype sch (uty u) = Some i ->
    forall k v, In (k, v) (eattrs d) -> lookup k (et_attrs i) = None -> et_open i = false ->
    conf_entity sch (u, d) <> None.
Proof. exact reject_undeclared_attr. Qed.
Print Assumptions c11_reject_undeclared_attr.

(* attribute value not of the declared type (at any depth, by the nested lemmas) *)
Theorem c11_reject_attr_wrong_type :
  forall sch, schema_wf sch = true -> forall u d i,
    is_action_type (uty u) = false -> find_etype sch (uty u) = Some i ->
    forall k v t r, In (k, v) (eattrs d) -> lookup k (et_attrs i) = Some (t, r) -> conf_value sch v t = false ->
    conf_entity sch (u, d) <> None.
Proof. exact reject_attr_wrong_type. Qed.
Print Assumptions c11_reject_attr_wrong_type.

(* tags *)
Theorem c11_reject_tag_wrong_type :
  forall sch, schema_wf sch = true -> forall u d i,
    is_action_type (uty u) = false -> find_etype sch (uty u) = Some i ->
    forall k v t, In (k, v) (etags d) -> et_tags i = Some t -> conf_value sch v t = false ->
    conf_entity sch (u, d) <> None.
Proof. exact reject_tag_wrong_type. Qed.
Print Assumptions c11_reject_tag_wrong_type.

Theorem c11_reject_tag_on_tagless_type :
  forall sch, schema_wf sch = true -> forall u d i,
    is_action_type (uty u) = false -> find_etype sch (uty u) = Some i ->
    forall k v, In (k, v) (etags d) -> et_tags i = None -> conf_entity sch (u, d) <> None.
Proof. exact reject_tag_on_tagless_type. Qed.
Print Assumptions c11_reject_tag_on_tagless_type.

(* ancestors *)
Theorem c11_reject_bad_ancestor_type :
  forall sch, schema_wf sch = true -> forall u d i,
    is_action_type (uty u) = false -> find_etype sch (uty u) = Some i ->
    forall a, In a (eancestors d) -> ~ PermittedAncestorType sch (uty u) (uty a) -> conf_entity sch (u, d) <> None.
Proof. exact reject_bad_ancestor_type. Qed.
Print Assumptions c11_reject_bad_ancestor_type.

(* enumerated ids: wherever they occur *)
Theorem c11_reject_enum_id_in_value :
  forall sch u v t i ch,
    UidIn u v -> find_etype sch (uty u) = Some i -> et_enum i = Some ch -> ~ In (ueid u) ch ->
    conf_value sch v t = false.
Proof. exact reject_enum_id_anywhere. Qed.
Print Assumptions c11_reject_enum_id_in_value.

Theorem c11_enum_id_invalid :
  forall sch u i ch, find_etype sch (uty u) = Some i -> et_enum i = Some ch -> ~ In (ueid u) ch -> ~ UidValid sch u.
Proof. exact enum_id_invalid. Qed.
Print Assumptions c11_enum_id_invalid.

Theorem c11_reject_invalid_uid_in_open_attr :
  forall sch, schema_wf sch = true -> forall u d i,
    is_action_type (uty u) = false -> find_etype sch (uty u) = Some i ->
    forall k v, In (k, v) (eattrs d) -> lookup k (et_attrs i) = None -> ~ UidsValid sch v ->
    conf_entity sch (u, d) <> None.
Proof. exact reject_open_attr_invalid_uid. Qed.
Print Assumptions c11_reject_invalid_uid_in_open_attr.

Theorem c11_reject_invalid_ancestor_uid :
  forall sch, schema_wf sch = true -> forall u d i,
    is_action_type (uty u) = false -> find_etype sch (uty u) = Some i ->
    forall a, In a (eancestors d) -> ~ UidValid sch a -> conf_entity sch (u, d) <> None.
Proof. exact reject_invalid_ancestor_uid. Qed.
Print Assumptions c11_reject_invalid_ancestor_uid.

Theorem c11_reject_invalid_own_uid :
  forall sch, schema_wf sch = true -> forall u d i,
    is_action_type (uty u) = false -> find_etype sch (uty u) = Some i ->
    ~ UidValid sch u -> conf_entity sch (u, d) <> None.
Proof. exact reject_invalid_own_uid. Qed.
Print Assumptions c11_reject_invalid_own_uid.

(* undeclared entity type / action; action not identical to its schema definition *)
Theorem c11_reject_undeclared_entity_type :
  forall sch u d, is_action_type (uty u) = false -> find_etype sch (uty u) = None ->
    conf_entity sch (u, d) = Some CUnexpectedEntityType.
Proof. exact reject_undeclared_entity_type. Qed.
Print Assumptions c11_reject_undeclared_entity_type.

Theorem c11_reject_undeclared_action :
  forall sch u d, is_action_type (uty u) = true -> find_action sch u = None ->
    conf_entity sch (u, d) = Some CUndeclaredAction.
Proof. exact reject_undeclared_action_entity. Qed.
Print Assumptions c11_reject_undeclared_action.

Theorem c11_reject_undeclared_action_uid_in_value :
  forall sch u v t, UidIn u v -> is_action_type (uty u) = true -> find_action sch u = None -> conf_value sch v t = false.
Proof. exact reject_undeclared_action_uid_anywhere. Qed.
Print Assumptions c11_reject_undeclared_action_uid_in_value.

Theorem c11_reject_action_mismatch :
  forall sch u d, is_action_type (uty u) = true ->
    (eattrs d <> [] \/ etags d <> [] \/ ~ (forall a, In a (eancestors d) <-> In a (action_ancestors sch u))) ->
    conf_entity sch (u, d) <> None.
Proof. exact reject_action_mismatch. Qed.
Print Assumptions c11_reject_action_mismatch.

(* requests *)
Theorem c11_reject_request_undeclared_action :
  forall sch q, find_action sch (raction q) = None -> conf_request sch q <> None.
Proof. exact reject_request_undeclared_action. Qed.
Print Assumptions c11_reject_request_undeclared_action.

Theorem c11_reject_principal_not_in_applies_to :
  forall sch q ai, find_action sch (raction q) = Some ai -> ~ In (uty (rprincipal q)) (ai_principals ai) ->
    conf_request sch q <> None.
Proof. exact reject_request_principal_not_applicable. Qed.
Print Assumptions c11_reject_principal_not_in_applies_to.

Theorem c11_reject_resource_not_in_applies_to :
  forall sch q ai, find_action sch (raction q) = Some ai -> ~ In (uty (rresource q)) (ai_resources ai) ->
    conf_request sch q <> None.
Proof. exact reject_request_resource_not_applicable. Qed.
Print Assumptions c11_reject_resource_not_in_applies_to.

Theorem c11_reject_request_context :
  forall sch q ai, find_action sch (raction q) = Some ai ->
    conf_value sch (VRecord (rcontext q)) (ai_context ai) = false -> conf_request sch q <> None.
Proof. exact reject_request_context. Qed.
Print Assumptions c11_reject_request_context.

Theorem c11_reject_request_scope_var :
  forall sch q, ~ ScopeVarConforms sch (rprincipal q) \/ ~ ScopeVarConforms sch (rresource q) ->
    conf_request sch q <> None.
Proof. exact reject_request_scope_var. Qed.
Print Assumptions c11_reject_request_scope_var.

(* ---- entry points *)
Theorem c11_entry_add :
  forall sch es, schema_wf sch = true ->
    (ep_add_entities sch es = Accept <-> forall e, In e es -> EntityConforms sch e).
Proof. exact ep_add_iff. Qed.
Print Assumptions c11_entry_add.

Theorem c11_entry_upsert :
  forall sch es, schema_wf sch = true ->
    (ep_upsert_entities sch es = Accept <-> forall e, In e es -> EntityConforms sch e).
Proof. exact ep_upsert_iff. Qed.
Print Assumptions c11_entry_upsert.

(* from_entities: non-action entities as given, action entities after the ancestor closure *)
Theorem c11_entry_from_entities :
  forall sch es, schema_wf sch = true ->
    (ep_from_entities sch es = Accept <->
     (forall e, In e es -> is_action_entity e = false -> EntityConforms sch e) /\
     (forall e, In e (tc_close es) -> is_action_entity e = true -> EntityConforms sch e)).
Proof. exact ep_from_entities_iff. Qed.
Print Assumptions c11_entry_from_entities.

Theorem c11_entry_request_new :
  forall sch q, ep_request_new sch q = Accept <-> RequestConforms sch q.
Proof. exact ep_request_new_iff. Qed.
Print Assumptions c11_entry_request_new.

Theorem c11_entry_context_validate :
  forall sch a ctx, ep_context_validate sch a ctx = Accept <-> ContextConforms sch a ctx.
Proof. exact ep_context_validate_iff. Qed.
Print Assumptions c11_entry_context_validate.

(* every modelled entry point calls the same checker (conf_entity on every incoming entity /
   conf_request / conf_context), the JSON ones after the type-directed parse *)
Theorem c11_entry_same_checker :
  forall sch,
  (forall e, ep_entity_from_json sch e = after_parse (jparse_entity sch e) (conf_entity sch e)) /\
  (forall es, ep_entities_from_json sch es = after_parse (jres_all (jparse_entity sch) es) (ep_from_entities_r sch es)) /\
  (forall es, ep_add_entities_from_json sch es = after_parse (jres_all (jparse_entity sch) es) (first_err (conf_entity sch) es)) /\
  (forall es, ep_add_entities sch es = verdict_of (first_err (conf_entity sch) es)) /\
  (forall es, ep_upsert_entities sch es = verdict_of (first_err (conf_entity sch) es)) /\
  (forall es, ep_from_entities sch es =
     verdict_of (cthen (first_err (conf_entity sch) (filter (fun e => negb (is_action_entity e)) es))
                       (first_err (conf_entity sch) (filter is_action_entity (tc_close es))))) /\
  (forall q, ep_request_new sch q = verdict_of (conf_request sch q)) /\
  (forall a c, ep_context_validate sch a c = verdict_of (conf_context sch a c)).
Proof. exact ep_json_same_checker. Qed.
Print Assumptions c11_entry_same_checker.

(* JSON entry points: PARTIAL — soundness only (see header) *)
Theorem c11_entry_json_partial :
  forall sch, schema_wf sch = true ->
  (forall e, ep_entity_from_json sch e = Accept -> EntityConforms sch e) /\
  (forall es, ep_entities_from_json sch es = Accept -> ep_from_entities sch es = Accept) /\
  (forall es, ep_add_entities_from_json sch es = Accept -> forall e, In e es -> EntityConforms sch e).
Proof.
  intros sch Hwf. split; [|split].
  - intros e. exact (ep_entity_from_json_sound sch e Hwf).
  - intros es. exact (ep_entities_from_json_sound sch es Hwf).
  - intros es. exact (ep_add_entities_from_json_sound sch es Hwf).
Qed.
Print Assumptions c11_entry_json_partial.

(* ---- REFUTED for Context::from_json_*(json, Some((schema, action))): the model of what the code
   does (type-directed parse only) accepts a context that violates the schema, while
   Context::validate rejects it.  Witness: context {n: "x"} for `n: Long` (and an undeclared
   enumerated id).  Replayed on the implementation by the check: finding F-d. *)
Theorem c11_context_from_json_refuted :
  exists sch a ctx,
    schema_wf sch = true /\
    ep_context_from_json sch a ctx = Accept /\
    ~ ContextConforms sch a ctx /\
    ep_context_validate sch a ctx = Reject CInvalidContext.
Proof. exact context_from_json_refuted. Qed.
Print Assumptions c11_context_from_json_refuted.

Theorem c11_context_from_json_refuted_enum :
  exists sch a ctx,
    schema_wf sch = true /\
    ep_context_from_json sch a ctx = Accept /\
    ~ ContextConforms sch a ctx /\
    ep_context_validate sch a ctx = Reject CInvalidEnumEntity.
Proof. exact context_from_json_refuted_enum. Qed.
Print Assumptions c11_context_from_json_refuted_enum.

(* ---- non-vacuity: the hypotheses are satisfiable and both verdicts occur *)
Example c11_ex_schema_wf : schema_wf ex_schema = true.
Proof. vm_compute. reflexivity. Qed.

Example c11_ex_entity_conforms : EntityConforms ex_schema ex_alice.
Proof. apply (c11_entity ex_schema ex_alice c11_ex_schema_wf). vm_compute. reflexivity. Qed.

Example c11_ex_request_conforms : RequestConforms ex_schema ex_request.
Proof. apply c11_request. vm_compute. reflexivity. Qed.

Example c11_ex_action_conforms :
  EntityConforms ex_schema (ex_view, mkEdata [] [] [ex_all]).
Proof. apply (c11_entity _ _ c11_ex_schema_wf). vm_compute. reflexivity. Qed.

(* an enumerated id nested in a set inside a record attribute *)
Example c11_ex_enum_nested_rejected :
  conf_entity ex_schema
    (ex_uid ex_user "alice",
     mkEdata [(s2str "n", VLong 1);
              (s2str "r", VRecord [(s2str "z", VSet [VEntity (ex_uid ex_color "blue")])])] [] [])
  = Some CInvalidEnumEntity.
Proof. vm_compute. reflexivity. Qed.

Example c11_ex_missing_required_nested_rejected :
  conf_entity ex_schema
    (ex_uid ex_user "alice", mkEdata [(s2str "n", VLong 1); (s2str "r", VRecord [])] [] [])
  = Some CTypeMismatch.
Proof. vm_compute. reflexivity. Qed.

Example c11_ex_bad_ancestor_rejected :
  ep_upsert_entities ex_schema
    [(ex_uid ex_user "alice", mkEdata [(s2str "n", VLong 1)] [] [ex_uid ex_color "red"])]
  = Reject CInvalidAncestorType.
Proof. vm_compute. reflexivity. Qed.

Example c11_ex_tag_rejected :
  ep_upsert_entities ex_schema
    [(ex_uid ex_user "alice", mkEdata [(s2str "n", VLong 1)] [(s2str "t", VSet [VLong 3])] [])]
  = Reject CTypeMismatch.
Proof. vm_compute. reflexivity. Qed.

Example c11_ex_request_rejected :
  ep_request_new ex_schema (mkRequest (ex_uid ex_group "g") ex_view (ex_uid ex_group "g") [(s2str "n", VLong 1)])
  = Reject CInvalidPrincipalType.
Proof. vm_compute. reflexivity. Qed.
