(* C09 — the JSON and the Cedar schema syntaxes denote the same schema.
   Property theorems only; each is closed by `exact <lemma>` and followed by Print Assumptions.
   Model: coq/model/SchemaSyn.v.  Text-level parsing / printing is correspondence-only (vp/props/c09.py). *)
From Coq Require Import Permutation String.
Open Scope string_scope.
From Cedar Require Import SchemaSyn SchemaSynProofs SchemaJson SchemaJsonProofs.

(* JSON-tree round trip: decoding the tree the encoder writes gives back the fragment, for every fragment whose
   must-be-common references {"type": n} do not use one of the keywords of the format as n (wf_fragment; the
   condition is necessary: c09_json_roundtrip_needs_wf).  Proved by induction on type expressions (nested records
   and sets), then declaration by declaration.  Tree level: JSON text, `A::B` name syntax, key order and duplicate
   keys are text level (correspondence only). *)
Theorem c09_json_roundtrip :
  forall f, wf_fragment f = true -> json_to_fragment (fragment_to_json f) = Some f.
Proof. exact json_roundtrip. Qed.
Print Assumptions c09_json_roundtrip.

Example c09_json_roundtrip_needs_wf :
  json_to_fragment (fragment_to_json [mkNs [] [(s2str "T", XCommon (kw "Long"))] [] []])
  = Some [mkNs [] [(s2str "T", XPrim PLong)] [] []].
Proof. exact json_roundtrip_needs_wf. Qed.
Example c09_json_roundtrip_nonvacuous : wf_fragment collision_witness = true.
Proof. vm_compute. reflexivity. Qed.

(* PARTIAL (name level).  Writing a must-be-entity or must-be-common reference as a bare name (what fmt.rs
   does) and reading it back as entity-or-common (what the Cedar parser does) resolves to the same definition
   whenever no candidate name is defined in the other kind.  Missing for the full statement
   `cedar_roundtrip f = Some f' -> resolve f' = resolve f`: lifting through qual_ty / conv / the hierarchies,
   and deriving the no-collision hypothesis from fmt.rs's collision test — which is impossible as the code
   stands: see c09_cedar_roundtrip_refuted. *)
Theorem c09_reference_form_insensitive_partial :
  forall cdefs edefs ns n,
    (((forall p, In p (possibilities ns n) -> mem_name p cdefs = false) ->
      resolve_name RBoth cdefs edefs ns n = resolve_name REntity cdefs edefs ns n) /\
     ((forall p, In p (possibilities ns n) -> mem_name p edefs = false) ->
      resolve_name RBoth cdefs edefs ns n = resolve_name RCommon cdefs edefs ns n))%type.
Proof. exact reference_form_insensitive. Qed.
Print Assumptions c09_reference_form_insensitive_partial.

(* PARTIAL (type level).  Forgetting the reference form of every reference inside a type (`to_eoc`: what a trip
   through the Cedar syntax does to entity / common references) commutes with name resolution, provided no
   candidate name of a must-be-entity reference is a common type and no candidate of a must-be-common reference
   is an entity type (`refs_free`).  Missing: primitives/extension types printed as `__cedar::T`, the context
   position, the lifting through `conv` and the hierarchies, and the derivation of `refs_free` from the printer's
   collision test (false for the empty namespace: c09_cedar_roundtrip_refuted). *)
Theorem c09_reference_form_types_partial :
  forall cdefs edefs ns t,
    refs_free cdefs edefs ns t = true ->
    qual_ty cdefs edefs ns (to_eoc t) = option_map to_eoc (qual_ty cdefs edefs ns t).
Proof. exact qual_ty_to_eoc. Qed.
Print Assumptions c09_reference_form_types_partial.

(* PARTIAL.  Resolution does not depend on the order in which namespaces are declared: the definition sets,
   the builtin aliases, the RFC 70 verdicts and the resolution of every type reference are the same for a
   permuted fragment.  Missing: the order of declarations inside a namespace and the lifting to `resolve`
   (whose result lists are permuted, not equal). *)
Theorem c09_resolve_order_independent_partial :
  forall (f f' : fragment), Permutation f f' ->
    (forall n, mem_name n (entity_defs f ++ action_types f) = mem_name n (entity_defs f' ++ action_types f')) /\
    (forall n, mem_name n (common_defs f) = mem_name n (common_defs f')) /\
    alias_commons (entity_defs f) (common_defs f) = alias_commons (entity_defs f') (common_defs f') /\
    (forall extra ns t,
        qual_ty (common_defs f ++ extra) (entity_defs f ++ action_types f) ns t =
        qual_ty (common_defs f' ++ extra) (entity_defs f' ++ action_types f') ns t) /\
    rfc70_type_violation (entity_defs f ++ common_defs f) = rfc70_type_violation (entity_defs f' ++ common_defs f') /\
    rfc70_action_violation (action_defs f) = rfc70_action_violation (action_defs f').
Proof. exact resolution_order_independent. Qed.
Print Assumptions c09_resolve_order_independent_partial.

(* equal resolved schemas give equal verdicts of every validator (anything computed from the schema) *)
Theorem c09_validation_same :
  forall (f f' : fragment) (s s' : schema) (A : Type) (verdict : schema -> A),
    resolve f = SOk s -> resolve f' = SOk s' -> s = s' -> verdict s = verdict s'.
Proof. exact validation_same. Qed.
Print Assumptions c09_validation_same.

(* REFUTED.  The full statement  `cedar_roundtrip f = Some f' -> resolve f' = resolve f`  (JSON -> Cedar text ->
   JSON denotes the same schema whenever the printer accepts) is false of the model that follows the code:
   an entity type and a common type of the same name in the EMPTY namespace pass fmt.rs's collision test.
   The witness replayed on the implementation is finding C09:empty-ns-collision (vp/props/c09.py probes). *)
Theorem c09_cedar_roundtrip_refuted :
  exists f f' s s',
    cedar_roundtrip f = Some f' /\ resolve f = SOk s /\ resolve f' = SOk s' /\ s <> s'.
Proof. exact cedar_roundtrip_refuted. Qed.
Print Assumptions c09_cedar_roundtrip_refuted.

(* POSITIVE, at the level of one type expression (attribute / tag / common-type body / element), for ALL types:
   a type written in the Cedar syntax (`cedar_form`: primitives and extension types as `__cedar::T`, every
   reference as a bare entity-or-common name, no `additionalAttributes`) is qualified and converted to the SAME
   validator type as the original, under the exact side conditions
     - refs_free: no candidate name of a must-be-entity reference is a common type (this covers collisions in the
       EMPTY namespace and with the implicit `Action` entity type, which fmt.rs's test misses) and no candidate of
       a must-be-common reference is an entity type;
     - exts_known: extension types are known;  ent_ok: after qualification no must-be-entity reference names a
       common type and every record is closed;
     - cd_rel: the common-type definitions of the translated fragment are those of the original, each body kept or
       rewritten by cedar_form, the `__cedar` definitions present (one more unit of fuel pays for the `__cedar::T` jump).
   PARTIAL with respect to `collision_free f -> resolve (cedar_roundtrip f) = resolve f`: not assembled over the
   declarations of a fragment (hierarchies and RFC 70 checks do not involve types and are unchanged by
   cedar_roundtrip; the common-type cycle check of the translated fragment is the missing step: it needs a
   pigeonhole argument on reference chains), nor for the `context: Name` position. *)
Theorem c09_cedar_roundtrip_types_partial :
  forall cdefs edefs ns cd cd' fuel t q r,
    builtins_defined cdefs -> cd_rel cd cd' ->
    refs_free cdefs edefs ns t = true -> exts_known t = true ->
    qual_ty cdefs edefs ns t = Some q -> ent_ok cd q = true -> conv fuel cd q = SOk r ->
    exists q', qual_ty cdefs edefs ns (cedar_form t) = Some q' /\ conv (S fuel) cd' q' = SOk r.
Proof. exact cedar_roundtrip_type. Qed.
Print Assumptions c09_cedar_roundtrip_types_partial.

(* REFUTED (second witness).  Even a collision test over all namespaces is not enough: the implicit entity type
   NS::Action collides with a declared common type `Action` (finding C09:action-type-collision). *)
Theorem c09_cedar_roundtrip_refuted_action :
  exists f' s s',
    cedar_roundtrip action_collision_witness = Some f' /\ resolve action_collision_witness = SOk s /\
    resolve f' = SOk s' /\ s <> s'.
Proof. exact cedar_roundtrip_refuted_action. Qed.
Print Assumptions c09_cedar_roundtrip_refuted_action.

Example c09_cd_rel_nonvacuous : cd_rel builtin_cd builtin_cd.
Proof. exact cd_rel_builtin. Qed.

(* non-vacuity: the hypotheses of the theorems above are satisfiable on concrete fragments *)
Example c09_resolve_accepts_witness : exists s, resolve collision_witness = SOk s.
Proof. eexists. vm_compute. reflexivity. Qed.
Example c09_printer_refuses_collision_in_namespace :
  cedar_roundtrip (map (fun ns => mkNs [s2str "NS"] (ns_commons ns) (ns_entities ns) (ns_actions ns)) collision_witness) = None.
Proof. exact collision_in_namespace_refused. Qed.
Example c09_reference_form_instance :
  resolve_name RBoth [[s2str "C"]] [[s2str "NS"; s2str "E"]] [s2str "NS"] [s2str "E"] =
  resolve_name REntity [[s2str "C"]] [[s2str "NS"; s2str "E"]] [s2str "NS"] [s2str "E"].
Proof. vm_compute. reflexivity. Qed.
