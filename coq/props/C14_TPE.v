(* C14 — type-aware partial evaluation (TPE) and permission queries are sound.
   Property theorems on the model coq/model/TPE.v; each is closed by `exact <lemma>` (proofs/TPEProofs.v) and
   followed by Print Assumptions.

   What is proved for ALL inputs:
     c14_views                  policies(), policy_set(), get_policy(id) and the set reauthorize evaluates are the
                                same id -> residual map (on /repo this is finding F-a until commit 9aa5b1e).
     c14_decision_reauthorize   a definite TPE decision is the decision of reauthorization on EVERY request and store
                                (no hypothesis: true / false / error residuals have that outcome everywhere).
     c14_decision_concrete      given per-policy soundness (same id, effect, outcome class of original and residual
                                on the completion) a definite decision is the from-scratch decision on the originals.
     c14_reauthorize_concrete   given per-policy soundness, reauthorize decides like from-scratch authorization.
     c14_query_exact            query_resource/principal = the candidates of the store allowed by reauthorization;
     c14_query_brute            = the brute-force filter on the ORIGINAL policies, given per-policy soundness.
     c14_query_action_label / c14_query_action_complete   Some Allow labels are sound; allowed actions are listed.
   PARTIAL (the full statement `eval (to_expr (interp r)) ~ eval (to_expr r)` for every residual under Completes and
   the no-error side condition is NOT proved; per-policy soundness is a hypothesis of the theorems above and is checked
   on every completion by the correspondence and the implementation-level oracle):
     c14_interp_sound_partial   covered fragment: the absorbing rules `l && false`, `l || true` under the visible
                                no-error side condition (and their failure without it), the request variables
                                principal / action / resource, and `is` on an unknown principal. *)
From Coq Require Import List.
From Cedar Require Import TPE TPEProofs.
Import ListNotations.

Theorem c14_views :
  forall m : list rpolicy,
    view_policy_set m = view_policies m /\ view_reauth m = view_policies m /\
    (forall i, view_get m i = assoc_get i (view_policies m)) /\
    (forall i, view_get m i = assoc_get i (view_policy_set m)) /\
    (forall i, view_get m i = assoc_get i (view_reauth m)).
Proof. exact views_agree. Qed.
Print Assumptions c14_views.

Theorem c14_decision_reauthorize :
  forall (rs : list rpolicy) (d : decision), tpe_decision rs = Some d ->
  forall (q : request) (es : entities), rdecision (reauthorize rs q es) = d.
Proof. exact decision_reauthorize. Qed.
Print Assumptions c14_decision_reauthorize.

Theorem c14_reauthorize_concrete :
  forall (q : request) (es : entities) (ps : list policy) (rs : list rpolicy),
    Forall2 (policy_sound q es) ps rs ->
    rdecision (is_authorized ps q es) = rdecision (reauthorize rs q es).
Proof. exact reauthorize_concrete. Qed.
Print Assumptions c14_reauthorize_concrete.

Theorem c14_decision_concrete :
  forall (q : request) (es : entities) (ps : list policy) (rs : list rpolicy) (d : decision),
    Forall2 (policy_sound q es) ps rs ->
    tpe_decision rs = Some d -> rdecision (is_authorized ps q es) = d.
Proof. exact decision_concrete. Qed.
Print Assumptions c14_decision_concrete.

Theorem c14_query_exact :
  forall (fill : uid -> request) (hole : etype) (rs : list rpolicy) (es : entities),
    query fill hole rs es =
    filter (fun u => decision_eqb (rdecision (reauthorize rs (fill u) es)) Allow)
           (filter (fun u => name_eqb (uty u) hole) (map fst es)).
Proof. exact query_exact. Qed.
Print Assumptions c14_query_exact.

Theorem c14_query_brute :
  forall (fill : uid -> request) (hole : etype) (ps : list policy) (rs : list rpolicy) (es : entities),
    (forall u, Forall2 (policy_sound (fill u) es) ps rs) ->
    query fill hole rs es =
    filter (fun u => decision_eqb (rdecision (is_authorized ps (fill u) es)) Allow)
           (filter (fun u => name_eqb (uty u) hole) (map fst es)).
Proof. exact query_brute. Qed.
Print Assumptions c14_query_brute.

Theorem c14_query_action_label :
  forall (per : list (uid * list rpolicy)) (a : uid), In (a, Some Allow) (query_action per) ->
    exists rs, In (a, rs) per /\ forall q es, rdecision (reauthorize rs q es) = Allow.
Proof. exact query_action_label. Qed.
Print Assumptions c14_query_action_label.

Theorem c14_query_action_complete :
  forall (per : list (uid * list rpolicy)) (a : uid) (rs : list rpolicy) (q : request) (es : entities),
    In (a, rs) per -> rdecision (reauthorize rs q es) = Allow ->
    exists d, In (a, d) (query_action per) /\ d <> Some Deny.
Proof. exact query_action_complete. Qed.
Print Assumptions c14_query_action_complete.

Theorem c14_interp_sound_partial :
  (forall q es l b, reval q es l = Ok (VBool b) ->
     reval q es (RAnd l (RVal (VBool false))) = reval q es (RVal (VBool false))) /\
  (forall q es l b, reval q es l = Ok (VBool b) ->
     reval q es (ROr l (RVal (VBool true))) = reval q es (RVal (VBool true))) /\
  (forall q es l e, reval q es l = Err e ->
     reval q es (RAnd l (RVal (VBool false))) <> reval q es (RVal (VBool false))) /\
  (forall pq pes q es v, v <> Context -> request_consistent pq q = true ->
     reval q es (interp pq pes (RVar v)) = reval q es (RVar v)) /\
  (forall pq pes q es t, request_consistent pq q = true -> pq_pid pq = None ->
     reval q es (interp pq pes (RIs (RVar Principal) t)) = reval q es (RIs (RVar Principal) t)).
Proof.
  exact (conj and_false_sound (conj or_true_sound (conj and_false_needs_noerr (conj var_sound is_var_sound)))).
Qed.
Print Assumptions c14_interp_sound_partial.

(* non-vacuity: a response with a definite Allow, one with no decision, and the dropped-operand rule at work *)
Example c14_example :
  let u := mkUid [[85%N]] [97%N] in
  let pq := mkPRequest [[85%N]] None u [[85%N]] (Some [97%N]) None in
  let r1 := interp pq [] (RAnd (RBin BEq (RVar Principal) (RVar Resource)) (RVal (VBool false))) in
  let r2 := interp pq [] (RAnd (RBin BLess (RBin BAdd (RGetAttr (RVar Principal) [120%N]) (RVal (VLong 1))) (RVal (VLong 0)))
                               (RVal (VBool false))) in
  bucket_of r1 = KFalse /\ bucket_of r2 = KResidual /\
  tpe_decision [mkRPolicy [49%N] Permit (RVal (VBool true)); mkRPolicy [50%N] Forbid r1] = Some Allow /\
  tpe_decision [mkRPolicy [49%N] Permit (RVal (VBool true)); mkRPolicy [50%N] Forbid r2] = None /\
  request_consistent pq (mkRequest u u u []) = true.
Proof. vm_compute. repeat split; reflexivity. Qed.
