(* C14 — type-aware partial evaluation (TPE) and permission queries are sound.
   Property theorems on the model coq/model/TPE.v; each is closed by `exact <lemma>` (proofs/TPEProofs.v,
   TPESound.v, TPELink.v) and followed by Print Assumptions.  `cx` is the extension-function library (any).

   FULL (all inputs, no hypothesis beyond what the statement shows):
     c14_views                   policies(), policy_set(), get_policy(id) and the set reauthorize evaluates are the
                                 same id -> residual map (on /repo this was finding F-a until commit 9aa5b1e).
     c14_decision_reauthorize    a definite TPE decision is the decision of reauthorization on EVERY request and store.
     c14_reauthorize_concrete, c14_decision_concrete, c14_query_brute
                                 decision / reauthorize / queries against the ORIGINAL policies, given per-policy
                                 soundness as a hypothesis (kept: they hold for any library and any residuals).
     c14_query_exact, c14_query_action_label, c14_query_action_complete
     c14_residual_of_typed_expr  Residual::try_from_typed_expr preserves the meaning of the condition.
     c14_and_false_needs_noerr   the `&& false` rule is unsound for an erroring left operand (why can_error exists).
   PARTIAL — every arm of `interp` is covered, but the side condition `Side` is a HYPOTHESIS (it is what validation
   gives on a conformant completion: operands of && / || are booleans when they evaluate, and a left operand whose
   interpreted form has can_error = false does not error); deriving it from the typechecker model
   (`c14_noerr_from_typing`) is not done.  `Completes` requires the known attributes / tags / context to be identical
   to the concrete ones (canonical values) and the known ancestor set to be equal as a set.
     c14_interp_sound_partial    forall residuals: eval (interp r) ~ eval r  (same value, or both error) under
                                 Completes and Side — literals, variables (known/unknown principal, resource, context),
                                 && / || incl. the can_error rule, if, !, neg, isEmpty, ==, <, <=, + - *, in (known /
                                 unknown ancestors, entity and set right operands, empty set), getAttr / hasAttr
                                 (records, known / unknown attributes, missing entities), is (incl. unknown principal /
                                 resource), like, getTag / hasTag (tags None vs known), contains*, set / record
                                 literals, extension calls.
     c14_policy_sound_partial    a residual policy is sat / unsat / erroring exactly when its original is.
     c14_decision_sound_partial, c14_reauthorize_sound_partial, c14_query_sound_partial
                                 the decision / reauthorize / query theorems WITHOUT the per-policy soundness
                                 hypothesis (only Completes, the typed condition annotates the policy, Side). *)
From Coq Require Import List.
From Cedar Require Import TPE TPEProofs TPESound TPELink Typecheck TypecheckProofs TPETyping.
Import ListNotations.

Theorem c14_views :
  forall m : list rpolicy,
    view_policy_set m = view_policies m /\ view_reauth m = view_policies m /\
    (forall i, view_get m i = assoc_get i (view_policies m)) /\
    (forall i, view_get m i = assoc_get i (view_policy_set m)) /\
    (forall i, view_get m i = assoc_get i (view_reauth m)).
Proof. exact views_agree. Qed.
Print Assumptions c14_views.

Theorem c14_decision_reauthorize :
  forall cx (rs : list rpolicy) (d : decision), tpe_decision rs = Some d ->
  forall (q : request) (es : entities), rdecision (reauthorize cx rs q es) = d.
Proof. exact decision_reauthorize. Qed.
Print Assumptions c14_decision_reauthorize.

Theorem c14_reauthorize_concrete :
  forall cx (q : request) (es : entities) (ps : list policy) (rs : list rpolicy),
    Forall2 (policy_sound cx q es) ps rs ->
    rdecision (is_authorized ps q es) = rdecision (reauthorize cx rs q es).
Proof. exact reauthorize_concrete. Qed.
Print Assumptions c14_reauthorize_concrete.

Theorem c14_decision_concrete :
  forall cx (q : request) (es : entities) (ps : list policy) (rs : list rpolicy) (d : decision),
    Forall2 (policy_sound cx q es) ps rs ->
    tpe_decision rs = Some d -> rdecision (is_authorized ps q es) = d.
Proof. exact decision_concrete. Qed.
Print Assumptions c14_decision_concrete.

Theorem c14_query_exact :
  forall cx (fill : uid -> request) (hole : etype) (rs : list rpolicy) (es : entities),
    query cx fill hole rs es =
    filter (fun u => decision_eqb (rdecision (reauthorize cx rs (fill u) es)) Allow)
           (filter (fun u => name_eqb (uty u) hole) (map fst es)).
Proof. exact query_exact. Qed.
Print Assumptions c14_query_exact.

Theorem c14_query_brute :
  forall cx (fill : uid -> request) (hole : etype) (ps : list policy) (rs : list rpolicy) (es : entities),
    (forall u, Forall2 (policy_sound cx (fill u) es) ps rs) ->
    query cx fill hole rs es =
    filter (fun u => decision_eqb (rdecision (is_authorized ps (fill u) es)) Allow)
           (filter (fun u => name_eqb (uty u) hole) (map fst es)).
Proof. exact query_brute. Qed.
Print Assumptions c14_query_brute.

Theorem c14_query_action_label :
  forall cx (per : list (uid * list rpolicy)) (a : uid), In (a, Some Allow) (query_action per) ->
    exists rs, In (a, rs) per /\ forall q es, rdecision (reauthorize cx rs q es) = Allow.
Proof. exact query_action_label. Qed.
Print Assumptions c14_query_action_label.

Theorem c14_query_action_complete :
  forall cx (per : list (uid * list rpolicy)) (a : uid) (rs : list rpolicy) (q : request) (es : entities),
    In (a, rs) per -> rdecision (reauthorize cx rs q es) = Allow ->
    exists d, In (a, d) (query_action per) /\ d <> Some Deny.
Proof. exact query_action_complete. Qed.
Print Assumptions c14_query_action_complete.

Theorem c14_and_false_needs_noerr :
  forall cx q es l e, reval cx q es l = Err e ->
    reval cx q es (RAnd l (RVal (VBool false))) <> reval cx q es (RVal (VBool false)).
Proof. exact and_false_needs_noerr. Qed.
Print Assumptions c14_and_false_needs_noerr.

Theorem c14_interp_sound_partial :
  forall cx pq pes q es, Completes pq pes q es ->
  forall r, Side cx pq pes q es r -> sim (reval cx q es (interp cx pq pes r)) (reval cx q es r).
Proof. exact interp_sound. Qed.
Print Assumptions c14_interp_sound_partial.

Theorem c14_residual_of_typed_expr :
  forall sl q es te r, of_texpr sl te = Some r -> reval call_ext q es r = eval sl q es (erase te).
Proof. exact reval_of_texpr. Qed.
Print Assumptions c14_residual_of_typed_expr.

Theorem c14_policy_sound_partial :
  forall pq pes q es tp p rp,
    Completes pq pes q es -> annotates tp p -> policy_side pq pes q es tp ->
    tpe_policy call_ext pq pes tp = Some rp -> policy_sound call_ext q es p rp.
Proof. exact policy_sound_tpe. Qed.
Print Assumptions c14_policy_sound_partial.

Theorem c14_decision_sound_partial :
  forall pq pes q es tps ps rs d,
    Completes pq pes q es -> Forall2 annotates tps ps -> Forall (policy_side pq pes q es) tps ->
    tpe call_ext pq pes tps = Some rs -> tpe_decision rs = Some d ->
    rdecision (is_authorized ps q es) = d.
Proof. exact decision_sound. Qed.
Print Assumptions c14_decision_sound_partial.

Theorem c14_reauthorize_sound_partial :
  forall pq pes q es tps ps rs,
    Completes pq pes q es -> Forall2 annotates tps ps -> Forall (policy_side pq pes q es) tps ->
    tpe call_ext pq pes tps = Some rs ->
    rdecision (is_authorized ps q es) = rdecision (reauthorize call_ext rs q es).
Proof. exact reauthorize_sound. Qed.
Print Assumptions c14_reauthorize_sound_partial.

Theorem c14_query_sound_partial :
  forall pq pes fill hole es tps ps rs,
    (forall u, Completes pq pes (fill u) es) -> Forall2 annotates tps ps ->
    (forall u, Forall (policy_side pq pes (fill u) es) tps) ->
    tpe call_ext pq pes tps = Some rs ->
    query call_ext fill hole rs es =
    filter (fun u => decision_eqb (rdecision (is_authorized ps (fill u) es)) Allow)
           (filter (fun u => name_eqb (uty u) hole) (map fst es)).
Proof. exact query_sound. Qed.
Print Assumptions c14_query_sound_partial.

(* towards c14_noerr_from_typing: on the fragment covered by C03's typechecker soundness (literals, variables, &&, ||,
   !, ==, has / get on the context) a typechecked expression does not error on a request of the environment and
   yields a value of its type; a Bool-typed one yields a boolean (the `boolish` / no-error premises of Side).
   PARTIAL: the fragment is C03's, and the derivation of Side for every sub-residual is not assembled. *)
Theorem c14_noerr_from_typing_partial :
  forall m sch env q es,
  schema_wf sch = true ->
  (forall t, is_action_type t = true -> find_etype sch t = None) ->
  decl_ty_ok (re_context env) = true ->
  env_ok env q ->
  store_ok sch es ->
  forall e, tpe_fragment e = true ->
  forall cs t cs', caps_hold q es cs -> tc m sch env cs e = Some (t, cs') ->
  exists v, eval [] q es e = Ok v /\ TypeConforms v t.
Proof. exact noerr_from_typing. Qed.
Print Assumptions c14_noerr_from_typing_partial.

(* non-vacuity: a response with a definite Allow, one with no decision, the dropped-operand rule at work *)
Example c14_example :
  let u := mkUid [[85%N]] [97%N] in
  let pq := mkPRequest [[85%N]] None u [[85%N]] (Some [97%N]) None in
  let r1 := interp call_ext pq [] (RAnd (RBin BEq (RVar Principal) (RVar Resource)) (RVal (VBool false))) in
  let r2 := interp call_ext pq [] (RAnd (RBin BLess (RBin BAdd (RGetAttr (RVar Principal) [120%N]) (RVal (VLong 1))) (RVal (VLong 0)))
                               (RVal (VBool false))) in
  bucket_of r1 = KFalse /\ bucket_of r2 = KResidual /\
  tpe_decision [mkRPolicy [49%N] Permit (RVal (VBool true)); mkRPolicy [50%N] Forbid r1] = Some Allow /\
  tpe_decision [mkRPolicy [49%N] Permit (RVal (VBool true)); mkRPolicy [50%N] Forbid r2] = None /\
  request_consistent pq (mkRequest u u u []) = true.
Proof. vm_compute. repeat split; reflexivity. Qed.

(* non-vacuity of the hypotheses of the soundness theorems: a consistent completion and a residual with a dropped
   operand satisfying the side condition *)
Example c14_sound_example :
  let u := mkUid [[85%N]] [97%N] in
  let pq := mkPRequest [[85%N]] None u [[85%N]] (Some [97%N]) None in
  let q := mkRequest u u u [] in
  let r := RAnd (RBin BEq (RVar Principal) (RVar Resource)) (RVal (VBool false)) in
  Completes pq [] q [] /\ Side call_ext pq [] q [] r /\ bucket_of (interp call_ext pq [] r) = KFalse.
Proof.
  cbv zeta. split; [|split].
  - constructor; cbn; try reflexivity; intros; try discriminate.
    inversion H; reflexivity.
  - cbn. repeat split; try exact I.
    + intros v H. vm_compute in H. inversion H. exists true. reflexivity.
    + intros v H. vm_compute in H. inversion H. exists false. reflexivity.
    + intros _ e H. vm_compute in H. discriminate.
  - vm_compute. reflexivity.
Qed.
