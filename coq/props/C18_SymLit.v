(* C18 — symbolic compilation against a literal environment agrees with concrete evaluation.
   Model: coq/model/SymLit.v (literal terms, the term factory on literal arguments, compile_lit, the verify builders).

   c18_bv_arith, c18_bv_cmp   FULL: the factory's signed-overflow predicates on 64-bit vectors are exactly the
                              evaluator's i64 range tests, wrapped add/sub/mul/neg are the images of the exact
                              results (and read back as the exact result when in range); signed comparisons and
                              equality of encoded longs are the integer ones.
   c18_verify, c18_verify_pair, c18_verify_authz
                              FULL for the assertion shapes: every verify_* list is [false] (unsatisfiable)
                              exactly in the case the property names, whenever the enforcer assertions are `true`.
   c18_compile_eval_partial   PARTIAL (fragment): for every expression on which compile_lit succeeds — bool / long /
                              string / entity literals, principal / action / resource, ! neg, == < <= + - *,
                              && || if-then-else, like, is (anything else makes compile_lit CUnsupported, except in
                              positions the compiler folds away) — the compiled literal term is `some (term of v)`
                              when the evaluator returns v and `none` when it errors.  Missing for the full
                              statement: sets, records, attribute access (has / .), `in`, tags, isEmpty, contains*,
                              extension functions, context; these are covered by the implementation-level oracle
                              of the check only. *)
From Coq Require Import ZArith List.
From Cedar Require Import SymLit SymLitProofs.
Import ListNotations.
Open Scope Z_scope.

Theorem c18_bv_arith : forall a b, in_i64 a = true -> in_i64 b = true ->
  bvsaddo (bv_of_int a) (bv_of_int b) = negb (in_i64 (a + b)) /\
  bvssubo (bv_of_int a) (bv_of_int b) = negb (in_i64 (a - b)) /\
  bvsmulo (bv_of_int a) (bv_of_int b) = negb (in_i64 (a * b)) /\
  bvnego (bv_of_int a) = negb (in_i64 (- a)) /\
  bvadd (bv_of_int a) (bv_of_int b) = bv_of_int (a + b) /\
  bvsub (bv_of_int a) (bv_of_int b) = bv_of_int (a - b) /\
  bvmul (bv_of_int a) (bv_of_int b) = bv_of_int (a * b) /\
  bvneg (bv_of_int a) = bv_of_int (- a) /\
  (in_i64 (a + b) = true -> bv_to_int (bvadd (bv_of_int a) (bv_of_int b)) = a + b) /\
  (in_i64 (a - b) = true -> bv_to_int (bvsub (bv_of_int a) (bv_of_int b)) = a - b) /\
  (in_i64 (a * b) = true -> bv_to_int (bvmul (bv_of_int a) (bv_of_int b)) = a * b) /\
  (in_i64 (- a) = true -> bv_to_int (bvneg (bv_of_int a)) = - a).
Proof. exact bv_arith. Qed.
Print Assumptions c18_bv_arith.

Theorem c18_bv_cmp : forall a b, in_i64 a = true -> in_i64 b = true ->
  bvslt (bv_of_int a) (bv_of_int b) = (a <? b) /\
  bvsle (bv_of_int a) (bv_of_int b) = (a <=? b) /\
  lit_eqb (LBv (bv_of_int a)) (LBv (bv_of_int b)) = (a =? b).
Proof. exact bv_cmp. Qed.
Print Assumptions c18_bv_cmp.

Example c18_bv_example :
  bvsaddo (bv_of_int i64_max) (bv_of_int 1) = true /\ bvsmulo (bv_of_int i64_min) (bv_of_int (-1)) = true /\
  bvnego (bv_of_int i64_min) = true /\ bvadd (bv_of_int (-5)) (bv_of_int 7) = bv_of_int 2 /\
  bvslt (bv_of_int (-1)) (bv_of_int 0) = true.
Proof. vm_compute. repeat split. Qed.

Theorem c18_verify : forall enf t, forallb (fun b => b) enf = true ->
  (verdict_of (verify_never_errors enf t) = Unsat <-> exists l, t = TSome l) /\
  (verdict_of (verify_always_matches enf t) = Unsat <-> t = TSome (LBool true)) /\
  (verdict_of (verify_never_matches enf t) = Unsat <-> t <> TSome (LBool true)).
Proof. exact verify_single. Qed.
Print Assumptions c18_verify.

Theorem c18_verify_pair : forall enf t1 t2, forallb (fun b => b) enf = true ->
  (verdict_of (verify_matches_equivalent enf t1 t2) = Unsat <-> matches_t t1 = matches_t t2) /\
  (verdict_of (verify_matches_implies enf t1 t2) = Unsat <-> (matches_t t1 = true -> matches_t t2 = true)) /\
  (verdict_of (verify_matches_disjoint enf t1 t2) = Unsat <-> ~ (matches_t t1 = true /\ matches_t t2 = true)).
Proof. exact verify_pair. Qed.
Print Assumptions c18_verify_pair.

Theorem c18_verify_authz : forall enf d1 d2, forallb (fun b => b) enf = true ->
  (verdict_of (verify_always_allows enf d1) = Unsat <-> d1 = true) /\
  (verdict_of (verify_always_denies enf d1) = Unsat <-> d1 = false) /\
  (verdict_of (verify_implies enf d1 d2) = Unsat <-> (d1 = true -> d2 = true)) /\
  (verdict_of (verify_equivalent enf d1 d2) = Unsat <-> d1 = d2) /\
  (verdict_of (verify_disjoint enf d1 d2) = Unsat <-> ~ (d1 = true /\ d2 = true)).
Proof. exact verify_authz. Qed.
Print Assumptions c18_verify_authz.

Example c18_verify_example :
  verdict_of (verify_never_errors [true; true] (TNone TyBool)) = Sat /\
  verdict_of (verify_never_errors [true] (TSome (LBool false))) = Unsat /\
  verdict_of (verify_always_allows [] (authz_lit [(Permit, TSome (LBool true)); (Forbid, TNone TyBool)])) = Unsat.
Proof. vm_compute. repeat split. Qed.

(* rel r t: t is `some (literal term of v)` when r = Ok v (with v a primitive, longs in range) and `none` when r is
   an error *)
Theorem c18_compile_eval_partial : forall valid sl q es e t,
  lits_ok e = true -> compile_lit valid q e = COk t ->
  match eval sl q es e with
  | Ok (VPrim (PLong z)) => in_i64 z = true /\ t = TSome (LBv (bv_of_int z))
  | Ok (VPrim p) => t = TSome (lit_of_prim p)
  | Ok _ => False
  | Err _ => exists ty, t = TNone ty
  end.
Proof. exact compile_eval. Qed.
Print Assumptions c18_compile_eval_partial.

Example c18_compile_example :
  let q := mkRequest (mkUid [[85]%N] [97]%N) (mkUid [[65]%N] [118]%N) (mkUid [[68]%N] [100]%N) [] in
  compile_lit (fun _ => true) q
    (Or (BinApp BLess (BinApp BAdd (Lit (PLong i64_max)) (Lit (PLong 1))) (Lit (PLong 0))) (Lit (PBool true)))
    = COk (TNone TyBool) /\
  compile_lit (fun _ => true) q
    (And (Is (Var Principal) [[85]%N]) (BinApp BEq (BinApp BMul (Lit (PLong 3)) (Lit (PLong (-4)))) (Lit (PLong (-12)))))
    = COk (TSome (LBool true)).
Proof. vm_compute. split; reflexivity. Qed.
