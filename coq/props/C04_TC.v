(* C04 — hierarchy membership equals parent-reachability after any store history. *)
From Cedar Require Import TC.
