(* C04 — hierarchy membership equals parent-reachability after any store history.
   Model: model/TC.v.  Lemmas: proofs/TCProofs.v.

   What is carried for ALL graphs / stores / operation lists (no bound):
   * c04_closure_correct, c04_closure_fuel: the cached closure computed by saturation is exactly
     `reach` (one or more direct-parent steps through entities present in the graph; a parent without
     a record is a leaf), and the fuel used is always sufficient (OutOfFuel unreachable).
   * c04_recompute_inv / c04_recompute_reject: recomputation yields a store satisfying Inv
     (ancestors = reach, no self-ancestor, parents/indirect disjoint) with unchanged direct parents,
     fails only with Cycle, and fails iff some entity reaches itself.
   * c04_spec_op_inv / c04_spec_op_reject / c04_spec_op_cycle_rejected: every ComputeNow operation
     (from/add/upsert/remove) of the spec layer = the edit of the direct parents exactly as the Rust
     code performs it (s_edit) followed by recomputation: success gives Inv over the edited graph (so no
     ancestor survives the removal or replacement of the only path that justified it); failure is
     Duplicate (from the map edit) or Cycle, the latter iff the edited graph has a cycle.
   * c04_history: Inv after every history of ComputeNow operations (fold_left from the empty store,
     failed operations leave the store unchanged).
   * c04_queries: under Inv, `e in a`, is_ancestor_of and the ancestor listing are characterised by
     e = a \/ reach, for all pairs, present or absent (is_ancestor_of is reflexive since /repo 13ea66c).
   * c04_enforce, c04_enforce_closed: enforce_tc_and_dag = Ok implies the store is transitively
     closed and loop-free, hence contains every reachable uid and is acyclic.
   NOT proved (correspondence only): that the incremental layer (i_add / i_upsert / i_remove: strip +
   repair_tc + self-loop test on touched nodes, as coded) refines the spec layer; and the SCC-based
   compute_tc, which the model represents by its contract (recompute). *)
From Cedar Require Import TC TCProofs TCIncProofs.
From Cedar Require Import TCLatest.
Open Scope N_scope.

Theorem c04_closure_correct : forall g u c, closure g u = Some c -> forall a, In a c <-> reach g u a.
Proof. exact closure_correct. Qed.
Print Assumptions c04_closure_correct.

Theorem c04_closure_fuel : forall g u, closure g u <> None.
Proof. exact closure_fuel. Qed.
Print Assumptions c04_closure_fuel.

Theorem c04_recompute_inv : forall g s,
  NoDup (map fst g) -> recompute g = TOk s -> Inv s /\ graph_of s = g.
Proof. exact recompute_inv. Qed.
Print Assumptions c04_recompute_inv.

Theorem c04_recompute_reject : forall g,
  (forall e, recompute g = TErr e -> e = ECycle) /\
  (recompute g = TErr ECycle <-> exists u, In u (map fst g) /\ reach g u u).
Proof. exact recompute_reject. Qed.
Print Assumptions c04_recompute_reject.

Theorem c04_spec_op_inv : forall s o s',
  NoDup (keys s) -> s_compute s o = TOk s' ->
  exists s1, s_edit s o = TOk s1 /\ graph_of s' = graph_of s1 /\ Inv s'.
Proof. exact spec_op_inv. Qed.
Print Assumptions c04_spec_op_inv.

Theorem c04_spec_op_reject : forall s o e,
  s_compute s o = TErr e ->
  (e = EDuplicate /\ s_edit s o = TErr EDuplicate) \/
  (e = ECycle /\ exists s1 u, s_edit s o = TOk s1 /\ In u (keys s1) /\ reach (graph_of s1) u u).
Proof. exact spec_op_reject. Qed.
Print Assumptions c04_spec_op_reject.

Theorem c04_spec_op_cycle_rejected : forall s o s1 u,
  s_edit s o = TOk s1 -> In u (keys s1) -> reach (graph_of s1) u u -> s_compute s o = TErr ECycle.
Proof. exact spec_op_cycle_rejected. Qed.
Print Assumptions c04_spec_op_cycle_rejected.

Theorem c04_history : forall ops,
  Forall (fun o => op_compute o = true) ops -> Inv (run_ops s_op ops).
Proof. intros ops H. unfold run_ops. apply history_inv; [exact H | exact Inv_nil]. Qed.
Print Assumptions c04_history.

Theorem c04_queries : forall s, Inv s ->
  (forall e a, q_in s e a = true <-> (e = a \/ reach (graph_of s) e a)) /\
  (forall a e, q_is_ancestor_of s a e = true <-> (a = e \/ reach (graph_of s) e a)) /\
  (forall u, match q_ancestors s u with
             | Some l => forall a, In a l <-> reach (graph_of s) u a
             | None => find u s = None /\ forall a, ~ reach (graph_of s) u a
             end).
Proof. exact queries. Qed.
Print Assumptions c04_queries.

Theorem c04_enforce : forall s s', enforce_tc_and_dag s = TOk s' ->
  s' = s /\
  (forall u n p pn gp, In (u, n) s -> In p (ancestors n) -> find p s = Some pn ->
                       In gp (ancestors pn) -> In gp (ancestors n)) /\
  (forall u n, In (u, n) s -> ~ In u (ancestors n)).
Proof. exact enforce_ok. Qed.
Print Assumptions c04_enforce.

Theorem c04_enforce_closed : forall s s', enforce_tc_and_dag s = TOk s' ->
  forall u n, In (u, n) s -> NoDup (keys s) ->
    (forall a, reach (graph_of s) u a -> In a (ancestors n)) /\ ~ reach (graph_of s) u u.
Proof. exact enforce_closed. Qed.
Print Assumptions c04_enforce_closed.

(* PARTIAL (incremental layer): only the EDIT PHASE of the operations as coded (map update, stale-edge
   stripping, removal of parent links) is related to the spec layer here: it fails with the same error,
   or yields a store with the same direct parents as the spec edit, after which the code runs
   `finish` (repair_tc on the touched set / enforce).  Missing for the full refinement
   (i_op s o and s_op s o agree under Inv): that `repair` over the touched set recomputes exactly the
   closure — compared by correspondence only. *)
Theorem c04_inc_edit_parents_partial : forall s o,
  match s_edit s o with
  | TErr e => i_op s o = TErr e
  | TOk s1 =>
      match o with
      | OFrom c _ => i_op s o = if c then recompute (graph_of s1) else enforce_tc_and_dag s1
      | OAdd c _ => exists t, i_op s o = finish c true t s1
      | OUpsert c _ => exists s2 t, i_op s o = finish c true t s2 /\ graph_of s2 = graph_of s1
      | ORemove c _ => exists s2 t, i_op s o = finish c false t s2 /\ graph_of s2 = graph_of s1
      end
  end.
Proof. exact inc_edit_parents. Qed.
Print Assumptions c04_inc_edit_parents_partial.

(* ---- incremental layer: repair_tc as coded (add_ancestors DFS with seen/explored, fuel) ----
   c04_repair_correct (b, and c in the acyclic case): for ANY store and touched set such that
   (i) every cached ancestor is justified by a path (Sound), (ii) every entity outside the touched set
   already lists everything it reaches (complete), (iii) the parent graph is acyclic:
   `repair` does not run out of fuel, passes the self-loop test on the touched nodes, leaves the direct
   parents unchanged and makes every entity's ancestors exactly `reach`. *)
Theorem c04_repair_correct : forall s T,
  Sound (graph_of s) s ->
  (forall x, In x (keys s) -> ~ In x T -> complete (graph_of s) s x) ->
  acyclic (graph_of s) ->
  exists s', repair T s = TOk s' /\ graph_of s' = graph_of s
             /\ forall u n, find u s' = Some n -> forall a, In a (ancestors n) <-> reach (graph_of s) u a.
Proof. exact repair_correct. Qed.
Print Assumptions c04_repair_correct.

(* c04_repair_sound: on ANY parent graph (cyclic included) whatever `repair` accepts keeps the direct
   parents and lists only ancestors justified by a path; a Cycle error it reports is a real cycle. *)
Theorem c04_repair_sound : forall s T,
  Sound (graph_of s) s ->
  match repair T s with
  | TOk s' => graph_of s' = graph_of s /\ Sound (graph_of s) s'
  | TErr ECycle => exists t, In t (keys s) /\ reach (graph_of s) t t
  | TErr _ => True
  end.
Proof. exact repair_sound. Qed.
Print Assumptions c04_repair_sound.

(* c04_inc_refines_add_partial (a + b + graph-level c): add_entities(ComputeNow), any batch, any store with Inv.
   * map edit fails (duplicate): both layers fail with the same error;
   * edited parent graph acyclic: both layers succeed, equal direct parents, equal ancestor sets (the touched
     set computed by the code — added uids plus every entity with a touched ancestor — leaves only complete
     entities untouched, and the coded DFS recomputes the touched ones exactly);
   * the incremental layer reports Cycle: the spec layer reports Cycle (the cycle is real);
   * every cycle of the edited graph runs through touched entities only (so restricting the self-loop
     test to touched nodes loses nothing once their closures are right).
   MISSING for the full refinement: on a CYCLIC edited graph the spec layer rejects
   (c04_spec_op_cycle_rejected), but that the coded DFS produces a self-loop on some touched node (i.e. that
   the incremental layer cannot answer Ok or run out of fuel there) is not proved — correspondence only. *)
Theorem c04_inc_refines_add_partial : forall s es,
  Inv s ->
  match insert_all s es with
  | TErr e => i_add true s es = TErr e /\ s_compute s (OAdd true es) = TErr e
  | TOk s1 =>
      (acyclic (graph_of s1) ->
       exists si ss, i_add true s es = TOk si /\ s_compute s (OAdd true es) = TOk ss /\ agree si ss)
      /\ (i_add true s es = TErr ECycle -> s_compute s (OAdd true es) = TErr ECycle)
      /\ (forall t, i_add_loop s [] es = TOk (s1, t) ->
          forall x, reach (graph_of s1) x x -> In x (touch_descendants t s1))
  end.
Proof.
  intros s es HI. destruct (insert_all s es) as [s1|e] eqn:E.
  - split; [|split].
    + intros Hacy. eapply inc_refines_add; eassumption.
    + intros H. eapply inc_add_cycle; eassumption.
    + intros t EL. eapply add_cycles_touched; eassumption.
  - apply inc_add_error; exact E.
Qed.
Print Assumptions c04_inc_refines_add_partial.

(* c04_inc_refines_remove_partial (a + b + c): remove_entities(ComputeNow) of ONE uid (present or absent)
   from any store with Inv: both layers succeed (no cycle can arise), with equal direct parents and equal
   ancestor sets — stripping removes nothing that is not recomputed, untouched entities stay complete, an
   ancestor reachable both through the removed entity and through a sibling is kept/recovered.
   MISSING: batches of several uids (the code strips against partially stripped intermediate states). *)
Theorem c04_inc_refines_remove_partial : forall s u,
  Inv s ->
  exists si ss, i_remove true s [u] = TOk si /\ s_compute s (ORemove true [u]) = TOk ss /\ agree si ss.
Proof. exact inc_refines_remove_one. Qed.
Print Assumptions c04_inc_refines_remove_partial.

(* c04_inc_refines_upsert_partial (a + b): upsert_entities(ComputeNow) of ONE entity (present: its
   descendants are stripped of the old entity's ancestors; absent: as add), any store with Inv:
   edited graph acyclic => both layers succeed with equal parents and equal ancestor sets (an ancestor
   justified only through the replaced entity's old parents disappears, one also justified by another path
   is recomputed); the incremental layer reports Cycle => the spec layer reports Cycle.
   MISSING: batches of several entities; rejection by the coded DFS on a cyclic edited graph. *)
Theorem c04_inc_refines_upsert_partial : forall s e,
  Inv s ->
  (acyclic (graph_of (upd_over s e)) ->
   exists si ss, i_upsert true s [e] = TOk si /\ s_compute s (OUpsert true [e]) = TOk ss /\ agree si ss)
  /\ (i_upsert true s [e] = TErr ECycle -> s_compute s (OUpsert true [e]) = TErr ECycle).
Proof. exact inc_refines_upsert_one. Qed.
Print Assumptions c04_inc_refines_upsert_partial.

(* ---- non-vacuity: concrete histories ---- *)
(* diamond 0 -> {1,2} -> 3 -> 4, then remove 1 (one of two paths): 3 and 4 stay ancestors of 0;
   then remove 2 (the only remaining path): nothing survives *)
Definition ex_ops : list op :=
  [ OFrom true [(0, [1; 2]); (1, [3]); (2, [3]); (3, [4])]; ORemove true [1] ].
Example ex_history_one_of_two_paths :
  option_map (fun n => (n_parents n, n_indirect n)) (find 0 (run_ops s_op ex_ops)) = Some ([2], [4; 3])
  /\ Forall (fun o => op_compute o = true) ex_ops.
Proof. split; [vm_compute; reflexivity | repeat constructor]. Qed.
Example ex_history_only_path :
  option_map ancestors (find 0 (run_ops s_op (ex_ops ++ [ORemove true [2]]))) = Some [].
Proof. vm_compute. reflexivity. Qed.
(* both layers agree on it *)
Example ex_layers_agree : run_ops i_op (ex_ops ++ [ORemove true [2]]) = run_ops s_op (ex_ops ++ [ORemove true [2]]).
Proof. vm_compute. reflexivity. Qed.
(* a cycle of length 3 closed by an upsert is rejected, in both layers *)
Example ex_cycle_rejected :
  s_op (run_ops s_op [OFrom true [(0, [1]); (1, [2]); (2, [])]]) (OUpsert true [(2, [0])]) = TErr ECycle
  /\ i_op (run_ops i_op [OFrom true [(0, [1]); (1, [2]); (2, [])]]) (OUpsert true [(2, [0])]) = TErr ECycle.
Proof. split; vm_compute; reflexivity. Qed.
(* closure / fuel on a cyclic graph *)
Example ex_closure_cyclic : closure [(0, [1]); (1, [2]); (2, [0; 5])] 0 = Some [5; 0; 2; 1].
Proof. vm_compute. reflexivity. Qed.
(* enforce: closed input accepted, non-closed input rejected, self-loop rejected *)
Example ex_enforce :
  i_from false [(0, [1; 2]); (1, [2])] = TOk [(0, mkNode [1; 2] []); (1, mkNode [2] [])]
  /\ i_from false [(0, [1]); (1, [2])] = TErr EMissingEdge
  /\ i_from false [(0, [0])] = TErr ECycle.
Proof. repeat split; vm_compute; reflexivity. Qed.
(* queries: the reflexive cases *)
Example ex_queries :
  let s := run_ops s_op ex_ops in
  (q_in s 0 0, q_is_ancestor_of s 0 0, q_is_ancestor_of s 9 9, q_in s 0 4, q_is_ancestor_of s 4 0, q_in s 0 1)
  = (true, true, true, true, true, false).
Proof. vm_compute. reflexivity. Qed.

(* hypotheses of c04_repair_correct / c04_inc_refines_* are satisfiable: the diamond store has Inv (c04_history),
   adding 5 -> 0 and 4 -> 6 (4 was a dangling parent) keeps the graph acyclic and both layers agree *)
Definition agree_b (r1 r2 : tres store) (ks : list uid) : bool :=
  match r1, r2 with
  | TOk a, TOk b =>
      forallb (fun k => match find k a, find k b with
                        | Some x, Some y => set_eqb (ancestors x) (ancestors y) && set_eqb (n_parents x) (n_parents y)
                        | None, None => true
                        | _, _ => false
                        end) ks
  | _, _ => false
  end.
Example ex_inc_add :
  let s := run_ops s_op ex_ops in
  agree_b (i_add true s [(5, [0]); (4, [6])]) (s_compute s (OAdd true [(5, [0]); (4, [6])])) [0; 1; 2; 3; 4; 5; 6] = true
  /\ option_map (fun n => set_eqb (ancestors n) [2; 3; 4; 6])
       (find 0 (match i_add true s [(5, [0]); (4, [6])] with TOk x => x | TErr _ => [] end)) = Some true.
Proof. split; vm_compute; reflexivity. Qed.
Example ex_inc_remove :
  let s := run_ops s_op [OFrom true [(0, [1; 2]); (1, [3]); (2, [3]); (3, [4])]] in
  agree_b (i_remove true s [1]) (s_compute s (ORemove true [1])) [0; 1; 2; 3; 4] = true.
Proof. vm_compute. reflexivity. Qed.
Example ex_inc_upsert :
  let s := run_ops s_op [OFrom true [(0, [1; 2]); (1, [3]); (2, [3]); (3, [4])]] in
  agree_b (i_upsert true s [(1, [5])]) (s_compute s (OUpsert true [(1, [5])])) [0; 1; 2; 3; 4; 5] = true
  /\ i_upsert true s [(3, [0])] = TErr ECycle.
Proof. split; vm_compute; reflexivity. Qed.

(* upsert_entities applies only the latest version of each uid of its batch (afe0e04; TC.latest_versions, used by both
   layers): uid by uid this yields the same entity records — hence the same direct-parent links — as applying every
   version in turn; the de-duplication only avoids stripping against intermediate, not yet closed versions. *)
Theorem c04_upsert_latest : forall (es : list ent) (s : store) (u : uid),
  find u (fold_left upd_over (latest_versions es) s) = find u (fold_left upd_over es s).
Proof. exact upsert_latest_same_records. Qed.
Print Assumptions c04_upsert_latest.
