(* C07 — extension types (decimal, ip, datetime, duration) compute exact results.
   Model: coq/model/ExtParse.v (transcribed from extensions/{decimal,ipaddr,datetime}.rs).
   Lemmas: coq/proofs/ExtParseProofs.v.

   FULL on the model (all strings / all values):
     c07_decimal_spec, c07_decimal_digit_table_irrelevant, c07_decimal_constructor,
     c07_decimal_cmp, c07_duration_spec, c07_offset_exact, c07_duration_since_exact,
     c07_to_date_exact, c07_to_time_exact, c07_to_date_plus_to_time, c07_duration_to_exact,
     c07_rel_exact, c07_eq_by_value, c07_days_from_civil_correct, c07_days_from_civil_monotone,
     c07_days_from_civil_injective, c07_in_range, c07_loopback, c07_multicast.
   PARTIAL (named _partial):
     c07_datetime_spec_partial — soundness direction only: an accepted string has one of the five
                                 documented shapes with a valid civil date, time and offset and
                                 the value is the exact millisecond count; the converse (every
                                 such string is accepted) is NOT proved.
     c07_ip_spec_partial       — soundness for IPv4 results only (dotted quad without leading
                                 zeros, optional /0../32 without leading zeros, value exact and
                                 well formed); completeness and the IPv6 text forms are NOT proved
                                 (IPv6 values are therefore only ASSUMED well formed, `ip_wf`, in
                                 c07_in_range / c07_loopback / c07_multicast).
     c07_in_range_partial, c07_duration_range_partial — earlier partial statements, kept (both are
                                 now subsumed by c07_in_range and c07_duration_spec).
   No explicit civil_from_days function is defined; c07_days_from_civil_injective states that the
   day number determines the valid date (existence and uniqueness of the inverse). *)
From Coq Require Import ZArith NArith List Bool.
From Coq Require QArith.
From Cedar Require Import ExtParse ExtParseProofs ExtIpProofs ExtDurationProofs ExtDatetimeProofs ExtIpParseProofs ExtCivilProofs.
Import ListNotations.
Open Scope Z_scope.

(* decimal(s) is accepted iff s = ['-'] digits '.' 1..4 digits (ASCII) and the exact value
   ±(int·10^4 + frac·10^(4-|frac|)) is an i64; then that is the value; everything else errors *)
Theorem c07_decimal_spec : forall s v, decimal_parse s = Some v <-> dec_spec s v.
Proof. exact decimal_parse_spec. Qed.
Print Assumptions c07_decimal_spec.

(* the Unicode table behind the regex's `\d` cannot influence the result *)
Theorem c07_decimal_digit_table_irrelevant : forall nd1 nd2 s,
  nd_ok nd1 -> nd_ok nd2 -> decimal_parse_with nd1 s = decimal_parse_with nd2 s.
Proof. exact decimal_parse_nd_irrelevant. Qed.
Print Assumptions c07_decimal_digit_table_irrelevant.

Theorem c07_decimal_constructor : forall s,
  call_xfn (s2str "decimal") [VString s] =
  match decimal_parse s with Some v => Ok (dec v) | None => Err ErrExt end.
Proof. exact decimal_ctor_call. Qed.
Print Assumptions c07_decimal_constructor.

(* the four comparisons are the comparisons of the represented rationals z/10^4 *)
Theorem c07_decimal_cmp : forall x y,
  call_xfn (s2str "lessThan") [dec x; dec y] = Ok (VBool (x <? y)) /\
  call_xfn (s2str "lessThanOrEqual") [dec x; dec y] = Ok (VBool (x <=? y)) /\
  call_xfn (s2str "greaterThan") [dec x; dec y] = Ok (VBool (x >? y)) /\
  call_xfn (s2str "greaterThanOrEqual") [dec x; dec y] = Ok (VBool (x >=? y)) /\
  ((x <? y) = true <-> QArith_base.Qlt (dec_rat x) (dec_rat y)) /\
  ((x <=? y) = true <-> QArith_base.Qle (dec_rat x) (dec_rat y)) /\
  ((x >? y) = true <-> QArith_base.Qlt (dec_rat y) (dec_rat x)) /\
  ((x >=? y) = true <-> QArith_base.Qle (dec_rat y) (dec_rat x)).
Proof. exact decimal_cmp_rational. Qed.
Print Assumptions c07_decimal_cmp.

(* offset / durationSince: the exact sum / difference, the extension error iff outside i64 *)
Theorem c07_offset_exact : forall t d,
  call_xfn (s2str "offset") [dtv t; durv d] = if in_i64 (t + d) then Ok (dtv (t + d)) else Err ErrExt.
Proof. exact offset_call. Qed.
Print Assumptions c07_offset_exact.

Theorem c07_duration_since_exact : forall a b,
  call_xfn (s2str "durationSince") [dtv a; dtv b] = if in_i64 (a - b) then Ok (durv (a - b)) else Err ErrExt.
Proof. exact duration_since_call. Qed.
Print Assumptions c07_duration_since_exact.

(* toDate: the start of the day containing t (floor semantics, also for negative epochs);
   the error iff that instant is below i64::MIN *)
Theorem c07_to_date_exact : forall t, in_i64 t = true ->
  let day_start := day_ms * (t / day_ms) in
  day_start <= t < day_start + day_ms /\
  call_xfn (s2str "toDate") [dtv t] = if i64_min <=? day_start then Ok (dtv day_start) else Err ErrExt.
Proof. exact to_date_call. Qed.
Print Assumptions c07_to_date_exact.

Theorem c07_to_time_exact : forall t,
  call_xfn (s2str "toTime") [dtv t] = Ok (durv (t mod day_ms)) /\ 0 <= t mod day_ms < day_ms.
Proof. exact to_time_call. Qed.
Print Assumptions c07_to_time_exact.

Theorem c07_to_date_plus_to_time : forall t d, dt_to_date t = Some d -> d + dt_to_time t = t.
Proof. exact dt_to_date_plus_to_time. Qed.
Print Assumptions c07_to_date_plus_to_time.

(* toMilliseconds..toDays: truncation toward zero of the exact quotient; never an overflow *)
Theorem c07_duration_to_exact : forall ms, in_i64 ms = true ->
  call_xfn (s2str "toMilliseconds") [durv ms] = Ok (VLong ms) /\
  call_xfn (s2str "toSeconds") [durv ms] = Ok (VLong (Z.quot ms 1000)) /\
  call_xfn (s2str "toMinutes") [durv ms] = Ok (VLong (Z.quot ms 60000)) /\
  call_xfn (s2str "toHours") [durv ms] = Ok (VLong (Z.quot ms 3600000)) /\
  call_xfn (s2str "toDays") [durv ms] = Ok (VLong (Z.quot ms 86400000)) /\
  in_i64 (Z.quot ms 1000) = true /\ in_i64 (Z.quot ms 60000) = true /\
  in_i64 (Z.quot ms 3600000) = true /\ in_i64 (Z.quot ms 86400000) = true.
Proof. exact duration_to_calls. Qed.
Print Assumptions c07_duration_to_exact.

Theorem c07_rel_exact : forall a b,
  rel_apply RLess (dtv a) (dtv b) = Ok (VBool (a <? b)) /\
  rel_apply RLessEq (dtv a) (dtv b) = Ok (VBool (a <=? b)) /\
  rel_apply RLess (durv a) (durv b) = Ok (VBool (a <? b)) /\
  rel_apply RLessEq (durv a) (durv b) = Ok (VBool (a <=? b)).
Proof. exact rel_ext_exact. Qed.
Print Assumptions c07_rel_exact.

(* == on extension values is equality of the represented value (the value type carries no
   constructor string at all) *)
Theorem c07_eq_by_value : forall x y : ext,
  rel_apply REq (VExt x) (VExt y) = Ok (VBool true) <-> x = y.
Proof. exact eq_by_value. Qed.
Print Assumptions c07_eq_by_value.

(* days_from_civil: 1970-01-01 is day 0, and the successor of every valid date (month ends,
   year ends, leap years) is a valid date exactly one day later *)
Theorem c07_days_from_civil_correct :
  days_from_civil 1970 1 1 = 0 /\
  forall y m d, 0 <= y -> valid_ymd y m d = true ->
    let '(y', m', d') := next_date y m d in
    valid_ymd y' m' d' = true /\ days_from_civil y' m' d' = days_from_civil y m d + 1.
Proof. exact (conj epoch_day_zero days_from_civil_next). Qed.
Print Assumptions c07_days_from_civil_correct.

Theorem c07_in_range_partial : forall a b,
  ip_is_in_range a a = true /\ (ip_is_in_range a b = true -> ip_v6 a = ip_v6 b).
Proof. exact (fun a b => conj (ip_in_range_refl a) (ip_in_range_same_family a b)). Qed.
Print Assumptions c07_in_range_partial.

Theorem c07_duration_range_partial : forall neg x y mul r,
  dur_checked_op neg x y mul = Some r -> in_i64 r = true.
Proof. exact dur_checked_op_in_range. Qed.
Print Assumptions c07_duration_range_partial.

(* duration(s) is accepted iff s = ['-'] followed by the ordered optional groups
   digits"d" digits"h" digits"m" digits"s" digits"ms" (at least one), and the exact value
   +-(d*86400000 + h*3600000 + m*60000 + s*1000 + ms) is an i64; then that is the value;
   everything else (shape or overflow) is the extension error *)
Theorem c07_duration_spec : forall s v, duration_parse s = Some v <-> dur_spec s v.
Proof. exact duration_parse_spec. Qed.
Print Assumptions c07_duration_spec.

(* isInRange <-> same family and every address sharing a's first prefix bits also shares b's
   (includes /0, /32, /128, where the code relies on checked_shl/shr returning None) *)
Theorem c07_in_range : forall a b, ip_wf a -> ip_wf b ->
  (ip_is_in_range a b = true <->
   ip_v6 a = ip_v6 b /\ forall x, in_ip_range a x -> in_ip_range b x).
Proof. exact ip_in_range_iff. Qed.
Print Assumptions c07_in_range.

(* isLoopback = inclusion in 127.0.0.0/8 resp. ::1/128; isMulticast = inclusion in 224.0.0.0/4 resp. ff00::/8 *)
Theorem c07_loopback : forall a, ip_wf a ->
  ip_is_loopback a = ip_is_in_range a (loopback_block (ip_v6 a)).
Proof. exact ip_loopback_is_range. Qed.
Print Assumptions c07_loopback.

Theorem c07_multicast : forall a, ip_wf a ->
  ip_is_multicast a = ip_is_in_range a (multicast_block (ip_v6 a)).
Proof. exact ip_multicast_is_range. Qed.
Print Assumptions c07_multicast.

Theorem c07_days_from_civil_monotone : forall y m d y' m' d',
  0 <= y -> valid_ymd y m d = true -> valid_ymd y' m' d' = true ->
  (y < y' \/ (y = y' /\ (m < m' \/ (m = m' /\ d < d')))) ->
  days_from_civil y m d < days_from_civil y' m' d'.
Proof. exact days_from_civil_monotone. Qed.
Print Assumptions c07_days_from_civil_monotone.

Theorem c07_days_from_civil_injective : forall y m d y' m' d',
  0 <= y -> 0 <= y' -> valid_ymd y m d = true -> valid_ymd y' m' d' = true ->
  days_from_civil y m d = days_from_civil y' m' d' -> y = y' /\ m = m' /\ d = d'.
Proof. exact days_from_civil_injective. Qed.
Print Assumptions c07_days_from_civil_injective.

Theorem c07_datetime_spec_partial : forall s ms, datetime_parse s = Some ms -> dt_spec s ms.
Proof. exact datetime_parse_sound. Qed.
Print Assumptions c07_datetime_spec_partial.

Theorem c07_ip_spec_partial : forall s a, ip_parse s = Some a -> ip_v6 a = false ->
  exists O1 O2 O3 O4 o1 o2 o3 o4,
    dec_field 3 255 O1 o1 /\ dec_field 3 255 O2 o2 /\ dec_field 3 255 O3 o3 /\ dec_field 3 255 O4 o4 /\
    ip_addr a = (((o1 * 256 + o2) * 256 + o3) * 256 + o4)%N /\
    ((s = O1 ++ 46%N :: O2 ++ 46%N :: O3 ++ 46%N :: O4 /\ ip_prefix a = 32%N) \/
     exists P, s = (O1 ++ 46%N :: O2 ++ 46%N :: O3 ++ 46%N :: O4) ++ 47%N :: P /\
               dec_field 2 32 P (ip_prefix a)) /\
    ip_wf a.
Proof. exact ip_parse_v4_sound. Qed.
Print Assumptions c07_ip_spec_partial.

(* ---- non-vacuity / sanity: concrete instances *)
Example ex_decimal : decimal_parse (s2str "-1.50") = Some (-15000). Proof. vm_compute. reflexivity. Qed.
Example ex_decimal_max : decimal_parse (s2str "922337203685477.5807") = Some 9223372036854775807. Proof. vm_compute. reflexivity. Qed.
Example ex_decimal_over : decimal_parse (s2str "922337203685477.5808") = None. Proof. vm_compute. reflexivity. Qed.
Example ex_decimal_5 : decimal_parse (s2str "1.00000") = None. Proof. vm_compute. reflexivity. Qed.
Example ex_dec_spec : dec_spec (s2str "-1.50") (-15000).
Proof. apply c07_decimal_spec. vm_compute. reflexivity. Qed.
Example ex_datetime : datetime_parse (s2str "1969-12-31T23:59:59.999+0100") = Some (-3600001). Proof. vm_compute. reflexivity. Qed.
Example ex_leap : valid_ymd 1900 2 29 = false /\ valid_ymd 2000 2 29 = true /\ next_date 2024 2 29 = (2024, 3, 1) /\ days_from_civil 2024 2 29 = 19782.
Proof. vm_compute. auto. Qed.
Example ex_duration : duration_parse (s2str "-9223372036854775808ms") = Some (-9223372036854775808) /\ duration_parse (s2str "1d2h3m4s5ms") = Some 93784005 /\ duration_parse (s2str "1h1d") = None.
Proof. vm_compute. auto. Qed.
Example ex_ip : ip_parse (s2str "::1/64") = Some (mkIp true 1 64) /\ ip_parse (s2str "::ffff:1.2.3.4") = None /\ ip_parse (s2str "10.0.0.0/032") = None.
Proof. vm_compute. auto. Qed.
Example ex_to_date_neg : dt_to_date (-1) = Some (-86400000) /\ dt_to_time (-1) = 86399999 /\ dt_to_date (-9223372036854775808) = None.
Proof. vm_compute. auto. Qed.
Example ex_dur_spec : dur_spec (s2str "-1d2h") (-93600000).
Proof. apply c07_duration_spec. vm_compute. reflexivity. Qed.
Example ex_in_range : ip_wf (mkIp false 167772165 8) /\ ip_is_in_range (mkIp false 167772165 8) (mkIp false 167772160 8) = true
  /\ ip_is_in_range (mkIp true 0 0) (mkIp true 0 127) = false /\ ip_is_loopback (mkIp false 2130706433 32) = true.
Proof. vm_compute. repeat split; auto; discriminate. Qed.
Example ex_dt_spec : exists ms, datetime_parse (s2str "2024-02-29T23:59:59.999-2359") = Some ms /\ dt_spec (s2str "2024-02-29T23:59:59.999-2359") ms.
Proof. eexists. split; [vm_compute; reflexivity|]. apply c07_datetime_spec_partial. vm_compute. reflexivity. Qed.
Example ex_ip_v4 : ip_parse (s2str "10.0.0.5/8") = Some (mkIp false 167772165 8). Proof. vm_compute. reflexivity. Qed.
