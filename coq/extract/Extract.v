(* Extraction of the executable model.  ExtrOcamlBasic only: bool/option/unit/list/prod/
   sumbool/sumor are mapped to OCaml's, everything else (Z, N, positive, ascii, string)
   stays the extracted inductive type.  No Extract Constant of our own. *)
From Coq Require Import Extraction ExtrOcamlBasic.
From Cedar Require Import RunAll.
Extraction "model.ml" run Z.add Z.mul Z.opp Z.div_eucl Z.of_nat Z.ltb Z.eqb.
