(* driver.ml — generic line-oriented S-expression driver around the extracted model.
   One S-expression per input line; one answer per output line.  Trusted glue: text <-> sexp. *)
open Model

let z_of_int (i : int) : z =
  (* i >= 0 small *)
  let rec pos n = if n = 1 then XH else if n land 1 = 0 then XO (pos (n lsr 1)) else XI (pos (n lsr 1)) in
  if i = 0 then Z0 else if i > 0 then Zpos (pos i) else Zneg (pos (-i))

let z10 = z_of_int 10

let z_of_decimal (s : Stdlib.String.t) : z =
  let neg, start = if Stdlib.String.length s > 0 && s.[0] = '-' then true, 1 else false, 0 in
  let acc = ref Z0 in
  for i = start to Stdlib.String.length s - 1 do
    let d = Char.code s.[i] - 48 in
    if d < 0 || d > 9 then failwith ("bad integer: " ^ s);
    acc := Z.add (Z.mul !acc z10) (z_of_int d)
  done;
  if neg then Z.opp !acc else !acc

let rec int_of_pos = function XH -> 1 | XO p -> 2 * int_of_pos p | XI p -> 2 * int_of_pos p + 1
let int_of_z = function Z0 -> 0 | Zpos p -> int_of_pos p | Zneg p -> - (int_of_pos p)

let decimal_of_z (x : z) : Stdlib.String.t =
  match x with
  | Z0 -> "0"
  | _ ->
    let neg, a = (match x with Zneg p -> true, Zpos p | _ -> false, x) in
    let buf = Buffer.create 24 in
    let rec go a =
      match a with
      | Z0 -> ()
      | _ -> let (q, r) = Z.div_eucl a z10 in
             go q; Buffer.add_char buf (Char.chr (48 + int_of_z r))
    in
    go a;
    (if neg then "-" else "") ^ Buffer.contents buf

let n_of_z = function Z0 -> N0 | Zpos p -> Npos p | Zneg _ -> N0
let z_of_n = function N0 -> Z0 | Npos p -> Zpos p

let coq_string_of (s : Stdlib.String.t) : string =
  let r = ref EmptyString in
  for i = Stdlib.String.length s - 1 downto 0 do
    let c = Char.code s.[i] in
    let b k = (c lsr k) land 1 = 1 in
    r := String (Ascii (b 0, b 1, b 2, b 3, b 4, b 5, b 6, b 7), !r)
  done; !r

let ocaml_string_of (s : string) : Stdlib.String.t =
  let buf = Buffer.create 16 in
  let rec go = function
    | EmptyString -> ()
    | String (Ascii (b0, b1, b2, b3, b4, b5, b6, b7), r) ->
      let v x k = if x then 1 lsl k else 0 in
      Buffer.add_char buf (Char.chr (v b0 0 + v b1 1 + v b2 2 + v b3 3 + v b4 4 + v b5 5 + v b6 6 + v b7 7));
      go r in
  go s; Buffer.contents buf

(* ---- reader ---- *)
exception Parse_error of Stdlib.String.t

let parse (s : Stdlib.String.t) : sexp =
  let n = Stdlib.String.length s in
  let pos = ref 0 in
  let peek () = if !pos < n then s.[!pos] else '\000' in
  let skip_ws () = while !pos < n && (s.[!pos] = ' ' || s.[!pos] = '\t' || s.[!pos] = '\r') do incr pos done in
  let is_digit c = c >= '0' && c <= '9' in
  let is_sym c = (c >= 'a' && c <= 'z') || (c >= 'A' && c <= 'Z') || c = '_' || is_digit c in
  let read_int () =
    let st = !pos in
    if peek () = '-' then incr pos;
    while !pos < n && is_digit s.[!pos] do incr pos done;
    Stdlib.String.sub s st (!pos - st) in
  let rec item () : sexp =
    skip_ws ();
    let c = peek () in
    if c = '(' then begin
      incr pos;
      let items = ref [] in
      skip_ws ();
      while peek () <> ')' do
        if !pos >= n then raise (Parse_error "eof in list");
        items := item () :: !items; skip_ws ()
      done;
      incr pos; SL (List.rev !items)
    end else if c = '[' then begin
      incr pos;
      let items = ref [] in
      skip_ws ();
      while peek () <> ']' do
        if !pos >= n then raise (Parse_error "eof in str");
        items := n_of_z (z_of_decimal (read_int ())) :: !items; skip_ws ()
      done;
      incr pos; SS (List.rev !items)
    end else if c = '-' || is_digit c then SI (z_of_decimal (read_int ()))
    else if is_sym c then begin
      let st = !pos in
      while !pos < n && is_sym s.[!pos] do incr pos done;
      SY (coq_string_of (Stdlib.String.sub s st (!pos - st)))
    end else raise (Parse_error (Printf.sprintf "unexpected char %C at %d" c !pos))
  in
  item ()

(* ---- printer ---- *)
let rec print (b : Buffer.t) (x : sexp) : unit =
  match x with
  | SI z -> Buffer.add_string b (decimal_of_z z)
  | SS l ->
    Buffer.add_char b '[';
    List.iteri (fun i c -> if i > 0 then Buffer.add_char b ' '; Buffer.add_string b (decimal_of_z (z_of_n c))) l;
    Buffer.add_char b ']'
  | SY s -> Buffer.add_string b (ocaml_string_of s)
  | SL l ->
    Buffer.add_char b '(';
    List.iteri (fun i c -> if i > 0 then Buffer.add_char b ' '; print b c) l;
    Buffer.add_char b ')'

let () =
  let b = Buffer.create 4096 in
  (try
     while true do
       let line = input_line stdin in
       Buffer.clear b;
       (try print b (run (parse line))
        with Parse_error m -> Buffer.clear b; Buffer.add_string b ("(driver_parse_error)"); prerr_endline m
           | Failure m -> Buffer.clear b; Buffer.add_string b ("(driver_failure)"); prerr_endline m);
       print_string (Buffer.contents b); print_newline ()
     done
   with End_of_file -> ())
