"""tgen — schema-directed generation of policies and of conformant (request, entity store) pairs.

   Shared by C03 (typechecker soundness) and the properties that consume validated policies
   (C14-C18).  Everything is derived from the `random.Random` instance handed in.

   Public API (stable):

     gen_schema(rng, **kw)                  -> schema object with .js (Cedar JSON schema) and .rs (resolved
                                               schema, see vp/schema.py `resolve`)
     request_envs(rs)                       -> [Env]  every (principal type, action, resource type) of the schema
     gen_policy(rng, rs, well_typed=None,   -> Pol    one policy (or template) aimed at one request environment
                env=None, depth=3, ...)               well_typed=None: well-typed w.p. 0.7, else ONE typing fault
     gen_env(rng, rs, env_or_action,        -> (request, entities)  conformant data for the schema; optional
             hints=None, slots=None)                  attributes / tags / entities independently present or absent
     policy_text(pol)                       -> Cedar text of pol.policy (uses the `has a.b` sugar sometimes)
     FAULTS                                 -> the catalogue of typing faults (name -> expectation)

   Data shapes are those of vp/cedar.py (expr / policy / request / entities) and vp/schema.py (resolved
   types).  `Pol` carries the intent: .fault (None for well-typed), .expect, .guarded (uses an optional
   attribute or tag behind a documented guard), .env (the request environment the body is typed for),
   .slots (slot -> uid for templates, else {}).

   WELL-TYPED means: accepted by the STRICT validator in every request environment.  The body is typed for
   ONE environment; the scope (or `principal is T && ...` guards at the top of the body) makes every other
   environment short-circuit to False, which is one of the documented idioms.

   Conformant data come from vp/props/c11.py DataGen (imported, not modified)."""
import os
import sys

sys.path.insert(0, os.path.dirname(os.path.abspath(__file__)))
sys.path.insert(0, os.path.join(os.path.dirname(os.path.abspath(__file__)), "props"))

import cedar                                      # noqa: E402
import schema as S                                # noqa: E402
from cedar import U                               # noqa: E402
from c11 import DataGen, LONGS, STRINGS, IDS      # noqa: E402

BOOL, LONG, STRING = ("bool",), ("long",), ("string",)
TAG_KEYS = ["t1", "t 2", "é"]                     # the keys DataGen.entity uses for tags

# fault name -> what the validator is expected to do with it (when the fault sits in live code)
#   reject        : rejected in strict and permissive mode
#   reject_strict : rejected in strict mode only
#   accept        : accepted (typed False / harmless) — listed because unit tests rarely evaluate them
FAULTS = {
    "unguarded_optional": "reject",       # principal.opt without `principal has opt`
    "guard_wrong_side_of_or": "reject",   # principal has opt || principal.opt ...
    "guard_in_else": "reject",            # if principal has opt then .. else principal.opt ...
    "capability_after_not": "reject",     # !(principal has opt) && principal.opt ...
    "if_test_capability_after": "reject",   # (if principal has opt then true else true) && principal.opt ...  (test capability
                                            #  holds in the then branch only; it must not survive the conditional)
    "if_branch_capability_after": "reject",  # (if c then principal has opt else true) && principal.opt ...  (then ∩ else)
    "or_capability_after": "reject",      # (principal has opt || !(principal has opt)) && principal.opt ...  (left ∩ right)
    "guard_other_attr": "reject",         # principal has a && principal.b ...   (b optional, a != b)
    "guard_other_base": "reject",         # principal has a && resource.a ...
    "tag_without_hastag": "reject",       # e.getTag(k) with no hasTag
    "tag_other_key": "reject",            # e.hasTag("a") && e.getTag("b")
    "eq_disjoint_types": "reject_strict",  # 1 == "a"   (runtime: false)
    "eq_disjoint_entities": "accept",     # principal == Other::"x"   typed False
    "wrong_operand_type": "reject",       # "a" + 1, 1 like "x", !5, ...
    "undeclared_attribute": "reject",     # principal.nope
    "wrong_action_context": "reject",     # context attribute of another action
    "if_branch_types": "reject",          # if c then 1 else "a"
    "set_mixed_types": "reject",          # [1, "a"]
    "set_mixed_entities": "reject_strict",  # [A::"x", B::"y"]
    "empty_set_literal": "reject_strict",   # [] anywhere
    "ext_nonliteral_ctor": "reject_strict",  # decimal(context.s)
    "ext_bad_literal": "reject",          # decimal("abc")
    "unknown_entity_type": "reject",      # Nope::"x"
    "undeclared_action_literal": "reject",  # Action::"nope"
    "bad_enum_id": "reject",              # Color::"not-a-choice"
}

EXT_LITS = {
    "decimal": ["1.5", "0.0", "-1.2345", "922337203685477.5807", "15.0"],
    "ipaddr": ["10.0.0.1", "192.168.0.0/16", "::1", "10.0.0.0/8", "ff00::/8"],
    "datetime": ["1970-01-01", "2023-11-14T22:13:20.000Z", "1969-12-31", "9999-12-31T23:59:59.999Z"],
    "duration": ["0ms", "1d1h1m1s1ms", "-5ms", "1h", "106751991167d"],
}
EXT_CTOR = {"decimal": "decimal", "ipaddr": "ip", "datetime": "datetime", "duration": "duration"}
EXT_BAD_LITS = {"decimal": ["abc", "1.23456", "1."], "ipaddr": ["10.0.0", "::g"], "datetime": ["2023-13-01", "x"],
                "duration": ["1x", "ms"]}
# extension functions other than the constructors: name -> (argument types, return type)
DEC, IP, DT, DUR = ("ext", "decimal"), ("ext", "ipaddr"), ("ext", "datetime"), ("ext", "duration")
EXT_FUNCS = {
    "lessThan": ([DEC, DEC], BOOL), "lessThanOrEqual": ([DEC, DEC], BOOL),
    "greaterThan": ([DEC, DEC], BOOL), "greaterThanOrEqual": ([DEC, DEC], BOOL),
    "isIpv4": ([IP], BOOL), "isIpv6": ([IP], BOOL), "isLoopback": ([IP], BOOL), "isMulticast": ([IP], BOOL),
    "isInRange": ([IP, IP], BOOL),
    "offset": ([DT, DUR], DT), "durationSince": ([DT, DT], DUR), "toDate": ([DT], DT), "toTime": ([DT], DUR),
    "toMilliseconds": ([DUR], LONG), "toSeconds": ([DUR], LONG), "toMinutes": ([DUR], LONG),
    "toHours": ([DUR], LONG), "toDays": ([DUR], LONG),
}
PATTERNS = [[("*",)], ["a", ("*",)], [("*",), "y"], ["x", " ", "y"], [], ["*"], ["h", ("*",), "o"], ["1", ".", "5"]]


class Env:
    """one request environment of the schema"""
    __slots__ = ("principal", "action", "resource", "context")

    def __init__(self, principal, action, resource, context):
        self.principal, self.action, self.resource, self.context = principal, action, resource, context

    def key(self):
        return (self.principal, self.action, self.resource)

    def __repr__(self):
        return "Env(%s, %s::%r, %s)" % ("::".join(self.principal), "::".join(self.action[1]), self.action[2],
                                         "::".join(self.resource))


class Pol:
    """a generated policy with the generator's intent"""
    __slots__ = ("policy", "fault", "expect", "guarded", "env", "slots", "features")

    def __init__(self, policy, fault, guarded, env, slots, features):
        self.policy, self.fault, self.guarded, self.env, self.slots = policy, fault, guarded, env, slots
        self.expect = "accept" if fault is None else FAULTS[fault]
        self.features = features

    @property
    def is_template(self):
        return bool(self.slots)


# ====================================================================== schemas
def gen_schema(rng, depth=2, open_entities=True, common_types=True):
    """a random schema (vp/schema.py SchemaGen) that has at least one request environment"""
    for _ in range(200):
        try:
            sg = S.SchemaGen(rng, depth=depth, open_entities=open_entities, common_types=common_types)
        except S.SchemaError:
            continue
        if request_envs(sg.rs):
            return sg
    raise RuntimeError("no schema with a request environment in 200 attempts")


def request_envs(rs):
    out = []
    for a in sorted(rs["actions"]):
        i = rs["actions"][a]
        for p in i["principals"]:
            for r in i["resources"]:
                out.append(Env(p, a, r, i["context"]))
    return out


def lit(kind, v):
    return ("lit", (kind, v))


TRUE, FALSE = lit("bool", True), lit("bool", False)


def var(v):
    return ("var", v)


def conj(gs):
    acc = gs[-1]
    for g in reversed(gs[:-1]):
        acc = ("and", g, acc)
    return acc


# ====================================================================== expressions
class ExprGen:
    """type-directed expressions over one request environment.

       gen(t, d) returns (expr, needs): `needs` is the ordered list of guard expressions (`x has a`,
       `x.hasTag(k)`) that must hold before `expr` may be evaluated; they are discharged at the nearest
       enclosing boolean position by one of the documented idioms (`g && e`, `if g then e else false`,
       `x has a.b`).  gen_bool always returns a closed expression (no pending needs)."""

    def __init__(self, rng, rs, env, depth=3):
        self.r, self.rs, self.env, self.depth = rng, rs, env, depth
        self.features = set()
        self.guarded = False
        self.etypes = sorted(rs["etypes"])
        self.roots = [(var("principal"), ("entity", env.principal), []),
                      (var("resource"), ("entity", env.resource), []),
                      (var("context"), env.context, [])]
        self.paths = self._enumerate_paths()

    # ---- access paths
    def _steps(self, e, t, needs):
        out = []
        if t[0] == "entity":
            i = self.rs["etypes"].get(t[1])
            if i is None or i["enum"] is not None:
                return out
            for a, at, req in i["attrs"]:
                out.append((("getattr", e, a), at, needs + ([] if req else [("hasattr", e, a)])))
            if i["tags"] is not None:
                for k in TAG_KEYS[:2]:
                    ke = lit("string", k)
                    out.append((("binop", "getTag", e, ke), i["tags"], needs + [("binop", "hasTag", e, ke)]))
        elif t[0] == "record":
            for a, at, req in t[1]:
                out.append((("getattr", e, a), at, needs + ([] if req else [("hasattr", e, a)])))
        return out

    def _enumerate_paths(self):
        out = list(self.roots)
        frontier = list(self.roots)
        for _ in range(3):
            nxt = []
            for e, t, needs in frontier:
                nxt.extend(self._steps(e, t, needs))
            if len(nxt) > 60:
                nxt = self.r.sample(nxt, 60)
            out.extend(nxt)
            frontier = nxt
        return out

    def paths_of(self, pred):
        return [p for p in self.paths if pred(p[1])]

    def pick_path(self, t):
        c = [p for p in self.paths if p[1] == t]
        if not c:
            return None
        # prefer guarded paths a little: they are what the property is about
        g = [p for p in c if p[2]]
        p = self.r.choice(g) if g and self.r.random() < 0.6 else self.r.choice(c)
        if p[2]:
            self.guarded = True
        return p[0], list(p[2])

    # ---- literals
    def entity_literal(self, ty):
        i = self.rs["etypes"].get(ty)
        if i is not None and i["enum"] is not None:
            return lit("entity", U(ty, self.r.choice(i["enum"])))
        return lit("entity", U(ty, self.r.choice(IDS)))

    def ext_literal(self, name, bad=False):
        pool = EXT_BAD_LITS if bad else EXT_LITS
        return ("ext", EXT_CTOR[name], [lit("string", self.r.choice(pool[name]))])

    def literal(self, t):
        """a closed expression of exactly type t built from literals, or None (records with optional
           attributes, open records and empty types have none)"""
        r = self.r
        k = t[0]
        if k == "bool":
            return lit("bool", r.random() < 0.5)
        if k == "long":
            return lit("long", r.choice(LONGS + [2, 3, 10]))
        if k == "string":
            return lit("string", r.choice(STRINGS))
        if k == "entity":
            return self.entity_literal(t[1])
        if k == "ext":
            return self.ext_literal(t[1])
        if k == "set":
            items = [self.literal(t[1]) for _ in range(r.choice([1, 1, 2, 3]))]
            return None if any(x is None for x in items) else ("set", items)
        if k == "record":
            if t[2] or any(not req for _, _, req in t[1]):
                return None
            items = [(a, self.literal(at)) for a, at, _ in t[1]]
            return None if any(x is None for _, x in items) else ("record", items)
        return None

    # ---- generic
    def gen(self, t, d):
        """(expr, needs) of exactly type t; falls back to a literal, then to a path; None if impossible"""
        r = self.r
        k = t[0]
        choices = []
        if d > 0:
            choices += ["path", "path", "if"]
            if k == "long":
                choices += ["arith", "arith", "ext"]
            if k == "ext" and t[1] in ("datetime", "duration"):
                choices += ["ext"]
            if k == "bool":
                choices += ["bool"] * 4
            if k in ("set", "record"):
                choices += ["build"]
        choices += ["lit", "path"]
        for _ in range(4):
            c = r.choice(choices)
            res = None
            if c == "lit":
                e = self.literal(t)
                res = None if e is None else (e, [])
            elif c == "path":
                res = self.pick_path(t)
            elif c == "bool":
                res = (self.gen_bool(d - 1), [])
            elif c == "if":
                res = self.gen_if(t, d)
            elif c == "arith":
                res = self.gen_arith(d)
            elif c == "ext":
                res = self.gen_ext_call(t, d)
            elif c == "build":
                res = self.gen_build(t, d)
            if res is not None:
                return res
        e = self.literal(t)
        if e is not None:
            return e, []
        return self.pick_path(t)

    def gen_if(self, t, d):
        """if c then x else y;  with probability 1/2 the condition is exactly the guard x needs"""
        x = self.gen(t, d - 1)
        y = self.gen(t, d - 1)
        if x is None or y is None:
            return None
        self.features.add("if")
        if x[1] and self.r.random() < 0.6:
            self.features.add("guard:if_nonbool")
            return ("if", conj(x[1]), x[0], y[0]), y[1]
        return ("if", self.gen_bool(d - 1), x[0], y[0]), x[1] + y[1]

    def gen_arith(self, d):
        r = self.r
        a = self.gen(LONG, d - 1)
        if a is None:
            return None
        self.features.add("arith")
        if r.random() < 0.2:
            return ("unop", "neg", a[0]), a[1]
        b = self.gen(LONG, d - 1)
        op = r.choice(["add", "sub", "mul"])
        if op == "mul" and r.random() < 0.5:
            b = (lit("long", r.choice([0, 1, 2, -1])), [])
        return ("binop", op, a[0], b[0]), a[1] + b[1]

    def gen_ext_call(self, t, d):
        cands = [f for f, (args, ret) in EXT_FUNCS.items() if ret == t]
        if not cands:
            return None
        f = self.r.choice(cands)
        args, needs = [], []
        for at in EXT_FUNCS[f][0]:
            a = self.gen(at, d - 1)
            if a is None:
                return None
            args.append(a[0])
            needs += a[1]
        self.features.add("ext:" + f)
        return ("ext", f, args), needs

    def gen_build(self, t, d):
        """set / record literal with non-literal members"""
        if t[0] == "set":
            items, needs = [], []
            for _ in range(self.r.choice([1, 2, 2])):
                x = self.gen(t[1], d - 1)
                if x is None:
                    return None
                items.append(x[0])
                needs += x[1]
            self.features.add("set_literal")
            return ("set", items), needs
        if t[2] or any(not req for _, _, req in t[1]):
            return None
        items, needs = [], []
        for a, at, _ in t[1]:
            x = self.gen(at, d - 1)
            if x is None:
                return None
            items.append((a, x[0]))
            needs += x[1]
        self.features.add("record_literal")
        return ("record", items), needs

    # ---- booleans
    def discharge(self, b, needs):
        """close the boolean expression b over its pending guards, innermost guard last"""
        r = self.r
        needs = dedup(needs)
        i = len(needs) - 1
        while i >= 0:
            g = needs[i]
            # `x has a.b`: two consecutive guards where the second tests an attribute of the first's access
            if i > 0 and g[0] == "hasattr" and needs[i - 1][0] == "hasattr" and \
                    g[1] == ("getattr", needs[i - 1][1], needs[i - 1][2]) and r.random() < 0.6:
                g = ("and", needs[i - 1], g)
                self.features.add("guard:has_chain")
                i -= 1
            c = r.random()
            if c < 0.65:
                b = ("and", g, b)
                self.features.add("guard:and")
            elif c < 0.9:
                b = ("if", g, b, FALSE if r.random() < 0.7 else self.closed_atom())
                self.features.add("guard:if")
            else:
                # !(g) || b is NOT accepted (no capability through !): use the nested-and form instead
                b = ("and", ("and", g, TRUE), b)
                self.features.add("guard:and_nested")
            i -= 1
        return b

    def closed_atom(self):
        """a boolean that needs no guard"""
        r = self.r
        c = r.random()
        if c < 0.3:
            return lit("bool", r.random() < 0.5)
        if c < 0.6:
            return ("binop", "eq", var("principal"), self.entity_literal(self.env.principal))
        if c < 0.8:
            return ("is", var("resource"), self.env.resource)
        return ("binop", "less", lit("long", r.choice(LONGS[:4])), lit("long", r.choice(LONGS[:4])))

    def gen_bool(self, d):
        b, needs = self.gen_bool_open(d)
        return self.discharge(b, needs) if needs else b

    def gen_bool_open(self, d):
        r = self.r
        if d <= 0:
            kinds = ["path", "cmp", "lit", "is", "has", "action"]
        else:
            kinds = ["path", "cmp", "cmp", "cmp", "rel", "in", "in", "is", "like", "contains", "containsAA", "isEmpty",
                     "has", "has", "hastag", "and", "and", "or", "not", "if", "ext", "action", "lit", "gettag",
                     "guarded", "guarded", "guarded", "guarded"]
        for _ in range(6):
            k = r.choice(kinds)
            res = getattr(self, "b_" + k)(d)
            if res is not None:
                self.features.add(k)
                return res
        return lit("bool", r.random() < 0.5), []

    def b_lit(self, d):
        return lit("bool", self.r.random() < 0.5), []

    def b_guarded(self, d):
        """a use of an optional attribute / tag (the guards are discharged by the caller)"""
        p = self.optional_access()
        if p is None:
            return None
        use, oneeds = self.use_of(p[0], p[1], max(d - 1, 0))
        self.guarded = True
        return use, list(p[2]) + oneeds

    def b_path(self, d):
        return self.pick_path(BOOL)

    def some_type(self):
        """a type for which values are reachable: the type of a random path, or a primitive"""
        r = self.r
        if r.random() < 0.7:
            return r.choice(self.paths)[1]
        return r.choice([LONG, STRING, BOOL, ("entity", self.env.principal), ("entity", self.env.resource),
                         ("ext", r.choice(S.EXT_TYPES)), ("set", LONG), ("set", STRING)])

    def b_cmp(self, d):
        t = self.some_type()
        a = self.gen(t, d - 1)
        b = self.gen(t, d - 1)
        if a is None or b is None:
            return None
        return ("binop", "eq", a[0], b[0]), a[1] + b[1]

    def b_rel(self, d):
        t = self.r.choice([LONG, LONG, LONG, DT, DUR])
        a = self.gen(t, d - 1)
        b = self.gen(t, d - 1)
        if a is None or b is None:
            return None
        return ("binop", self.r.choice(["less", "lesseq"]), a[0], b[0]), a[1] + b[1]

    def entity_expr(self, d, ty=None):
        """(expr, needs, type) of some entity type"""
        r = self.r
        c = [p for p in self.paths if p[1][0] == "entity" and (ty is None or p[1][1] == ty)]
        if c and r.random() < 0.75:
            p = r.choice(c)
            if p[2]:
                self.guarded = True
            return p[0], list(p[2]), p[1][1]
        ty = ty or r.choice(self.etypes)
        return self.entity_literal(ty), [], ty

    def b_in(self, d):
        r = self.r
        a, na, ta = self.entity_expr(d)
        c = r.random()
        # right-hand side: an entity of an ancestor type (or any type), a set literal, or a set-typed path
        anc = [n for n in self.etypes if ta in self.rs["etypes"][n]["descendants"]] + [ta]
        if c < 0.5:
            b, nb, _ = self.entity_expr(d, r.choice(anc) if r.random() < 0.7 else None)
            return ("binop", "in", a, b), na + nb
        if c < 0.8:
            ty = r.choice(anc) if r.random() < 0.7 else r.choice(self.etypes)
            items = [self.entity_literal(ty) for _ in range(r.choice([1, 2, 3]))]
            return ("binop", "in", a, ("set", items)), na
        sp = [p for p in self.paths if p[1][0] == "set" and p[1][1][0] == "entity"]
        if not sp:
            return None
        p = r.choice(sp)
        if p[2]:
            self.guarded = True
        return ("binop", "in", a, p[0]), na + list(p[2])

    def b_action(self, d):
        """the action variable against action literals (the validator evaluates these statically)"""
        r = self.r
        acts = sorted(self.rs["actions"])
        a = self.env.action
        c = r.random()
        if c < 0.3:
            return ("binop", "eq", var("action"), lit("entity", r.choice(acts))), []
        if c < 0.6:
            return ("binop", "in", var("action"), lit("entity", r.choice(acts + self.rs["actions"][a]["ancestors"]))), []
        if c < 0.85:
            ty = r.choice(acts)[1]
            same = [x for x in acts if x[1] == ty]
            return ("binop", "in", var("action"), ("set", [lit("entity", x) for x in r.sample(same, r.randint(1, min(3, len(same))))])), []
        return ("binop", "in", lit("entity", r.choice(acts)), lit("entity", r.choice(acts))), []

    def b_is(self, d):
        a, na, ta = self.entity_expr(d)
        ty = ta if self.r.random() < 0.6 else self.r.choice(self.etypes)
        return ("is", a, ty), na

    def b_like(self, d):
        a = self.gen(STRING, d - 1)
        if a is None:
            return None
        return ("like", a[0], self.r.choice(PATTERNS)), a[1]

    def set_expr(self, d):
        """(expr, needs, element type)"""
        sp = [p for p in self.paths if p[1][0] == "set"]
        if sp and self.r.random() < 0.75:
            p = self.r.choice(sp)
            if p[2]:
                self.guarded = True
            return p[0], list(p[2]), p[1][1]
        et = self.r.choice([LONG, STRING, ("entity", self.env.principal)])
        x = self.gen(("set", et), d - 1)
        return None if x is None else (x[0], x[1], et)

    def b_contains(self, d):
        s = self.set_expr(d)
        if s is None:
            return None
        x = self.gen(s[2], d - 1)
        if x is None:
            return None
        return ("binop", "contains", s[0], x[0]), s[1] + x[1]

    def b_containsAA(self, d):
        s = self.set_expr(d)
        if s is None:
            return None
        o = self.gen(("set", s[2]), d - 1)
        if o is None:
            return None
        return ("binop", self.r.choice(["containsAll", "containsAny"]), s[0], o[0]), s[1] + o[1]

    def b_isEmpty(self, d):
        s = self.set_expr(d)
        if s is None:
            return None
        return ("unop", "isEmpty", s[0]), s[1]

    def b_has(self, d):
        """`x has a` used as a plain boolean (declared or undeclared attribute)"""
        r = self.r
        c = [p for p in self.paths if p[1][0] in ("entity", "record")]
        e, t, needs = r.choice(c)
        names = [a for a, _, _ in (self.rs["etypes"].get(t[1], {"attrs": []})["attrs"] if t[0] == "entity" else t[1])]
        a = r.choice(names) if names and r.random() < 0.8 else r.choice(S.ATTR_POOL + ["nope"])
        if needs:
            self.guarded = True
        return ("hasattr", e, a), list(needs)

    def b_hastag(self, d):
        a, na, ta = self.entity_expr(d)
        k = lit("string", self.r.choice(TAG_KEYS)) if self.r.random() < 0.8 else None
        if k is None:
            x = self.gen(STRING, d - 1)
            if x is None:
                return None
            return ("binop", "hasTag", a, x[0]), na + x[1]
        return ("binop", "hasTag", a, k), na

    def b_gettag(self, d):
        """e.hasTag(k) && e.getTag(k) <cmp>  with a computed key"""
        c = [p for p in self.paths if p[1][0] == "entity" and self.rs["etypes"].get(p[1][1], {}).get("tags") is not None]
        if not c:
            return None
        e, t, needs = self.r.choice(c)
        tt = self.rs["etypes"][t[1]]["tags"]
        k = self.gen(STRING, 1)
        if k is None or k[1]:
            k = (lit("string", self.r.choice(TAG_KEYS)), [])
        acc = ("binop", "getTag", e, k[0])
        other = self.gen(tt, d - 1)
        if other is None:
            return None
        self.guarded = True
        return ("binop", "eq", acc, other[0]), list(needs) + [("binop", "hasTag", e, k[0])] + other[1]

    def b_and(self, d):
        return ("and", self.gen_bool(d - 1), self.gen_bool(d - 1)), []

    def b_or(self, d):
        return ("or", self.gen_bool(d - 1), self.gen_bool(d - 1)), []

    def b_not(self, d):
        return ("unop", "not", self.gen_bool(d - 1)), []

    def b_if(self, d):
        return ("if", self.gen_bool(d - 1), self.gen_bool(d - 1), self.gen_bool(d - 1)), []

    def b_ext(self, d):
        return self.gen_ext_call(BOOL, d)

    # ---- faults: a boolean that is ill-typed for the named reason (closed otherwise)
    def optional_access(self):
        """(access expr, its type, [guards]) with at least one guard, or None"""
        c = [p for p in self.paths if p[2]]
        return self.r.choice(c) if c else None

    def use_of(self, e, t, d=1):
        """a boolean using expression e : t, and the guards the other operand needs"""
        r = self.r
        if t == BOOL and r.random() < 0.5:
            return e, []
        if t[0] == "set" and r.random() < 0.5:
            return ("unop", "isEmpty", e), []
        if t == STRING and r.random() < 0.3:
            return ("like", e, r.choice(PATTERNS)), []
        if t[0] == "record" and t[1] and r.random() < 0.5:
            return ("hasattr", e, r.choice(t[1])[0]), []
        o = self.gen(t, d)
        if o is None or r.random() < 0.2:
            return ("binop", "eq", e, e), []
        return (("binop", "eq", e, o[0]) if r.random() < 0.5 else ("binop", "eq", o[0], e)), o[1]

    def fault(self, name):
        """(boolean expr) or None when the schema offers no site for this fault"""
        r = self.r
        if name in ("unguarded_optional", "guard_wrong_side_of_or", "guard_in_else", "capability_after_not",
                    "if_test_capability_after", "if_branch_capability_after", "or_capability_after",
                    "guard_other_attr", "guard_other_base", "tag_without_hastag", "tag_other_key"):
            want_tag = name.startswith("tag_")
            c = [p for p in self.paths if p[2] and (p[2][-1][0] == "binop") == want_tag]
            if name in ("unguarded_optional",) and not c:
                c = [p for p in self.paths if p[2]]
            if not c:
                return None
            e, t, needs = r.choice(c)
            use, oneeds = self.use_of(e, t)
            g = needs[-1]
            outer = [x for x in needs[:-1] + oneeds if x != g]
            if name in ("unguarded_optional", "tag_without_hastag"):
                b = use
            elif name == "guard_wrong_side_of_or":
                b = ("or", g, use)
            elif name == "guard_in_else":
                b = ("if", g, r.choice([TRUE, FALSE]), use)
            elif name == "capability_after_not":
                b = ("and", ("unop", "not", g), use)
            elif name == "if_test_capability_after":
                b = ("and", ("if", g, TRUE, r.choice([TRUE, ("unop", "not", g)])), use)
            elif name == "if_branch_capability_after":
                c0 = self.gen(BOOL, 1)
                if c0 is None:
                    return None
                outer = outer + [x for x in c0[1] if x != g and x not in outer]
                b = ("and", ("if", c0[0], g, r.choice([TRUE, ("unop", "not", g)])), use)
            elif name == "or_capability_after":
                b = ("and", ("or", g, r.choice([TRUE, ("unop", "not", g)])), use)
            elif name == "guard_other_attr":
                # the guard tests another DECLARED attribute of the same base (an undeclared one would be typed
                # False on a closed type and make the access dead code)
                base, t0 = g[1], self._type_of_base(g[1])
                others = [a for a in self._attr_names(t0) if a != g[2]]
                if not others:
                    return None
                b = ("and", ("hasattr", base, r.choice(others)), use)
            elif name == "guard_other_base":
                # the same attribute name tested on another expression that declares it
                obs = [p for p in self.paths if p[0] != g[1] and not p[2] and g[2] in self._attr_names(p[1])]
                if not obs:
                    return None
                b = ("and", ("hasattr", r.choice(obs)[0], g[2]), use)
            else:   # tag_other_key
                k2 = lit("string", r.choice([k for k in TAG_KEYS + ["zz"] if lit("string", k) != g[3]]))
                b = ("and", ("binop", "hasTag", g[2], k2), use)
            return self.discharge(b, outer) if outer else b
        if name == "eq_disjoint_types":
            t1, t2 = r.sample([LONG, STRING, BOOL, ("ext", "decimal"), ("set", LONG), ("entity", self.env.principal)], 2)
            a, b = self.gen(t1, 1), self.gen(t2, 1)
            return self.discharge(("binop", "eq", a[0], b[0]), a[1] + b[1])
        if name == "eq_disjoint_entities":
            others = [n for n in self.etypes if n != self.env.principal]
            if not others:
                return None
            return ("binop", "eq", var("principal"), self.entity_literal(r.choice(others)))
        if name == "wrong_operand_type":
            s, n, bl = self.gen(STRING, 1), self.gen(LONG, 1), self.gen(BOOL, 1)
            forms = [
                (("binop", "less", ("binop", "add", s[0], lit("long", 1)), lit("long", 3)), s[1]),
                (("binop", "less", s[0], lit("string", "b")), s[1]),
                (("like", n[0], r.choice(PATTERNS)), n[1]),
                (("unop", "not", n[0]), n[1]),
                (("and", bl[0], n[0]), bl[1] + n[1]),
                (("or", s[0], bl[0]), bl[1] + s[1]),
                (("binop", "contains", s[0], lit("string", "a")), s[1]),
                (("binop", "in", n[0], var("resource")), n[1]),
                (("binop", "in", var("principal"), s[0]), s[1]),
                (("unop", "isEmpty", s[0]), s[1]),
                (("ext", "isIpv4", [s[0]]), s[1]),
                (("ext", "lessThan", [self.ext_literal("decimal"), n[0]]), n[1]),
                (("if", n[0], TRUE, FALSE), n[1]),
                (("binop", "eq", ("unop", "neg", s[0]), lit("long", 1)), s[1]),
                (("hasattr", n[0], "a"), n[1]),
                (("binop", "eq", ("getattr", s[0], "a"), lit("long", 1)), s[1]),
                (("is", s[0], self.env.principal), s[1]),
                (("binop", "hasTag", var("principal"), n[0]), n[1]),
                (("binop", "containsAll", ("set", [lit("long", 1)]), n[0]), n[1]),
            ]
            b, needs = r.choice(forms)
            return self.discharge(b, needs) if needs else b
        if name == "undeclared_attribute":
            c = [p for p in self.paths if (p[1][0] == "record" and not p[1][2]) or
                 (p[1][0] == "entity" and self.rs["etypes"].get(p[1][1], {"open": True})["open"] is False
                  and self.rs["etypes"][p[1][1]]["enum"] is None)]
            if not c:
                return None
            e, t, needs = r.choice(c)
            acc = ("getattr", e, "nope")
            b = r.choice([("binop", "eq", acc, lit("long", 1)), ("and", ("hasattr", e, "nope"), ("binop", "eq", acc, lit("long", 1)))])
            return self.discharge(b, list(needs)) if needs else b
        if name == "wrong_action_context":
            mine = dict((a, at) for a, at, _ in self.env.context[1])
            cands = []
            for u, i in self.rs["actions"].items():
                for a, at, _ in i["context"][1]:
                    if a not in mine:
                        cands.append((a, at))
            if not cands:
                return None
            a, at = r.choice(cands)
            use, oneeds = self.use_of(("getattr", var("context"), a), at)
            return self.discharge(use, oneeds) if oneeds else use
        if name == "if_branch_types":
            c = self.closed_atom_nonconst()
            return ("binop", "eq", ("if", c, lit("long", 1), lit("string", "a")), lit("long", 1))
        if name == "set_mixed_types":
            return ("binop", "contains", ("set", [lit("long", 1), lit("string", "a")]), lit("long", 1))
        if name == "set_mixed_entities":
            if len(self.etypes) < 2:
                return None
            t1, t2 = r.sample(self.etypes, 2)
            return ("binop", "in", var("principal"), ("set", [self.entity_literal(t1), self.entity_literal(t2)]))
        if name == "empty_set_literal":
            return r.choice([("unop", "isEmpty", ("set", [])), ("binop", "in", var("principal"), ("set", [])),
                             ("binop", "containsAll", ("set", [lit("long", 1)]), ("set", []))])
        if name == "ext_nonliteral_ctor":
            s = self.pick_path(STRING)
            if s is None:
                return None
            ename = r.choice(S.EXT_TYPES)
            b = ("binop", "eq", ("ext", EXT_CTOR[ename], [s[0]]), self.ext_literal(ename))
            return self.discharge(b, s[1]) if s[1] else b
        if name == "ext_bad_literal":
            ename = r.choice(S.EXT_TYPES)
            return ("binop", "eq", self.ext_literal(ename, bad=True), self.ext_literal(ename))
        if name == "unknown_entity_type":
            return ("binop", "in", var("principal"), lit("entity", U(("Nope",), "x")))
        if name == "undeclared_action_literal":
            return ("binop", "in", var("action"), lit("entity", U(self.env.action[1], "nope")))
        if name == "bad_enum_id":
            en = [n for n in self.etypes if self.rs["etypes"][n]["enum"] is not None]
            if not en:
                return None
            return ("binop", "in", var("principal"), lit("entity", U(r.choice(en), "not-a-choice")))
        raise ValueError(name)

    def _type_of_base(self, e):
        for p in self.paths:
            if p[0] == e:
                return p[1]
        return None

    def _attr_names(self, t):
        if t is None:
            return []
        if t[0] == "entity":
            return [a for a, _, _ in self.rs["etypes"].get(t[1], {"attrs": []})["attrs"]]
        if t[0] == "record":
            return [a for a, _, _ in t[1]]
        return []


def dedup(xs):
    out = []
    for x in xs:
        if x not in out:
            out.append(x)
    return out


# ====================================================================== scopes
def scope_passes(rs, env, pol, slot_free=True):
    """may the scope of `pol` be non-False in request environment `env`?  (mirrors the validator: `is`/`==`
       on another entity type, `in` an entity whose type has no such descendant and `action ==/in` literals
       are typed False)"""
    def pr(c, ty):
        k = c[0]
        if k == "any":
            return True
        if k == "is":
            return c[1] == ty
        ref = c[2] if k == "isin" else c[1]
        if k == "isin" and c[1] != ty:
            return False
        if ref == "slot":
            return True
        if k == "eq":
            return ref[1] == ty
        i = rs["etypes"].get(ref[1])
        return ref[1] == ty or (i is not None and ty in i["descendants"])

    def ac(c, a):
        if c[0] == "any":
            return True
        if c[0] == "eq":
            return c[1] == a
        return any(a == g or a in rs["actions"][g]["descendants"] for g in c[1] if g in rs["actions"])
    return pr(pol["principal"], env.principal) and ac(pol["action"], env.action) and pr(pol["resource"], env.resource)


def gen_scope(rng, rs, env, allow_slots=True):
    r = rng

    def pr(ty, slot_ok):
        c = r.random()
        anc = [n for n in sorted(rs["etypes"]) if ty in rs["etypes"][n]["descendants"]] + [ty]

        def uid_of(t):
            i = rs["etypes"][t]
            return U(t, r.choice(i["enum"]) if i["enum"] is not None else r.choice(IDS))
        if c < 0.45:
            return ("is", ty)
        if c < 0.6:
            return ("any",)
        if c < 0.7:
            return ("eq", uid_of(ty))
        if c < 0.8:
            return ("in", uid_of(r.choice(anc)))
        if c < 0.9:
            return ("isin", ty, uid_of(r.choice(anc)))
        if slot_ok:
            return r.choice([("eq", "slot"), ("in", "slot"), ("isin", ty, "slot")])
        return ("is", ty)

    c = r.random()
    a = env.action
    if c < 0.6:
        ac = ("eq", a)
    elif c < 0.75:
        ac = ("any",)
    elif c < 0.9:
        # (a set literal mixing action entity types of two namespaces is rejected by strict validation)
        others = [x for x in sorted(rs["actions"]) if x != a and x[1] == a[1]]
        ac = ("in", [a] + r.sample(others, min(len(others), r.randint(0, 2))))
        r.shuffle(ac[1])
    else:
        anc = rs["actions"][a]["ancestors"]
        ac = ("in", [r.choice(anc)]) if anc else ("eq", a)
    return pr(env.principal, allow_slots), ac, pr(env.resource, allow_slots)


# ====================================================================== policies
def gen_policy(rng, rs, well_typed=None, env=None, depth=3, allow_slots=True, pid="p0", fault=None):
    """one policy for the resolved schema `rs`.
         well_typed : True  -> accepted by strict validation (by construction)
                      False -> exactly one fault from FAULTS injected at a live boolean position
                      None  -> True with probability 0.7
         env        : the request environment the body is typed for (default: a random one)
         fault      : force this fault name (implies well_typed=False)
       returns Pol."""
    r = rng
    envs = request_envs(rs)
    env = env or r.choice(envs)
    if fault is not None:
        well_typed = False
    if well_typed is None:
        well_typed = r.random() < 0.7
    g = ExprGen(r, rs, env, depth)
    pc, ac, rc = gen_scope(r, rs, env, allow_slots)
    pol = {"id": pid, "effect": r.choice(["permit", "permit", "forbid"]), "principal": pc, "action": ac, "resource": rc,
           "conds": [], "annotations": []}
    # narrow to the target environment: every other environment that passes the scope must short-circuit
    narrow = []
    others = [e for e in envs if e.key() != env.key() and scope_passes(rs, e, pol)]
    if any(e.principal != env.principal for e in others):
        narrow.append(("is", var("principal"), env.principal))
    if any(e.action != env.action for e in others):
        narrow.append(("binop", "eq", var("action"), lit("entity", env.action)) if r.random() < 0.7 else
                      ("binop", "in", var("action"), ("set", [lit("entity", env.action)])))
    if any(e.resource != env.resource for e in others):
        narrow.append(("is", var("resource"), env.resource))
    r.shuffle(narrow)
    body = g.gen_bool(depth)
    fname = None
    if not well_typed:
        names = sorted(FAULTS)
        for _ in range(12):
            fname = fault or r.choice(names)
            f = g.fault(fname)
            if f is not None:
                break
            fname = None
        if fname is None:
            fname, f = "wrong_operand_type", g.fault("wrong_operand_type")
        c = r.random()
        live = g.closed_atom_nonconst()
        if c < 0.4:
            body = ("and", f, body)
        elif c < 0.6:
            body = ("and", live, f)
        elif c < 0.75:
            body = ("or", live, f)
        elif c < 0.9:
            body = ("if", live, f, body)
        else:
            body = f
    conds = []
    if narrow:
        if r.random() < 0.75:
            body = conj(narrow + [body])
        else:
            body = ("if", conj(narrow), body, FALSE)
    if r.random() < 0.12:
        conds.append(("unless", ("unop", "not", body)))
    else:
        conds.append(("when", body))
    if r.random() < 0.15 and well_typed:
        # a second clause: typed after (and under the capabilities of) the first, which carries the narrowing
        conds.append(("when", g.gen_bool(1)))
    pol["conds"] = conds
    slots = {}
    for v, c in (("principal", pc), ("resource", rc)):
        ref = c[2] if c[0] == "isin" else (c[1] if c[0] in ("eq", "in") else None)
        if ref == "slot":
            ty = env.principal if v == "principal" else env.resource
            if c[0] != "eq" and r.random() < 0.5:
                anc = [n for n in sorted(rs["etypes"]) if ty in rs["etypes"][n]["descendants"]]
                ty = r.choice(anc + [ty])
            i = rs["etypes"][ty]
            slots[v] = U(ty, r.choice(i["enum"]) if i["enum"] is not None else r.choice(IDS))
    return Pol(pol, fname, g.guarded and fname is None, env, slots, sorted(g.features))


def _closed_atom_nonconst(self):
    """a boolean without guards whose static type is Bool (not a singleton): keeps the following operand live"""
    r = self.r
    c = r.random()
    if c < 0.5:
        return ("binop", "eq", var("principal"), self.entity_literal(self.env.principal))
    if c < 0.8:
        return ("binop", "in", var("resource"), self.entity_literal(self.env.resource))
    return ("binop", "less", lit("long", 1), ("binop", "add", lit("long", r.choice([0, 1, 2])), lit("long", 1)))


ExprGen.closed_atom_nonconst = _closed_atom_nonconst


# ====================================================================== text
def _has_chain_rewrites(e, r, out):
    if not isinstance(e, tuple):
        return
    if e[0] == "and" and e[1][0] == "hasattr" and e[2][0] == "hasattr" and \
            e[2][1] == ("getattr", e[1][1], e[1][2]) and cedar.is_ident(e[1][2]) and cedar.is_ident(e[2][2]):
        old = cedar.expr_text(e)
        new = "((%s) has %s.%s)" % (cedar.expr_text(e[1][1]), e[1][2], e[2][2])
        out.append((old, new))
        return
    for x in e[1:]:
        if isinstance(x, tuple):
            _has_chain_rewrites(x, r, out)
        elif isinstance(x, list):
            for y in x:
                _has_chain_rewrites(y[1] if (isinstance(y, tuple) and len(y) == 2 and isinstance(y[0], str) and isinstance(y[1], tuple)) else y, r, out)


def policy_text(pol, sugar=True):
    """Cedar text of a Pol (or of a cedar.py policy dict); `x has a && x.a has b` is printed as
       `x has a.b` (the parser expands it back to the same AST)"""
    p = pol.policy if isinstance(pol, Pol) else pol
    text = cedar.policy_text(p)
    if sugar:
        rw = []
        for _, e in p["conds"]:
            _has_chain_rewrites(e, None, rw)
        for old, new in rw:
            text = text.replace(old, new)
    return text


def policy_uids(pol):
    """entity uids mentioned by the policy (scope and body), used as hints for gen_env"""
    out = []

    def walk(e):
        if isinstance(e, tuple):
            if e[0] == "lit" and e[1][0] == "entity":
                out.append(e[1][1])
                return
            if e[0] == "uid":
                out.append(e)
                return
            for x in e[1:]:
                walk(x)
        elif isinstance(e, list):
            for x in e:
                walk(x)
    p = pol.policy if isinstance(pol, Pol) else pol
    for k in ("principal", "action", "resource"):
        walk(p[k])
    for _, e in p["conds"]:
        walk(e)
    if isinstance(pol, Pol):
        out.extend(pol.slots.values())
    return dedup(out)


# ====================================================================== conformant data
def gen_env(rng, rs, env_or_action, hints=None, p_present=0.85, with_actions=None):
    """a (request, entities) pair CONFORMANT to the schema:
         request  : {"principal","action","resource","context"} (cedar.py shape), of the given environment
                    (an Env, or an action uid: then principal/resource types are drawn from its appliesTo)
         entities : list of {"uid","attrs","tags","parents"}; the principal, the resource, and (to depth 2) the
                    entities their attributes refer to are each present with probability p_present; optional
                    attributes and tags are independently present or absent (DataGen); the action entities of
                    the schema are included (with their full ancestor sets, as validation requires) unless
                    with_actions is False (None: included w.p. 0.9)
         hints    : uids mentioned by the policy — used as principal / resource / attribute values / parents when
                    their type fits, so that `==` and `in` are sometimes true."""
    r = rng
    dg = DataGen(rs, r)
    if isinstance(env_or_action, Env):
        env = env_or_action
    else:
        i = rs["actions"][env_or_action]
        env = Env(r.choice(i["principals"]), env_or_action, r.choice(i["resources"]), i["context"])
    hints = [h for h in (hints or []) if h[1] in rs["etypes"]]
    by_type = {}
    for h in hints:
        by_type.setdefault(h[1], []).append(h)

    def uid_of(ty):
        if ty in by_type and r.random() < 0.5:
            return r.choice(by_type[ty])
        return dg.uid_of(ty)

    # values: DataGen.value, with entity references biased to the hints
    orig_uid_of = dg.uid_of

    def biased(ty, fresh=None):
        if fresh is None and ty in by_type and r.random() < 0.4:
            return r.choice(by_type[ty])
        return orig_uid_of(ty, fresh)
    dg.uid_of = biased
    q = {"principal": uid_of(env.principal), "action": env.action, "resource": uid_of(env.resource),
         "context": sorted(dg.record_fields(env.context[1]))}
    ents = {}

    def refs(v, acc):
        if v[0] == "prim" and v[1][0] == "entity":
            acc.append(v[1][1])
        elif v[0] == "set":
            for x in v[1]:
                refs(x, acc)
        elif v[0] == "record":
            for _, x in v[1]:
                refs(x, acc)

    def add(u, depth):
        if u in ents or u[1] not in rs["etypes"]:
            return
        i = rs["etypes"][u[1]]
        if i["enum"] is not None:
            e = {"uid": u, "attrs": [], "tags": [], "parents": []}
        else:
            e = dg.entity(u[1], u[2])
            e["uid"] = u
        # parents: sometimes one of the hinted uids of a permitted parent type
        pts = dg.permitted_parent_types(u[1])
        ps = [p for p in e["parents"] if p != u]
        for pt in pts:
            for h in by_type.get(pt, []):
                if h != u and h not in ps and r.random() < 0.5:
                    ps.append(h)
        e["parents"] = ps
        ents[u] = e
        if depth > 0:
            acc = []
            for _, v in e["attrs"] + e["tags"]:
                refs(v, acc)
            for x in acc + ps:
                if r.random() < p_present:
                    add(x, depth - 1)

    for u in (q["principal"], q["resource"]):
        if r.random() < p_present:
            add(u, 2)
    acc = []
    for _, v in q["context"]:
        refs(v, acc)
    for x in acc + hints:
        if r.random() < 0.6:
            add(x, 1)
    # acyclic parents: the store's transitive closure must exist (a cycle is a different error)
    order = {u: k for k, u in enumerate(sorted(ents))}
    for u, e in ents.items():
        e["parents"] = [p for p in e["parents"] if p not in ents or order[p] > order[u]]
    out = [ents[u] for u in sorted(ents)]
    if with_actions is None:
        with_actions = r.random() < 0.9
    if with_actions:
        out += [dg.action_entity(a) for a in sorted(rs["actions"])]
    return q, out


# ====================================================================== self-test
if __name__ == "__main__":
    import random
    seed = int(sys.argv[1]) if len(sys.argv) > 1 else 1
    rng = random.Random(seed)
    sg = gen_schema(rng)
    print("envs:", request_envs(sg.rs)[:4])
    for k in range(8):
        p = gen_policy(rng, sg.rs)
        print("--- fault=%s guarded=%s env=%r slots=%r" % (p.fault, p.guarded, p.env, p.slots))
        print(policy_text(p))
    q, es = gen_env(rng, sg.rs, p.env, policy_uids(p))
    print(cedar.request_json(q))
    print(len(es), "entities")
