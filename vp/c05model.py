"""C05 — correspondence of the Coq model stages with the implementation.
   stage 1  Unescape.v : escape_debug / show_pattern / to_unescaped_string / to_pattern
            vs str::escape_debug, Eid::escaped, Display for Pattern, parser::unescape::to_unescaped_string,
            to_pattern (reached through `"" like "<raw>"`)
   stage 2  Print.v    : show_expr / show_template  vs  Expr::to_string / Template::to_string
   The two "rendered as \\u{..}" predicates of the model are instantiated per command from the table the
   harness dumps from char/str::escape_debug (c05_escape_table)."""
import bisect
import re

import c05gen as G
import framework as fw
import sx
from sx import Str, Sym

TAG = "C05"          # directory tag of the vm_compute cross-check (set per run so that runs do not collide)
STRINGLIT_INSIDE = re.compile(r'(\\.|[^"\\])*')


class Table:
    def __init__(self, ranges):
        self.lo = [a for a, _ in ranges]
        self.hi = [b for _, b in ranges]

    def has(self, c):
        i = bisect.bisect_right(self.lo, c) - 1
        return i >= 0 and c <= self.hi[i]


def code_points(x, acc):
    if isinstance(x, Str):
        acc.update(x)
    elif isinstance(x, int) and not isinstance(x, bool) and 0 <= x < 0x110000:
        acc.add(x)                      # pattern characters are bare integers in the dump
    elif isinstance(x, list):
        for y in x:
            code_points(y, acc)


def preds(np_t, ge_t, cps):
    return [c for c in sorted(cps) if np_t.has(c)], [c for c in sorted(cps) if ge_t.has(c)]


def escape_strings(rng, tier, np_t, ge_t):
    out = list(G.ESC_STRINGS) + list(G.RAW_ESCAPES)
    for r in G.RAW_ESCAPES:
        for pre, post in [("a", "b"), ("\\\\", "x"), ("*", "*"), ("\\", ""), ("", "}")]:
            out.append(pre + r + post)
    # boundary characters of the two classes and their neighbours
    specials = []
    for t in (np_t, ge_t):
        idx = list(range(len(t.lo)))
        pick = idx if len(idx) <= 60 else rng.sample(idx, 60)
        for i in pick:
            for c in (t.lo[i] - 1, t.lo[i], t.hi[i], t.hi[i] + 1):
                if 0 <= c < 0x110000 and not (0xD800 <= c <= 0xDFFF):
                    specials.append(chr(c))
    for ch in specials:
        out += [ch, "a" + ch, ch + ch]
    alphabet = ['"', "\\", "'", "\n", "\r", "\t", "\0", "*", "a", "b", " ", "{", "}", "u", "x", "n", "0", "4", "1", "_", "́",
                "​", "\U0001F600", "é", "\x7f", "\U000E0100", "؀", "d", "8", "f", "F", "/"] + specials[:40]
    n = 1500 if tier == "quick" else 30000
    for _ in range(n):
        out.append("".join(rng.choice(alphabet) for _ in range(rng.randint(0, 7))))
    # near-escapes: \u{...} and \x.. with random digits
    for _ in range(300 if tier == "quick" else 5000):
        body = "".join(rng.choice("0123456789abcdefABCDEF_g}{ ") for _ in range(rng.randint(0, 8)))
        out.append(rng.choice(["\\u{", "\\u", "\\x", "\\U{", "a\\u{"]) + body + rng.choice(["}", "", "}}", "}*"]))
    seen, uniq = set(), []
    for s in out:
        if s not in seen:
            seen.add(s)
            uniq.append(s)
    return uniq


def ures(m):
    """model ures S-expression -> ('ok', payload) | ('err',)"""
    if isinstance(m, list) and m and m[0] == "ok":
        return ("ok", m[1])
    return (str(m),)


def stage1(rep, rng, tier, harness, driver, np_t, ge_t, stats):
    strings = escape_strings(rng, tier, np_t, ge_t)
    rcmds = [{"cmd": "c05_escape", "s": [ord(c) for c in s]} for s in strings]
    rres = fw.run_rust(harness, rcmds)
    mcmds = []
    for s in strings:
        a, b = preds(np_t, ge_t, set(map(ord, s)))
        mcmds.append([Sym("c05_escape"), a, b, Str(s)])
    mres = fw.run_model(driver, mcmds)
    st = {"strings": len(strings), "unescape_ok": 0, "unescape_err": 0, "pattern_ok": 0, "pattern_err": 0,
          "pattern_not_lexable": 0, "escaped_with_unicode_form": 0, "mismatch": 0, "oracle_failures": 0}
    back = []
    for s, r, m in zip(strings, rres, mres):
        if "escape_debug" not in r or not isinstance(m, list) or len(m) != 4:
            st["mismatch"] += 1
            rep.violation({"property": "C05", "kind": "escape stage: no result", "string": [ord(c) for c in s], "rust": r,
                           "model": repr(m)}, no_failing_input=True)
            continue
        diffs = []
        esc_m, pat_m, un_m, tp_m = list(m[0]), list(m[1]), ures(m[2]), ures(m[3])
        if esc_m != r["escape_debug"]:
            diffs.append(("escape_debug", "str::escape_debug"))
        if esc_m != r["eid_escaped"]:
            diffs.append(("escape_debug", "Eid::escaped"))
        if pat_m != r["pattern_display"]:
            diffs.append(("show_pattern", "Display for Pattern"))
        ru = r["unescape"]
        if "ok" in ru:
            st["unescape_ok"] += 1
            if un_m != ("ok", Str(ru["ok"])):
                diffs.append(("to_unescaped_string", "parser::unescape::to_unescaped_string"))
        else:
            st["unescape_err"] += 1
            if un_m != ("err",):
                diffs.append(("to_unescaped_string", "parser::unescape::to_unescaped_string"))
        if STRINGLIT_INSIDE.fullmatch(s):
            lp = r["like_pattern"]
            if "ok" in lp:
                st["pattern_ok"] += 1
                want = [Sym("star") if x == "star" else x for x in lp["ok"]]
                if tp_m != ("ok", want):
                    diffs.append(("to_pattern", "parser::unescape::to_pattern (through `like`)"))
            elif "err" in lp:
                st["pattern_err"] += 1
                if tp_m != ("err",):
                    diffs.append(("to_pattern", "parser::unescape::to_pattern (through `like`)"))
        else:
            st["pattern_not_lexable"] += 1
        if "\\u{" in "".join(map(chr, r["escape_debug"])):
            st["escaped_with_unicode_form"] += 1
        for mf, rf in diffs:
            st["mismatch"] += 1
            if st["mismatch"] > 8:
                continue
            rep.violation({"property": "C05", "kind": "escape stage: model and implementation differ",
                           "model_function": mf, "rust_entry_point": rf, "string": [ord(c) for c in s], "rust": r,
                           "model": repr(m), "theorem_or_correspondence": "c05_escape / c05_escape_pattern transfer to the code only through this correspondence"},
                          no_failing_input=True)
        back.append((s, r))
    # implementation-level oracle of the escape stage: what escape_debug / Display for Pattern print is
    # read back unchanged by the implementation's own unescape functions
    cmds2 = [{"cmd": "c05_escape", "s": r["escape_debug"]} for _, r in back] + \
            [{"cmd": "c05_escape", "s": r["pattern_display"]} for _, r in back]
    res2 = fw.run_rust(harness, cmds2)
    k = len(back)
    for i, (s, r) in enumerate(back):
        cps = [ord(c) for c in s]
        a = res2[i].get("unescape", {})
        b = res2[k + i].get("like_pattern", {})
        if a.get("ok") != cps:
            st["oracle_failures"] += 1
            if st["oracle_failures"] <= 5:
                rep.violation({"property": "C05", "kind": "unescape(escape_debug(s)) != s on the implementation", "string": cps,
                           "escaped": r["escape_debug"], "unescaped": a})
        if b.get("ok") != cps:
            st["oracle_failures"] += 1
            if st["oracle_failures"] <= 5:
                rep.violation({"property": "C05", "kind": "to_pattern(Display(pattern of literal chars s)) != s on the implementation",
                           "string": cps, "displayed": r["pattern_display"], "read_back": b})
    stats["escape_stage"] = st
    return mcmds, mres


def strip_template(t):
    """harness dump (template [] ann eff pc ac rc body slots) -> the model's (template [id] ann eff pc ac rc body)"""
    return [Sym("template"), Str("p")] + t[2:8]


def stage2(rep, harness, driver, np_t, ge_t, accepted, stats):
    mcmds, expect, owners = [], [], []
    for c, r in accepted:
        kind = c["kind"]
        if kind == "expr":
            items = [(Sym("c05_print_expr"), sx.parse(r["ast"]), r["printed"])]
        elif kind == "policy":
            items = [(Sym("c05_print_template"), strip_template(sx.parse(r["ast"])), r["printed"])]
        else:
            parts = r["printed"].split("\n\n") if r["ast"] else []
            if len(parts) != len(r["ast"]):
                continue            # a string containing a blank line: per-policy texts not separable
            items = [(Sym("c05_print_template"), strip_template(sx.parse(a)), p) for a, p in zip(r["ast"], parts)]
        for cmd, ast, printed in items:
            cps = set()
            code_points(ast, cps)
            a, b = preds(np_t, ge_t, cps)
            mcmds.append([cmd, a, b, ast])
            expect.append(printed)
            owners.append(c)
    mres = fw.run_model(driver, mcmds)
    st = {"printed_compared": len(mcmds), "mismatch": 0}
    for cmd, m, want, c in zip(mcmds, mres, expect, owners):
        got = m.text() if isinstance(m, Str) else None
        if got != want:
            st["mismatch"] += 1
            if st["mismatch"] <= 5:
                rep.violation({"property": "C05", "kind": "printer: model and implementation differ",
                               "model_function": "Print.show_expr / show_template", "rust_entry_point": "Display for ast::Expr / ast::Template",
                               "input": {"kind": c["kind"], "text": c["text"]}, "rust_printed": want, "model_printed": got if got is not None else repr(m),
                               "theorem_or_correspondence": "the printer model is tied to the code only through this comparison"},
                              no_failing_input=True)
    stats["printer_stage"] = st
    return mcmds, mres


def stage3(rep, driver, np_t, ge_t, cases, res, stats):
    """parser model: lex + parse_expr_toks vs Expr::from_str on EVERY expression text (accepted and rejected);
       token printer: lex(show_expr e) = print_toks e and parse_expr_toks(print_toks e) = e on every accepted AST"""
    idx = [i for i, c in enumerate(cases) if c["kind"] == "expr" and ("accepted" in res[i])]
    mcmds = [[Sym("c05_parse_expr"), Str(cases[i]["text"])] for i in idx]
    mres = fw.run_model(driver, mcmds)
    st = {"texts": len(idx), "both_accept": 0, "both_reject": 0, "model_lexerr": 0, "mismatch": 0,
          "toks_checked": 0, "toks_mismatch": 0}
    for i, m in zip(idx, mres):
        c, r = cases[i], res[i]
        if r["accepted"]:
            want = sx.parse(r["ast"])
            ok = isinstance(m, list) and len(m) == 2 and m[0] == "ok" and m[1] == want
            if ok:
                st["both_accept"] += 1
        else:
            ok = m in ("reject", "lexerr")
            if ok:
                st["both_reject"] += 1
                if m == "lexerr":
                    st["model_lexerr"] += 1
        if not ok:
            st["mismatch"] += 1
            if st["mismatch"] <= 8:
                rep.violation({"property": "C05", "kind": "parser: model and implementation differ",
                               "model_function": "Lexer.lex_text + Parse.parse_expr_toks", "rust_entry_point": "parser::parse_expr (Expr::from_str)",
                               "input": {"kind": "expr", "text": c["text"]}, "stream": c["stream"],
                               "rust": {"accepted": r["accepted"], "ast": r.get("ast"), "error": r.get("error")},
                               "model": sx.dump(m) if not isinstance(m, str) else str(m),
                               "theorem_or_correspondence": "c05_expr_roundtrip_partial transfers to the code only through this correspondence"},
                              no_failing_input=True)
    # token printer
    acc = [i for i in idx if res[i]["accepted"]]
    tcmds = []
    for i in acc:
        ast = sx.parse(res[i]["ast"])
        cps = set()
        code_points(ast, cps)
        a, b = preds(np_t, ge_t, cps)
        tcmds.append([Sym("c05_toks_check"), a, b, ast])
    tres = fw.run_model(driver, tcmds)
    for i, cmd, m in zip(acc, tcmds, tres):
        st["toks_checked"] += 1
        ok = isinstance(m, list) and len(m) == 2 and m[0] == "true" and isinstance(m[1], list) and m[1][0] == "ok" and m[1][1] == cmd[3]
        if not ok:
            st["toks_mismatch"] += 1
            if st["toks_mismatch"] <= 5:
                rep.violation({"property": "C05", "kind": "token printer: lex(show_expr e) <> print_toks e, or parse_expr_toks(print_toks e) <> e in the model",
                               "input": {"kind": "expr", "text": cases[i]["text"]}, "rust_ast": res[i]["ast"], "model": sx.dump(m),
                               "theorem_or_correspondence": "c05_expr_roundtrip_partial / c05_lex_render (executable instance)"},
                              no_failing_input=True)
    stats["parser_stage"] = st
    return mcmds + tcmds, mres + tres


def stage4(rep, driver, cases, res, stats):
    """policy-level parser model: lex + parse_policy_toks / parse_policyset_toks vs parse_policy_or_template /
       parse_policyset on EVERY policy / set text (accepted and rejected): accept/reject and the template bodies
       (annotations in key order, effect, the three scope constraints incl. slots, folded condition)"""
    idx = [i for i, c in enumerate(cases) if c["kind"] in ("policy", "set") and ("accepted" in res[i])]
    mcmds = [[Sym("c05_parse_policy" if cases[i]["kind"] == "policy" else "c05_parse_policyset"), Str(cases[i]["text"])] for i in idx]
    mres = fw.run_model(driver, mcmds)
    st = {"texts": len(idx), "both_accept": 0, "both_reject": 0, "mismatch": 0}
    for i, m in zip(idx, mres):
        c, r = cases[i], res[i]
        if r["accepted"]:
            if c["kind"] == "policy":
                want = sx.parse(r["ast"])[:8]
            else:
                want = [sx.parse(a)[:8] for a in r["ast"]]
            ok = isinstance(m, list) and len(m) == 2 and m[0] == "ok" and m[1] == want
            if ok:
                st["both_accept"] += 1
        else:
            ok = m in ("reject", "lexerr")
            if ok:
                st["both_reject"] += 1
        if not ok:
            st["mismatch"] += 1
            if st["mismatch"] <= 8:
                rep.violation({"property": "C05", "kind": "policy parser: model and implementation differ",
                               "model_function": "Lexer.lex_text + ParsePolicy.parse_policy_toks / parse_policyset_toks",
                               "rust_entry_point": "parser::parse_policy_or_template / parse_policyset",
                               "input": {"kind": c["kind"], "text": c["text"]}, "stream": c["stream"],
                               "rust": {"accepted": r["accepted"], "ast": r.get("ast"), "error": r.get("error")},
                               "model": sx.dump(m) if not isinstance(m, str) else str(m),
                               "theorem_or_correspondence": "the policy-level parser model is tied to the code only through this comparison"},
                              no_failing_input=True)
    stats["policy_parser_stage"] = st
    return mcmds, mres


def correspondence(rep, rng, tier, harness, driver, accepted, cases=None, res=None):
    table = fw.run_rust(harness, [{"cmd": "c05_escape_table"}])[0]
    if "np" not in table:
        raise fw.InfraError("c05_escape_table failed: %r" % (table,))
    np_t, ge_t = Table(table["np"]), Table(table["ge"])
    stats = {"escape_table": {"np_ranges": len(table["np"]), "ge_ranges": len(table["ge"])}}
    c1, r1 = stage1(rep, rng, tier, harness, driver, np_t, ge_t, stats)
    c2, r2 = stage2(rep, harness, driver, np_t, ge_t, accepted, stats)
    c3, r3 = stage3(rep, driver, np_t, ge_t, cases or [], res or [], stats)
    c4, r4 = stage4(rep, driver, cases or [], res or [], stats)
    stats["model_cases"] = len(c1) + len(c2) + len(c3) + len(c4)
    pick = list(range(0, len(c3), max(1, len(c3) // 20)))[:20]
    xs = c1[:15] + c2[:15] + [c3[i] for i in pick] + c4[:10]
    nx = fw.coq_crosscheck(xs, r1[:15] + r2[:15] + [r3[i] for i in pick] + r4[:10], TAG)
    return stats, nx
