"""Cedar JSON schemas on the Python side (shared by C11 and later validator properties):
   * SchemaGen      — seeded generator of Cedar JSON schemas (the subset listed below)
   * resolve        — the resolver: Cedar JSON schema -> RESOLVED schema (what ValidatorSchema holds:
                      fully-qualified names, common types inlined, both hierarchies transitively closed)
   * schema_sx      — resolved schema -> S-expression for the Coq model (coq/model/ConformRun.v d_schema)
   * canon_resolved / canon_dump — canonical forms of the resolver's output and of the harness command
                      `schema_dump` (Rust's ValidatorSchema), compared on every run

   Subset: namespaces (including the empty one), entity types with memberOfTypes / shape (required and
   optional attributes, nested records, sets, entity- and extension-typed attributes,
   additionalAttributes on the entity shape) / tags / enum, commonTypes, actions with memberOf (groups,
   optionally in another namespace) and appliesTo {principalTypes, resourceTypes, context}.

   Resolved types:  ('bool',) ('long',) ('string',) ('set', t) ('entity', name) ('ext', 'decimal')
                    ('record', [(key, t, required)] sorted by key, open)
   names are tuples of path components; uids are cedar.U(name, id)."""
from cedar import U, name_sx, uid_sx
from sx import Sym, Str

EXT_TYPES = ["decimal", "ipaddr", "datetime", "duration"]
PRIMS = {"Long": ("long",), "String": ("string",), "Boolean": ("bool",), "Bool": ("bool",)}


class SchemaError(Exception):
    pass


def split_name(s):
    return tuple(s.split("::")) if s else ()


def join_name(n):
    return "::".join(n)


# ------------------------------------------------------------------ resolver
def _declared(js):
    ents, commons = set(), set()
    for ns, d in js.items():
        p = split_name(ns)
        for n in d.get("entityTypes", {}):
            ents.add(p + (n,))
        for n in d.get("commonTypes", {}):
            commons.add(p + (n,))
    return ents, commons


def _resolve_ref(name, ns, pool):
    """an unqualified name refers to the definition in the current namespace if there is one, otherwise
       to the one in the empty namespace; a qualified name is already fully qualified"""
    n = split_name(name)
    if len(n) > 1:
        return n if n in pool else None
    for cand in (ns + n, n):
        if cand in pool:
            return cand
    return None


def _resolve_type(t, ns, ents, commons, common_defs, depth=0):
    if depth > 40:
        raise SchemaError("common type cycle")
    k = t["type"]
    if k in ("Long", "String", "Boolean", "Bool") and _resolve_ref(k, ns, commons) is None:
        return PRIMS[k]
    if k == "Set":
        return ("set", _resolve_type(t["element"], ns, ents, commons, common_defs, depth + 1))
    if k == "Record":
        attrs = []
        for a, at in t.get("attributes", {}).items():
            attrs.append((a, _resolve_type(at, ns, ents, commons, common_defs, depth + 1), at.get("required", True)))
        return ("record", sorted(attrs, key=lambda x: [ord(c) for c in x[0]]), bool(t.get("additionalAttributes", False)))
    if k == "Entity":
        r = _resolve_ref(t["name"], ns, ents)
        if r is None:
            raise SchemaError("unknown entity type %s" % t["name"])
        return ("entity", r)
    if k == "Extension":
        return ("ext", t["name"])
    if k == "EntityOrCommon":
        n = split_name(t["name"])
        cands = [n] if len(n) > 1 else [ns + n, n]
        for cand in cands:
            if cand in commons:
                dns, body = common_defs[cand]
                return _resolve_type(body, dns, ents, commons, common_defs, depth + 1)
            if cand in ents:
                return ("entity", cand)
        if len(n) == 1 and n[0] in PRIMS:
            return PRIMS[n[0]]
        if len(n) == 1 and n[0] in EXT_TYPES:
            return ("ext", n[0])
        raise SchemaError("unknown type %s" % t["name"])
    # a reference to a common type
    r = _resolve_ref(k, ns, commons)
    if r is None:
        raise SchemaError("unknown common type %s" % k)
    dns, body = common_defs[r]
    return _resolve_type(body, dns, ents, commons, common_defs, depth + 1)


def _closure(direct):
    """direct: node -> set of parents.  returns node -> set of all ancestors"""
    anc = {n: set(ps) for n, ps in direct.items()}
    changed = True
    while changed:
        changed = False
        for n in anc:
            new = set(anc[n])
            for p in list(anc[n]):
                new |= anc.get(p, set())
            if new != anc[n]:
                anc[n] = new
                changed = True
    return anc


def resolve(js):
    """Cedar JSON schema (dict) -> {"etypes": {name: info}, "actions": {uid: info}}"""
    ents, commons = _declared(js)
    common_defs = {}
    for ns, d in js.items():
        p = split_name(ns)
        for n, body in d.get("commonTypes", {}).items():
            common_defs[p + (n,)] = (p, body)
    etypes, parents = {}, {}
    for ns, d in js.items():
        p = split_name(ns)
        for n, et in d.get("entityTypes", {}).items():
            name = p + (n,)
            if "enum" in et:
                etypes[name] = {"attrs": [], "open": False, "tags": None, "enum": list(et["enum"])}
                parents[name] = set()
                continue
            shape = et.get("shape")
            attrs, op = [], False
            if shape is not None:
                rt = _resolve_type(shape, p, ents, commons, common_defs)
                if rt[0] != "record":
                    raise SchemaError("shape is not a record")
                attrs, op = rt[1], rt[2]
            tags = et.get("tags")
            etypes[name] = {"attrs": attrs, "open": op, "enum": None,
                            "tags": None if tags is None else _resolve_type(tags, p, ents, commons, common_defs)}
            ps = set()
            for m in et.get("memberOfTypes", []):
                r = _resolve_ref(m, p, ents)
                if r is None:
                    raise SchemaError("unknown parent type %s" % m)
                ps.add(r)
            parents[name] = ps
    anc = _closure(parents)
    for name in etypes:
        etypes[name]["descendants"] = sorted(c for c in etypes if name in anc[c])
        etypes[name]["member_of"] = sorted(parents[name])          # direct relation (not part of ValidatorSchema)
    actions, aparents = {}, {}
    for ns, d in js.items():
        p = split_name(ns)
        for aid, a in d.get("actions", {}).items():
            uid = U(p + ("Action",), aid)
            ap = a.get("appliesTo")
            if ap is None:
                info = {"principals": [], "resources": [], "context": ("record", [], False)}
            else:
                ctx = ap.get("context", {"type": "Record", "attributes": {}})
                rc = _resolve_type(ctx, p, ents, commons, common_defs)
                if rc[0] != "record":
                    raise SchemaError("context is not a record")

                def rl(names):
                    out = set()
                    for m in names:
                        r = _resolve_ref(m, p, ents)
                        if r is None:
                            raise SchemaError("unknown applies-to type %s" % m)
                        out.add(r)
                    return sorted(out)
                info = {"principals": rl(ap.get("principalTypes", [])), "resources": rl(ap.get("resourceTypes", [])),
                        "context": rc}
            actions[uid] = info
            ps = set()
            for m in a.get("memberOf", []):
                ty = split_name(m["type"]) if m.get("type") else p + ("Action",)
                ps.add(U(ty, m["id"]))
            aparents[uid] = ps
    for u, ps in aparents.items():
        for q in ps:
            if q not in actions:
                raise SchemaError("undeclared action group %r" % (q,))
    aanc = _closure(aparents)
    for u in actions:
        actions[u]["descendants"] = sorted(c for c in actions if u in aanc[c])
        actions[u]["ancestors"] = sorted(aanc[u])                  # = the action entity's ancestor set
        actions[u]["member_of"] = sorted(aparents[u])
    return {"etypes": etypes, "actions": actions}


# ------------------------------------------------------------------ S-expressions for the model
def ty_sx(t):
    k = t[0]
    if k == "bool":
        return [Sym("bool"), Sym("any")]
    if k in ("long", "string"):
        return Sym(k)
    if k == "set":
        return [Sym("set"), [Sym("some"), ty_sx(t[1])]]
    if k == "entity":
        return [Sym("entity"), [Sym("lub"), [name_sx(t[1])]]]
    if k == "ext":
        return [Sym("ext"), [Str(t[1])]]
    if k == "record":
        return [Sym("record"), attrs_ty_sx(t[1]), Sym("true" if t[2] else "false")]
    raise ValueError(t)


def attrs_ty_sx(attrs):
    return [[Str(a), ty_sx(t), Sym("true" if r else "false")] for a, t, r in attrs]


def schema_sx(rs):
    ets = []
    for name in sorted(rs["etypes"]):
        i = rs["etypes"][name]
        ets.append([name_sx(name), attrs_ty_sx(i["attrs"]), Sym("true" if i["open"] else "false"),
                    Sym("none") if i["tags"] is None else [Sym("some"), ty_sx(i["tags"])],
                    [name_sx(d) for d in i["descendants"]],
                    Sym("none") if i["enum"] is None else [Sym("some"), [Str(x) for x in i["enum"]]]])
    acts = []
    for u in sorted(rs["actions"]):
        i = rs["actions"][u]
        acts.append([uid_sx(u), [name_sx(n) for n in i["principals"]], [name_sx(n) for n in i["resources"]],
                     ty_sx(i["context"]), [uid_sx(d) for d in i["descendants"]]])
    return [Sym("schema"), ets, acts]


# ------------------------------------------------------------------ comparison with Rust's ValidatorSchema
def _cp(s):
    return "".join(chr(c) for c in s)


def _dump_ty(j):
    if j == "long":
        return ("long",)
    if j == "string":
        return ("string",)
    if j == "never":
        return ("never",)
    if "bool" in j:
        return ("bool",) if j["bool"] == "any" else ("bool", j["bool"])
    if "set" in j:
        return ("set", None if j["set"] is None else _dump_ty(j["set"]))
    if "entity" in j:
        if j["entity"] == "any":
            return ("anyentity",)
        return ("entity", tuple(_cp(c) for c in j["entity"][0]))
    if "ext" in j:
        return ("ext", join_name([_cp(c) for c in j["ext"]]))
    if "record" in j:
        return ("record", [(_cp(a[0]), _dump_ty(a[1]), a[2]) for a in j["record"]], j["open"])
    return ("unreadable", repr(j))


def _uid_of_dump(j):
    return U(tuple(_cp(c) for c in j["type"]), _cp(j["id"]))


def canon_dump(d):
    """harness `schema_dump` answer -> canonical comparable structure"""
    ets = {}
    for e in d["entity_types"]:
        name = tuple(_cp(c) for c in e["name"])
        ets[name] = {"attrs": [(_cp(a[0]), _dump_ty(a[1]), a[2]) for a in e["attrs"]], "open": e["open"],
                     "tags": None if e["tags"] is None else _dump_ty(e["tags"]),
                     "descendants": sorted(split_name(x) for x in e["descendants"]),
                     "enum": None if e["enum"] is None else [_cp(x) for x in e["enum"]]}
    acts = {}
    for a in d["actions"]:
        acts[_uid_of_dump(a["uid"])] = {"principals": sorted(split_name(x) for x in a["principals"]),
                                        "resources": sorted(split_name(x) for x in a["resources"]),
                                        "context": _dump_ty(a["context"]),
                                        "descendants": sorted(_uid_of_dump(x) for x in a["descendants"])}
    aes = {}
    for a in d["action_entities"]:
        aes[_uid_of_dump(a["uid"])] = (sorted(_uid_of_dump(x) for x in a["ancestors"]), a["nattrs"], a["ntags"])
    return {"etypes": ets, "actions": acts, "action_entities": aes}


def canon_resolved(rs):
    ets = {n: {k: i[k] for k in ("attrs", "open", "tags", "descendants", "enum")} for n, i in rs["etypes"].items()}
    acts = {u: {k: i[k] for k in ("principals", "resources", "context", "descendants")} for u, i in rs["actions"].items()}
    aes = {u: (i["ancestors"], 0, 0) for u, i in rs["actions"].items()}
    return {"etypes": ets, "actions": acts, "action_entities": aes}


def diff_canon(a, b, path=""):
    """first difference between two canonical structures (None if equal)"""
    if type(a) != type(b) and not (isinstance(a, (list, tuple)) and isinstance(b, (list, tuple))):
        return "%s: %r vs %r" % (path, a, b)
    if isinstance(a, dict):
        for k in sorted(set(a) | set(b), key=repr):
            if k not in a or k not in b:
                return "%s: key %r only on one side" % (path, k)
            d = diff_canon(a[k], b[k], path + "/" + repr(k))
            if d:
                return d
        return None
    if isinstance(a, (list, tuple)):
        if len(a) != len(b):
            return "%s: %r vs %r" % (path, a, b)
        for i, (x, y) in enumerate(zip(a, b)):
            d = diff_canon(x, y, path + "[%d]" % i)
            if d:
                return d
        return None
    return None if a == b else "%s: %r vs %r" % (path, a, b)


# ------------------------------------------------------------------ generator
ATTR_POOL = ["n", "s", "b", "e", "set", "rec", "d", "opt", "a b", "é", "x1", "x2"]
ENT_NAMES = ["User", "Group", "Org", "Photo", "Album", "Team", "Doc"]
ENUM_NAMES = ["Color", "Tier"]
ENUM_IDS = [["red", "green"], ["a", "b c", "\U0001F600"], ["only"], ["", "x"]]
ACTION_IDS = ["view", "edit", "delete", "x y", "list"]
GROUP_IDS = ["read", "write", "all"]


class FixedSchema:
    """a hand-written schema wrapped like SchemaGen"""

    def __init__(self, js):
        self.js = js
        self.rs = resolve(js)


class SchemaGen:
    """one random schema; `self.js` is the Cedar JSON schema, `self.rs` its resolution"""

    def __init__(self, rng, depth=2, open_entities=True, common_types=True):
        self.r = rng
        r = rng
        self.depth = depth
        nss = r.choice([[""], ["NS"], ["", "NS"], ["NS", "A::B"], ["", "A::B"]])
        self.nss = nss
        js = {ns: {"entityTypes": {}, "actions": {}} for ns in nss}
        # declare the names first so that types can refer to each other
        self.ent_decl = []      # (ns, name)
        names = r.sample(ENT_NAMES, r.randint(3, 5))
        for n in names:
            self.ent_decl.append((r.choice(nss), n))
        if len(nss) > 1 and "" not in nss and r.random() < 0.5:
            # the same basename in two (non-empty) namespaces: exercises the resolution order.  (A definition
            # in a namespace may not shadow one of the empty namespace: "illegally shadows".)
            n = r.choice(names)
            for ns in nss:
                if (ns, n) not in self.ent_decl:
                    self.ent_decl.append((ns, n))
        self.enum_decl = [(r.choice(nss), n) for n in r.sample(ENUM_NAMES, r.randint(1, 2))]
        self.common_decl = []
        if common_types and r.random() < 0.6:
            self.common_decl = [(r.choice(nss), n) for n in r.sample(["Addr", "Info"], r.randint(1, 2))]
        self.all_entity_decl = self.ent_decl + self.enum_decl
        for ns, n in self.common_decl:
            js[ns].setdefault("commonTypes", {})[n] = self.gen_type(ns, r.randint(1, depth), allow_common=False,
                                                                   force=r.choice(["Record", None]))
        for ns, n in self.enum_decl:
            js[ns]["entityTypes"][n] = {"enum": list(r.choice(ENUM_IDS))}
        order = list(self.ent_decl)
        for i, (ns, n) in enumerate(order):
            et = {}
            # parents: later declarations, itself (a type may be a member of itself), or an enumerated type
            cands = order[i + 1:] + ([(ns, n)] if r.random() < 0.2 else []) + (self.enum_decl if r.random() < 0.3 else [])
            ps = r.sample(cands, min(len(cands), r.choice([0, 1, 1, 2])))
            if ps:
                et["memberOfTypes"] = [self.ref(ns, p) for p in ps]
            c = r.random()
            if c < 0.8:
                shape = self.gen_record(ns, depth, top=True)
                if open_entities and r.random() < 0.2:
                    shape["additionalAttributes"] = True
                et["shape"] = shape
            elif c < 0.9 and self.common_decl:
                cands = [cd for cd in self.common_decl if js[cd[0]]["commonTypes"][cd[1]]["type"] == "Record"]
                if cands:
                    et["shape"] = {"type": self.ref(ns, r.choice(cands))}
            if r.random() < 0.4:
                et["tags"] = self.gen_type(ns, r.randint(0, 1))
            js[ns]["entityTypes"][n] = et
        # actions: groups first
        self.groups = []
        pool = list(GROUP_IDS)
        for ns in nss:
            for g in r.sample(pool, min(len(pool), r.randint(0, 2))):
                self.groups.append((ns, g))
                if "" in nss:
                    pool.remove(g)        # no action id of a namespace may shadow one of the empty namespace
        for i, (ns, g) in enumerate(self.groups):
            a = {}
            cands = self.groups[i + 1:]
            ps = r.sample(cands, min(len(cands), r.choice([0, 1, 1])))
            if ps:
                a["memberOf"] = [self.action_ref(ns, p) for p in ps]
            js[ns]["actions"][g] = a
        nact = r.randint(2, 4)
        for aid in r.sample(ACTION_IDS, nact):
            ns = r.choice(nss)
            a = {}
            ps = r.sample(self.groups, min(len(self.groups), r.choice([0, 1, 1, 2])))
            if ps:
                a["memberOf"] = [self.action_ref(ns, p) for p in ps]
            if r.random() < 0.9:
                pt = r.sample(self.all_entity_decl, r.randint(1, 2))
                rt = r.sample(self.all_entity_decl, r.randint(1, 2))
                ap = {"principalTypes": [self.ref(ns, p) for p in pt], "resourceTypes": [self.ref(ns, p) for p in rt]}
                c = r.random()
                if c < 0.75:
                    ap["context"] = self.gen_record(ns, depth, top=True)
                elif c < 0.85 and self.common_decl:
                    cands = [cd for cd in self.common_decl if js[cd[0]]["commonTypes"][cd[1]]["type"] == "Record"]
                    if cands:
                        ap["context"] = {"type": self.ref(ns, r.choice(cands))}
                a["appliesTo"] = ap
            js[ns]["actions"][aid] = a
        self.js = js
        self.rs = resolve(js)

    # a reference to the declaration (dns, n) written inside namespace ns
    def ref(self, ns, decl):
        dns, n = decl
        full = (dns + "::" + n) if dns else n
        if dns == ns and self.r.random() < 0.7:
            return n                      # unqualified: resolves to the current namespace first
        if dns == "" and not any(d == (ns, n) for d in self.all_entity_decl + self.common_decl):
            return n                      # unqualified reference to the empty namespace (not shadowed)
        return full if dns else n

    def action_ref(self, ns, g):
        gns, gid = g
        if gns == ns and self.r.random() < 0.7:
            return {"id": gid}
        return {"id": gid, "type": (gns + "::Action") if gns else "Action"}

    def gen_record(self, ns, depth, top=False, allow_common=True):
        r = self.r
        attrs = {}
        for a in r.sample(ATTR_POOL, r.choice([0, 1, 2, 3, 4] if top else [0, 1, 2])):
            t = self.gen_type(ns, depth - 1, allow_common)
            if r.random() < 0.35:
                t = dict(t, required=False)
            elif r.random() < 0.2:
                t = dict(t, required=True)
            attrs[a] = t
        return {"type": "Record", "attributes": attrs}

    def gen_type(self, ns, depth, allow_common=True, force=None):
        r = self.r
        kinds = ["Long", "String", "Boolean", "Entity", "Extension"]
        if depth > 0:
            kinds += ["Set", "Record", "Set", "Record"]
        if allow_common and self.common_decl:
            kinds += ["Common", "EntityOrCommon"]
        k = force or r.choice(kinds)
        if k in ("Long", "String", "Boolean"):
            return {"type": k}
        if k == "Entity":
            return {"type": "Entity", "name": self.ref(ns, r.choice(self.all_entity_decl))}
        if k == "Extension":
            return {"type": "Extension", "name": r.choice(EXT_TYPES)}
        if k == "Set":
            return {"type": "Set", "element": self.gen_type(ns, depth - 1, allow_common)}
        if k == "Record":
            return self.gen_record(ns, depth, allow_common=allow_common)
        if k == "Common":
            return {"type": self.ref(ns, r.choice(self.common_decl))}
        if k == "EntityOrCommon":
            return {"type": "EntityOrCommon", "name": self.ref(ns, r.choice(self.common_decl + self.all_entity_decl))}
        raise ValueError(k)
