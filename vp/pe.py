"""C13 generators: partial worlds (requests / entity stores with unknowns), substitutions,
   the unknown-position x operator table and random policies with unknown-dependent subterms.

   pvalue : value | ('unk', name) | ('set', [pvalue]) | ('record', [(k, pvalue)])
   partial request : {'principal': ('known', uid) | ('unknown', ty|None), 'action': uid,
                      'resource': likewise, 'context': ('known', [(k, pvalue)]) | ('unknown',)}
   partial entities: [{'uid', 'attrs': [(k, pvalue)], 'tags': [(k, value)], 'parents': [uid]}]
   sigma  : {name: value}   (names 'principal' / 'resource' carry ('prim', ('entity', uid)),
                             'context' carries a record value)
"""
import cedar
import gen
from cedar import U, I64_MAX, I64_MIN
from sx import Sym, Str

GHOST = {("User",): U(("User",), "ghost"), ("NS", "Group"): U(("NS", "Group"), "ghost"),
         ("Photo",): U(("Photo",), "ghost")}


# ------------------------------------------------------------------ pvalues
def pv_has_unk(v):
    if v[0] == "unk":
        return True
    if v[0] == "set":
        return any(pv_has_unk(x) for x in v[1])
    if v[0] == "record":
        return any(pv_has_unk(x) for _, x in v[1])
    return False


def pv_subst(v, sig):
    if v[0] == "unk":
        return sig[v[1]]
    if v[0] == "set":
        return ("set", [pv_subst(x, sig) for x in v[1]])
    if v[0] == "record":
        return ("record", [(k, pv_subst(x, sig)) for k, x in v[1]])
    return v


def pv_json(v):
    if v[0] == "unk":
        return {"__extn": {"fn": "unknown", "arg": v[1]}}
    if v[0] == "set":
        return [pv_json(x) for x in v[1]]
    if v[0] == "record":
        return {k: pv_json(x) for k, x in v[1]}
    return cedar.value_json(v)


def pv_expr(v):
    """the restricted expression denoting a pvalue (unknown leaves are untyped unknowns)"""
    if v[0] == "unk":
        return ("unknown", v[1], None)
    if v[0] == "set":
        return ("set", [pv_expr(x) for x in v[1]])
    if v[0] == "record":
        return ("record", [(k, pv_expr(x)) for k, x in v[1]])
    return cedar.value_expr(v)


def has_ext(v):
    if v[0] == "ext":
        return True
    if v[0] == "set":
        return any(has_ext(x) for x in v[1])
    if v[0] == "record":
        return any(has_ext(x) for _, x in v[1])
    return False


def pattr_sx(v):
    """model rendering of an attribute: (val <value>) or (res <expr>)"""
    if pv_has_unk(v):
        return [Sym("res"), cedar.expr_sx(pv_expr(v))]
    return [Sym("val"), cedar.value_sx(v)]


# ------------------------------------------------------------------ worlds
class PWorld(gen.World):
    """gen.World without extension values when noext (the model fragment has no Value -> Expr
       conversion for extension values)"""

    def __init__(self, rng, n_entities=None, noext=True):
        self.noext = noext
        gen.World.__init__(self, rng, n_entities)

    def gen_ext_value(self):
        if self.noext:
            return ("prim", ("long", self.gen_long()))
        return gen.World.gen_ext_value(self)


def kind_of(v):
    if v[0] == "prim":
        return v[1][0]
    return v[0]


def alt_values(w, rng, v0, awkward=True):
    """candidate replacement values for an unknown whose ground-truth value is v0"""
    k = kind_of(v0)
    out = [v0]
    if k == "bool":
        out += [("prim", ("bool", True)), ("prim", ("bool", False))]
    elif k == "long":
        out += [("prim", ("long", z)) for z in (0, 1, -1, I64_MAX, I64_MIN, 7, rng.randint(-20, 20))]
    elif k == "string":
        out += [("prim", ("string", s)) for s in ("", "a", "ab", "a*b", rng.choice(gen.STRINGS))]
    elif k == "entity":
        out += [("prim", ("entity", u)) for u in (w.any_uid(), w.any_uid(), GHOST[("User",)], GHOST[("Photo",)])]
    elif k == "set":
        out += [("set", []), w.gen_value("set", 1), ("set", [("prim", ("entity", w.any_uid()))]),
                ("set", [("prim", ("long", I64_MAX)), ("prim", ("long", 1))])]
    elif k == "record":
        out += [("record", []), w.gen_value("record", 1),
                ("record", [("n", ("prim", ("long", I64_MAX))), ("s", ("prim", ("string", "a")))])]
    else:
        out += [w.gen_value(None, 1)]
    if awkward:
        out += [w.gen_value(None, 1), ("prim", ("long", I64_MAX)), ("prim", ("string", "x")),
                ("prim", ("bool", rng.random() < 0.5)), ("prim", ("entity", GHOST[("User",)]))]
    return out


def flip(w, v0):
    k = kind_of(v0)
    if k == "bool":
        return ("prim", ("bool", not v0[1][1]))
    if k == "long":
        return ("prim", ("long", I64_MAX if v0[1][1] != I64_MAX else I64_MIN))
    if k == "entity":
        return ("prim", ("entity", GHOST.get(v0[1][1][1], GHOST[("User",)])))
    if k == "string":
        return ("prim", ("string", v0[1][1] + "z"))
    if k == "set":
        return ("set", [])
    if k == "record":
        return ("record", [])
    return ("prim", ("long", 0))


class PCase:
    """a partial world derived from a concrete one by hiding things behind unknowns"""

    def __init__(self, w, rng, p_principal=0.4, p_resource=0.4, p_ctx_unknown=0.15, p_leaf=0.3, partial_store=False):
        self.w, self.rng = w, rng
        self.unknowns = {}      # leaf name -> ground-truth value
        self.counter = 0
        q = w.request
        r = rng.random()
        self.preq = {"action": q["action"]}
        for var, p in (("principal", p_principal), ("resource", p_resource)):
            if rng.random() < p:
                self.preq[var] = ("unknown", q[var][1] if rng.random() < 0.6 else None)
            else:
                self.preq[var] = ("known", q[var])
        if rng.random() < p_ctx_unknown:
            self.preq["context"] = ("unknown",)
        else:
            self.preq["context"] = ("known", [(k, self.hide(v, p_leaf)) for k, v in q["context"]])
        self.pents = []
        for e in w.entities:
            pl = p_leaf if rng.random() < 0.6 else 0.0
            self.pents.append({"uid": e["uid"], "attrs": [(k, self.hide(v, pl)) for k, v in e["attrs"]],
                               "tags": e.get("tags", []), "parents": e["parents"]})
        self.partial_store = partial_store
        self.missing = []
        if partial_store:
            # entities absent from the partial store (dereferenced to typed unknowns named by the
            # uid).  Only entities that are nobody's parent: the ancestor sets of the entities that
            # stay must already be complete.
            is_parent = {p for e in w.entities for p in cedar.ancestors_of(w.entities, e["uid"])}
            cands = [e for e in w.entities if e["uid"] not in is_parent]
            gone = rng.sample(cands, min(len(cands), rng.choice([1, 1, 2, 3])))
            self.missing = [dict(e) for e in gone]
            gone_uids = {e["uid"] for e in gone}
            self.pents = [e for e in self.pents if e["uid"] not in gone_uids]

    def fresh(self, v0):
        n = "u%d" % self.counter
        self.counter += 1
        self.unknowns[n] = v0
        return ("unk", n)

    def hide(self, v, p):
        r = self.rng
        if r.random() < p:
            if v[0] == "record" and v[1] and r.random() < 0.5:
                return ("record", [(k, self.hide(x, 0.6)) for k, x in v[1]])
            if v[0] == "set" and v[1] and r.random() < 0.4:
                return ("set", [self.hide(x, 0.6) for x in v[1]])
            return self.fresh(v)
        return v

    # ---- substitutions
    def sigma0(self):
        q = self.w.request
        s = dict(self.unknowns)
        for var in ("principal", "resource"):
            if self.preq[var][0] == "unknown":
                s[var] = ("prim", ("entity", q[var]))
        if self.preq["context"][0] == "unknown":
            s["context"] = ("record", list(q["context"]))
        return s

    def entity_choices(self, var):
        ty = self.preq[var][1]
        w = self.w
        if ty is not None:
            return [u for u in w.uids + w.actions if u[1] == ty] + [GHOST.get(ty, U(ty, "ghost"))]
        return w.uids + w.actions + [GHOST[("User",)], GHOST[("Photo",)]]

    def sigma_flip(self):
        s = {n: flip(self.w, v) for n, v in self.unknowns.items()}
        for var in ("principal", "resource"):
            if self.preq[var][0] == "unknown":
                s[var] = ("prim", ("entity", self.entity_choices(var)[-1]))
        if self.preq["context"][0] == "unknown":
            s["context"] = ("record", [])
        return s

    def sigma_random(self, awkward):
        r = self.rng
        s = {}
        for n, v0 in self.unknowns.items():
            s[n] = r.choice(alt_values(self.w, r, v0, awkward and r.random() < 0.5))
        for var in ("principal", "resource"):
            if self.preq[var][0] == "unknown":
                s[var] = ("prim", ("entity", r.choice(self.entity_choices(var))))
        if self.preq["context"][0] == "unknown":
            s["context"] = ("record", self.w.gen_attrs() if r.random() < 0.8 else list(self.w.request["context"]))
        return s

    def sigmas(self, n=10):
        out = [self.sigma0(), self.sigma_flip()]
        while len(out) < n:
            out.append(self.sigma_random(awkward=len(out) % 2 == 0))
        if self.missing:
            # does the completed store contain the entities the partial store lacked?  (key "\0absent"
            # is not part of the mapping: it only steers concrete_entities)
            for k, s in enumerate(out):
                s["\0absent"] = (k % 4 == 1)
        return out

    # ---- concretisation
    def concrete_request(self, s):
        q = {"action": self.preq["action"]}
        for var in ("principal", "resource"):
            q[var] = self.preq[var][1] if self.preq[var][0] == "known" else s[var][1][1]
        if self.preq["context"][0] == "unknown":
            q["context"] = list(s["context"][1])
        else:
            q["context"] = [(k, pv_subst(v, s)) for k, v in self.preq["context"][1]]
        return q

    def concrete_entities(self, s):
        out = [{"uid": e["uid"], "attrs": [(k, pv_subst(v, s)) for k, v in e["attrs"]],
                "tags": e["tags"], "parents": e["parents"]} for e in self.pents]
        if self.missing and not s.get("\0absent"):
            out += [{"uid": e["uid"], "attrs": e["attrs"], "tags": e.get("tags", []), "parents": e["parents"]}
                    for e in self.missing]
        return out

    # ---- renderings
    def preq_json(self):
        def ent(x):
            if x[0] == "known":
                return {"uid": cedar.uid_json(x[1])}
            return {"unknown": None if x[1] is None else cedar.type_text(x[1])}
        c = self.preq["context"]
        return {"principal": ent(self.preq["principal"]), "action": {"uid": cedar.uid_json(self.preq["action"])},
                "resource": ent(self.preq["resource"]),
                "context": {"unknown": True} if c[0] == "unknown" else {"json": {k: pv_json(v) for k, v in c[1]}}}

    def pents_json(self):
        return [{"uid": cedar.uid_json(e["uid"]), "attrs": {k: pv_json(v) for k, v in e["attrs"]},
                 "parents": [cedar.uid_json(p) for p in e["parents"]],
                 "tags": {k: cedar.value_json(v) for k, v in e["tags"]}} for e in self.pents]

    def preq_sx(self):
        def ent(x):
            if x[0] == "known":
                return [Sym("known"), cedar.uid_sx(x[1])]
            return [Sym("unknown"), Sym("none") if x[1] is None else [Sym("some"), cedar.name_sx(x[1])]]
        c = self.preq["context"]
        if c[0] == "unknown":
            ctx = Sym("unknown")
        elif any(pv_has_unk(v) for _, v in c[1]):
            ctx = [Sym("res"), [[Str(k), cedar.expr_sx(pv_expr(v))] for k, v in c[1]]]
        else:
            ctx = [Sym("val"), cedar.attrs_sx(c[1])]
        return [Sym("prequest"), ent(self.preq["principal"]), cedar.uid_sx(self.preq["action"]),
                ent(self.preq["resource"]), ctx]

    def pents_sx(self):
        ents = self.pents
        return [[Sym("pentity"), cedar.uid_sx(e["uid"]), [[Str(k), pattr_sx(v)] for k, v in e["attrs"]],
                 cedar.attrs_sx(e["tags"]), [cedar.uid_sx(a) for a in cedar.ancestors_of(ents, e["uid"])]]
                for e in ents]

    def all_values(self):
        for _, v in (self.w.request["context"]):
            yield v
        for e in self.w.entities:
            for _, v in e["attrs"]:
                yield v
            for _, v in e.get("tags", []):
                yield v


def sigma_json(s):
    return {n: cedar.value_json(v) for n, v in s.items() if not n.startswith("\0")}


def sigma_sx(s):
    return [[Str(n), cedar.value_sx(v)] for n, v in sorted(s.items()) if not n.startswith("\0")]


# ------------------------------------------------------------------ the fixed world of the operator table
def L(z):
    return ("lit", ("long", z))


def S(x):
    return ("lit", ("string", x))


def B(b):
    return ("lit", ("bool", b))


def E(u):
    return ("lit", ("entity", u))


ALICE, BOB = U(("User",), "alice"), U(("User",), "bob")
GRP = U(("NS", "Group"), "alice")
PHOTO = U(("Photo",), "x y")
VIEW = U(("Action",), "view")


class TableWorld:
    """duck-types the parts of gen.World that PCase uses"""

    def __init__(self, rng):
        self.rng = rng
        self.uids = [ALICE, BOB, GRP, PHOTO]
        self.actions = [VIEW]
        V = lambda k, x: ("prim", (k, x))
        self.entities = [
            {"uid": ALICE, "parents": [GRP], "tags": [("t1", V("long", 1))],
             "attrs": sorted([("n", V("long", 5)), ("b", V("bool", True)), ("ub", V("bool", True)), ("un", V("long", 3)),
                              ("ue", V("entity", BOB)), ("us", V("string", "ab")),
                              ("rec", ("record", [("n", V("long", 2)), ("s", V("string", "a"))])),
                              ("urec", ("record", [("n", V("long", 2)), ("s", V("string", "a"))])),
                              ("uset", ("set", [V("long", 1), V("long", 2)])), ("e", V("entity", GRP))])},
            {"uid": BOB, "parents": [], "tags": [], "attrs": sorted([("n", V("long", 9)), ("b", V("bool", False))])},
            {"uid": GRP, "parents": [], "tags": [], "attrs": []},
            {"uid": PHOTO, "parents": [], "tags": [], "attrs": sorted([("owner", V("entity", ALICE)), ("ub", V("bool", False))])},
        ]
        self.request = {"principal": ALICE, "action": VIEW, "resource": PHOTO,
                        "context": sorted([("b", V("bool", True)), ("n", V("long", 7)), ("ub", V("bool", False)),
                                           ("un", V("long", I64_MAX)), ("ue", V("entity", ALICE)), ("us", V("string", "a*b")),
                                           ("urec", ("record", [("x", V("long", 1)), ("y", V("bool", True))])),
                                           ("nrec", ("record", [("x", V("long", 1)), ("y", V("bool", True))])),
                                           ("uset", ("set", [V("long", 1), V("long", 7)])),
                                           ("nset", ("set", [V("entity", GRP), V("entity", BOB)]))])}
        self.present = [e["uid"] for e in self.entities]

    def any_uid(self):
        return self.rng.choice(self.uids + self.actions)

    def gen_long(self):
        return self.rng.choice([0, 1, -1, 7, I64_MAX, I64_MIN])

    def gen_value(self, kind=None, depth=1):
        r = self.rng
        kind = kind or r.choice(["bool", "long", "string", "entity", "set", "record"])
        if kind == "bool":
            return ("prim", ("bool", r.random() < 0.5))
        if kind == "long":
            return ("prim", ("long", self.gen_long()))
        if kind == "string":
            return ("prim", ("string", r.choice(["", "a", "ab"])))
        if kind == "entity":
            return ("prim", ("entity", self.any_uid()))
        if kind == "set":
            return ("set", [self.gen_value(r.choice(["long", "entity"]), 0) for _ in range(r.choice([0, 1, 2]))])
        return ("record", sorted([("n", self.gen_value("long", 0)), ("x", self.gen_value(None, 0))][:r.choice([0, 1, 2])]))

    def gen_attrs(self):
        r = self.rng
        return sorted((k, self.gen_value(None, 1)) for k in r.sample(["b", "n", "ub", "un", "ue", "urec", "uset", "zz"], r.randint(0, 6)))


class TableCase(PCase):
    """fixed unknown layout: every attribute whose name starts with `u` is hidden; nested
       records/sets keep their shape with unknown leaves (urec.n / urec.x, one uset element)"""

    def __init__(self, w, rng, principal, resource, ctx_unknown):
        self.w, self.rng = w, rng
        self.unknowns, self.counter = {}, 0
        q = w.request
        self.preq = {"action": q["action"], "principal": principal, "resource": resource}
        self.preq["context"] = ("unknown",) if ctx_unknown else ("known", [(k, self.hide_u(k, v)) for k, v in q["context"]])
        self.pents = [{"uid": e["uid"], "attrs": [(k, self.hide_u(k, v)) for k, v in e["attrs"]],
                       "tags": e["tags"], "parents": e["parents"]} for e in w.entities]
        self.partial_store = False
        self.missing = []

    def hide_u(self, k, v):
        if not k.startswith("u"):
            return v
        if v[0] == "record":
            return ("record", [(kk, self.fresh(x) if i == 0 else x) for i, (kk, x) in enumerate(v[1])])
        if v[0] == "set":
            return ("set", [self.fresh(x) if i == 0 else x for i, x in enumerate(v[1])])
        return self.fresh(v)


def uterms():
    """unknown-dependent subterms by kind (under the TableCase layouts)"""
    P, R, C = ("var", "principal"), ("var", "resource"), ("var", "context")
    ga = lambda e, a: ("getattr", e, a)
    return {
        "bool": [ga(C, "ub"), ga(E(ALICE), "ub"), ga(P, "ub"), ("binop", "eq", P, E(ALICE)), ("binop", "in", P, E(GRP)),
                 ("is", R, ("Photo",)), ("hasattr", C, "ub"), ("hasattr", ga(C, "urec"), "x"),
                 ("binop", "eq", R, P), ("binop", "less", ga(C, "un"), L(4)), ("binop", "eq", E(BOB), P),
                 ("binop", "contains", ga(C, "uset"), L(7)), ("like", ga(C, "us"), ["a", ("*",)])],
        "long": [ga(C, "un"), ga(E(ALICE), "un"), ga(ga(C, "urec"), "x"), ga(ga(E(ALICE), "urec"), "n"), ga(P, "n")],
        "entity": [P, R, ga(C, "ue"), ga(E(ALICE), "ue"), ga(R, "owner")],
        "record": [C, ga(C, "urec"), ga(E(ALICE), "urec"), ("record", [("a", ga(C, "ub")), ("n", L(1))])],
        "set": [ga(C, "uset"), ga(E(ALICE), "uset"), ("set", [ga(C, "un"), L(1)]), ("set", [P, E(GRP)])],
        "string": [ga(C, "us"), ga(E(ALICE), "us")],
    }


def others():
    """concrete co-operands by outcome"""
    C = ("var", "context")
    return {
        "true": B(True), "false": B(False), "long": L(3), "max": L(I64_MAX), "string": S("ab"),
        "entity": E(ALICE), "absent": E(GHOST[("User",)]), "set": ("set", [L(1), L(7)]), "eset": ("set", [E(GRP), E(BOB)]),
        "record": ("record", [("x", L(1)), ("y", B(True))]),
        "err_attr": ("getattr", C, "missing"), "err_type": ("binop", "add", L(1), S("a")),
        "err_ovf": ("binop", "add", L(I64_MAX), L(1)), "err_ent": ("getattr", E(GHOST[("User",)]), "n"),
        "known_attr": ("getattr", C, "n"), "known_b": ("getattr", C, "b"),
    }


def table_exprs(rng, thorough=False):
    """unknown-position x operator table: every operator template with the hole H filled by an
       unknown-dependent term (of the right kind and of a wrong kind) and the other operand(s) by
       each concrete outcome"""
    ut, ot = uterms(), others()
    allu = [(k, t) for k, ts in ut.items() for t in ts]
    out = []

    def holes(kinds, wrong=2):
        hs = [t for k in kinds for t in ut[k]]
        pool = [t for k, t in allu if k not in kinds]
        return hs + rng.sample(pool, min(wrong, len(pool)))

    oth = list(ot.items())
    bool_others = [ot[k] for k in ("true", "false", "long", "err_attr", "err_type", "err_ovf", "err_ent", "known_b")]
    for h in holes(["bool"], 4):
        for o in bool_others + rng.sample(ut["bool"], 3):
            out += [("and", h, o), ("and", o, h), ("or", h, o), ("or", o, h)]
        out.append(("unop", "not", h))
        for t in [ot["true"], ot["long"], ot["err_ovf"], rng.choice(ut["long"])]:
            for f in [ot["false"], ot["err_attr"], rng.choice(ut["bool"])]:
                out.append(("if", h, t, f))
        for c in [ot["true"], ot["false"], ot["err_type"], ot["long"]]:
            out.append(("if", c, h, ot["false"]))
            out.append(("if", c, ot["true"], h))
    for h in holes(["bool", "long", "entity", "record", "set", "string"], 0):
        for k, o in oth:
            out += [("binop", "eq", h, o), ("binop", "eq", o, h)]
        out.append(("binop", "eq", h, h))
    for h in holes(["long"], 3):
        for o in [ot["long"], ot["max"], ot["string"], ot["err_ovf"], ot["known_attr"], rng.choice(ut["long"])]:
            for op in ("add", "sub", "mul", "less", "lesseq"):
                out += [("binop", op, h, o), ("binop", op, o, h)]
        out.append(("unop", "neg", h))
    for h in holes(["entity"], 3):
        for o in [ot["entity"], ot["absent"], ot["eset"], ot["set"], ot["long"], ot["err_ent"], E(GRP), E(PHOTO),
                  rng.choice(ut["entity"]), ("set", [rng.choice(ut["entity"]), E(GRP)])]:
            out += [("binop", "in", h, o), ("binop", "in", o, h)]
        for ty in [("User",), ("Photo",), ("NS", "Group")]:
            out.append(("is", h, ty))
        for a in ["n", "ub", "zz", "owner"]:
            out += [("getattr", h, a), ("hasattr", h, a)]
        for t in ["t1", "zz"]:
            out += [("binop", "getTag", h, S(t)), ("binop", "hasTag", h, S(t))]
    for h in holes(["record"], 3):
        for a in ["x", "y", "n", "ub", "a", "zz", "b"]:
            out += [("getattr", h, a), ("hasattr", h, a)]
    for h in [t for k, t in allu]:
        for o in [ot["long"], ot["err_attr"], ot["err_ovf"], ot["true"]]:
            rec = ("record", [("a", h), ("b", o)])
            out += [("getattr", rec, "a"), ("getattr", rec, "b"), ("hasattr", rec, "a"), ("hasattr", rec, "zz"),
                    ("getattr", rec, "zz"), ("binop", "eq", rec, ot["record"])]
            st = ("set", [h, o])
            out += [("binop", "contains", st, L(3)), ("unop", "isEmpty", st), ("binop", "eq", st, ot["set"]),
                    ("binop", "containsAll", st, ot["set"]), ("binop", "containsAny", ot["set"], st)]
        out.append(("getattr", ("getattr", ("record", [("a", ("record", [("c", h)]))]), "a"), "c"))
    for h in holes(["set"], 2):
        for o in [ot["long"], ot["set"], ot["entity"], ot["err_attr"], rng.choice(ut["long"])]:
            out += [("binop", "contains", h, o), ("binop", "containsAll", h, o), ("binop", "containsAny", o, h)]
        out.append(("unop", "isEmpty", h))
    for h in holes(["string"], 2):
        out += [("like", h, ["a", ("*",)]), ("like", h, [("*",), "*", ("*",)])]
    return out


def wrap_exprs(rng):
    """`true && r` / `false || r` must stay a conjunction/disjunction (r may turn out not to be a
       boolean): put them where a non-boolean would NOT be a type error (==, set/record literals)"""
    ut, ot = uterms(), others()
    allu = [t for ts in ut.values() for t in ts]
    out = []
    for h in allu:
        for o in (ot["true"], ot["known_b"]):
            a = ("and", o, h)
            out += [("binop", "eq", a, L(7)), ("binop", "eq", a, B(True)), ("binop", "contains", ("set", [a]), B(True)),
                    ("binop", "eq", ("getattr", ("record", [("k", a)]), "k"), h)]
        for o in (ot["false"], ("unop", "not", ot["known_b"])):
            a = ("or", o, h)
            out += [("binop", "eq", a, L(7)), ("binop", "eq", a, B(False)), ("binop", "contains", ("set", [a]), L(3))]
    return out


def ext_exprs(rng):
    """extension calls over unknown-dependent arguments (outside the model fragment; oracle only)"""
    ut, ot = uterms(), others()
    out = []
    dec = lambda s: ("ext", "decimal", [s])
    for h in ut["string"] + ut["long"][:1] + ut["bool"][:1]:
        out += [("ext", "lessThan", [dec(h), dec(S("1.5"))]), ("ext", "lessThan", [dec(S("0.1")), dec(h)]),
                ("binop", "eq", dec(h), dec(S("1.5"))), ("and", ut["bool"][0], ("ext", "lessThan", [dec(S("x")), dec(h)])),
                ("or", ut["bool"][0], ("binop", "eq", dec(S("1.0")), dec(S("1.0000")))),
                ("ext", "isIpv4", [("ext", "ip", [h])]),
                ("binop", "eq", ("record", [("a", dec(S("1.0"))), ("b", h)]), ot["record"]),
                ("getattr", ("record", [("a", dec(S("1.0"))), ("b", h)]), "b"),
                ("hasattr", ("record", [("a", dec(S("bad"))), ("b", h)]), "b")]
    # a residual record that contains a call which may still fail is NOT projectable: projecting a
    # sibling attribute out of it (or answering `has`) would hide the error
    for h in ut["string"]:
        rec = ("record", [("a", dec(h)), ("b", L(1))])
        out += [("binop", "eq", ("getattr", rec, "b"), L(1)), ("hasattr", rec, "b"), ("unop", "not", ("hasattr", rec, "zz")),
                ("binop", "eq", ("getattr", ("record", [("a", ("ext", "ip", [h])), ("b", L(1))]), "b"), L(1))]
    return out


def expr_has_ext(e):
    if not isinstance(e, tuple) or not e:
        return False
    if e[0] == "ext":
        return True
    for x in e[1:]:
        if isinstance(x, tuple) and expr_has_ext(x):
            return True
        if isinstance(x, list):
            for y in x:
                if isinstance(y, tuple) and (expr_has_ext(y) or (len(y) == 2 and isinstance(y[1], tuple) and expr_has_ext(y[1]))):
                    return True
    return False
