"""Build the `cedar` CLI binary from the CURRENT working tree of the repository under check
   (fw.REPO, so VERIF_REPO works) into a verif-owned target directory.  cargo's fingerprinting makes
   this a no-op when nothing changed.  Used by vp/props/c19.py and called from ./setup.sh so that
   the cold build happens during setup."""
import hashlib
import os

import framework as fw


def cli_target_dir():
    if fw.REPO == "/repo":
        return os.path.join(fw.HARNESS, "target-cli")
    tag = hashlib.sha256(fw.REPO.encode()).hexdigest()[:10]
    return os.path.join(fw.WORK, "target-cli_" + tag)


def build_cli():
    """returns the path of the freshly built binary; raises fw.InfraError if it does not build"""
    with fw.Lock("cargo"):
        tdir = cli_target_dir()
        main = os.path.join(fw.HARNESS, "target-cli")
        if not os.path.exists(tdir) and tdir != main and os.path.isdir(main):
            # mutation self-tests: start from the artifacts of the main build so that only the
            # workspace crates are recompiled (third-party crates keep their fingerprints)
            os.makedirs(os.path.dirname(tdir), exist_ok=True)
            fw.sh("cp -a %s %s" % (main, tdir), check=False)
        manifest = os.path.join(fw.REPO.rstrip("/"), "Cargo.toml")
        out = fw.sh("cargo build --offline --locked -p cedar-policy-cli --manifest-path %s --target-dir %s 2>&1"
                    % (manifest, tdir), timeout=7200, check=False)
        exe = os.path.join(tdir, "debug", "cedar")
        if "Finished" not in out or not os.path.exists(exe):
            raise fw.InfraError("cedar-policy-cli does not build from %s:\n%s" % (fw.REPO, out[-4000:]))
        return exe
