"""C12 generators: policy-set texts as TOKEN LISTS (so that comments / blank lines can be put at
   arbitrary token boundaries and `respace` is re-assembly of the same tokens), an independent
   comment scanner, and text assembly."""
import cedar
import gen

IF, OR, AND, REL, ADD, MUL, UNARY, MEMBER, PRIMARY = range(9)

WS_SET = set("\t\n\x0b\x0c\r \x85\xa0\u1680\u2028\u2029\u202f\u205f\u3000") | {chr(c) for c in range(0x2000, 0x200b)}

RAW_STRINGS = ['"// not a comment"', '"a // b"', '"\\"//\\""', '"/* x */"', '"h\u00e9llo \U0001F600"', '"tab\\there"',
               '"\\\\"', '"a\\nb"', '"x\\\\\\"//y"', '"*/"', '""', '"\\u{1F600}"', '"\\0"', '"//"']
NL_STRINGS = ['"a\nb"', '"a\n\n\nb"', '"\n"', '"x // y\nz"', '"l1\n   l2\n\n"']
COMMENTS = ["// c", "//", "// a \"quoted\" thing", "// */ /* nested", "//// slashes", "// h\u00e9llo \U0001F600 \u4e2d",
            "// trailing spaces   ", "//\ttab\t", "// permit(principal, action, resource);", "// \"unterminated",
            "// x // y", "//no space", "// ;", "// when { true }", "// \\", "// \u00a0nbsp\u00a0"]


def str_tok(rng, s):
    """a Cedar string literal token for the Python string s (escaped form, sometimes raw non-ASCII)"""
    if rng.random() < 0.25 and all(c not in '"\\\n\r' and (ord(c) >= 0x20) for c in s):
        return '"' + s + '"'
    return cedar.str_lit(s)


DEEP_NS = [("Org",), ("A", "B"), ("Corp", "Dept", "Team"), ("a1", "b_2", "C3", "d")]


def type_toks(t, rng=None):
    """tokens of an entity type name; with an rng the name is sometimes qualified by 1-4 extra namespace segments
       (every `::` of a long path is a place where a comment can be attached)"""
    if rng is not None and rng.random() < 0.3:
        t = tuple(rng.choice(DEEP_NS)) + tuple(t)
    out = []
    for i, c in enumerate(t):
        if i:
            out.append("::")
        out.append(c)
    return out


def uid_toks(rng, u):
    return type_toks(u[1], None if tuple(u[1]) == ("Action",) else rng) + ["::", str_tok(rng, u[2])]


class TokGen:
    """renders gen.py expression ASTs to token lists with MINIMAL parentheses (plus random
       redundant ones), and adds purely syntactic variety the AST has no constructor for"""

    def __init__(self, rng, nl_strings=False, p_trailing_comma=0.0):
        self.r = rng
        self.nl_strings = nl_strings
        self.p_tc = p_trailing_comma
        self.ops = {}

    def tc(self, nonempty):
        """a trailing comma (the grammar's Comma<E> allows one after the last element)"""
        if nonempty and self.p_tc and self.r.random() < self.p_tc:
            self.count("trailing_comma")
            return [","]
        return []

    def count(self, k):
        self.ops[k] = self.ops.get(k, 0) + 1

    def paren(self, toks):
        return ["("] + toks + [")"]

    def e(self, x, lvl=IF, unary_depth=0):
        toks, mine = self.node(x, unary_depth)
        if mine < lvl or self.r.random() < 0.04:
            self.count("parens")
            return self.paren(toks)
        return toks

    def string(self, s):
        r = self.r
        c = r.random()
        if c < 0.12:
            return r.choice(RAW_STRINGS)
        if c < 0.16 and self.nl_strings:
            self.count("string_with_newline")
            return r.choice(NL_STRINGS)
        return str_tok(r, s)

    def node(self, x, ud=0):
        r = self.r
        k = x[0]
        self.count(k if k not in ("unop", "binop", "ext") else k + ":" + x[1])
        if k == "lit":
            p = x[1]
            if p[0] == "bool":
                return ["true" if p[1] else "false"], PRIMARY
            if p[0] == "long":
                if p[1] < 0:
                    return ["-", str(-p[1])], UNARY
                return [str(p[1])], PRIMARY
            if p[0] == "string":
                return [self.string(p[1])], PRIMARY
            return uid_toks(r, p[1]), PRIMARY
        if k == "var":
            return [x[1]], PRIMARY
        if k == "slot":
            return ["?" + x[1]], PRIMARY
        if k == "if":
            return ["if"] + self.e(x[1], IF) + ["then"] + self.e(x[2], IF) + ["else"] + self.e(x[3], IF), IF
        if k == "or":
            return self.e(x[1], OR) + ["||"] + self.e(x[2], AND), OR
        if k == "and":
            return self.e(x[1], AND) + ["&&"] + self.e(x[2], REL), AND
        if k == "unop":
            if x[1] == "isEmpty":
                return self.e(x[2], MEMBER) + [".", "isEmpty", "(", ")"], MEMBER
            op = "!" if x[1] == "not" else "-"
            if ud >= 3:
                return [op] + self.paren(self.e(x[2], IF)), UNARY
            toks, mine = self.node(x[2], ud + 1)
            if mine < UNARY:
                toks = self.paren(toks)
            return [op] + toks, UNARY
        if k == "binop":
            op = x[1]
            if op in ("eq", "less", "lesseq", "in"):
                t = {"eq": "==", "less": "<", "lesseq": "<=", "in": "in"}[op]
                a, b = x[2], x[3]
                c = r.random()
                if op == "eq" and c < 0.3:
                    t = "!="
                elif op == "less" and c < 0.4:
                    t = ">"
                elif op == "lesseq" and c < 0.4:
                    t = ">="
                return self.e(a, ADD) + [t] + self.e(b, ADD), REL
            if op in ("add", "sub"):
                return self.e(x[2], ADD) + ["+" if op == "add" else "-"] + self.e(x[3], MUL), ADD
            if op == "mul":
                return self.e(x[2], MUL) + ["*"] + self.e(x[3], UNARY), MUL
            return self.e(x[2], MEMBER) + [".", op, "("] + self.e(x[3], IF) + self.tc(True) + [")"], MEMBER
        if k == "ext":
            fn, args = x[1], x[2]
            if fn in cedar.METHOD_EXT and args:
                out = self.e(args[0], MEMBER) + [".", fn, "("]
                rest = args[1:]
            else:
                out = [fn, "("]
                rest = args
            for i, a in enumerate(rest):
                if i:
                    out.append(",")
                out += self.e(a, IF)
            return out + self.tc(bool(rest)) + [")"], MEMBER
        if k == "getattr":
            base = self.e(x[1], MEMBER)
            if cedar.is_ident(x[2]) and r.random() < 0.8:
                return base + [".", x[2]], MEMBER
            return base + ["[", str_tok(r, x[2]), "]"], MEMBER
        if k == "hasattr":
            base = self.e(x[1], ADD)
            if cedar.is_ident(x[2]):
                c = r.random()
                if c < 0.25:
                    self.count("has_chain")
                    chain = [x[2]]
                    for _ in range(r.randint(1, 3)):
                        chain += [".", r.choice(["a", "b", "n", "rec", "deep"])]
                    return base + ["has"] + chain, REL
                if c < 0.85:
                    return base + ["has", x[2]], REL
            return base + ["has", str_tok(r, x[2])], REL
        if k == "like":
            return self.e(x[1], ADD) + ["like", cedar.pattern_text(x[2])], REL
        if k == "is":
            out = self.e(x[1], ADD) + ["is"] + type_toks(x[2], self.r)
            if r.random() < 0.35:
                self.count("is_in")
                out += ["in"] + self.e(("lit", ("entity", cedar.U(("NS", "Group"), "g1"))) if r.random() < 0.6
                                       else ("set", [("var", "resource")]), ADD)
            return out, REL
        if k == "set":
            out = ["["]
            for i, a in enumerate(x[1]):
                if i:
                    out.append(",")
                out += self.e(a, IF)
            return out + self.tc(bool(x[1])) + ["]"], PRIMARY
        if k == "record":
            out = ["{"]
            for i, (kk, v) in enumerate(x[1]):
                if i:
                    out.append(",")
                out.append(kk if cedar.is_ident(kk) and r.random() < 0.6 else str_tok(r, kk))
                out.append(":")
                out += self.e(v, IF)
            return out + self.tc(bool(x[1])) + ["}"], PRIMARY
        raise ValueError(x)


def L(z):
    return ("lit", ("long", z))


def S(x):
    return ("lit", ("string", x))


def long_exprs(rng):
    """shapes that force line breaks: long records / sets / call chains / has chains / if nests"""
    r = rng
    n = r.randint(4, 12)
    c = r.randint(0, 6)
    if c == 0:
        return ("record", [("key_number_%d" % i, S("value %d " % i * r.randint(1, 3))) for i in range(n)])
    if c == 1:
        return ("set", [L(10 ** r.randint(0, 17) + i) for i in range(n)])
    if c == 2:
        e = ("var", "context")
        for i in range(n):
            e = ("getattr", e, r.choice(["alpha", "beta_gamma", "x", "a b", "delta%d" % i]))
        return ("binop", "contains", e, S("needle"))
    if c == 3:
        e = ("lit", ("bool", True))
        for i in range(r.randint(2, 5)):
            e = ("if", ("binop", "less", ("getattr", ("var", "context"), "n%d" % i), L(i)), e,
                 ("hasattr", ("var", "principal"), "attr%d" % i))
        return e
    if c == 4:
        e = ("hasattr", ("var", "principal"), "a0")
        for i in range(1, n):
            e = (r.choice(["and", "or"]), e, ("binop", "eq", ("getattr", ("var", "resource"), "owner%d" % i), ("var", "principal")))
        return e
    if c == 5:
        e = ("ext", "ip", [S("192.168.0.%d" % r.randint(0, 255))])
        return ("ext", "isInRange", [e, ("ext", "ip", [S("10.0.0.0/8")])])
    e = L(1)
    for i in range(n):
        e = ("binop", r.choice(["add", "sub", "mul"]), e, r.choice([L(i), ("getattr", ("var", "context"), "count")]))
    return ("binop", "lesseq", e, L(100))


def scope_toks(rng, var, template):
    r = rng
    c = r.randint(0, 6)
    ent = uid_toks(r, cedar.U(r.choice(gen.TYPES[:3]), r.choice(gen.IDS)))
    if template and var in ("principal", "resource") and r.random() < 0.7:
        ent = ["?" + var]
    if var == "action":
        if c <= 1:
            return [var]
        if c <= 3:
            return [var, "==", "Action", "::", str_tok(r, r.choice(["view", "edit", "x y"]))]
        if c == 4:
            return [var, "in", "Action", "::", str_tok(r, "all")]
        out = [var, "in", "["]
        for i in range(r.randint(0, 3)):
            if i:
                out.append(",")
            out += ["Action", "::", str_tok(r, r.choice(["view", "edit", "x y", "del"]))]
        return out + ["]"]
    if c <= 1 and not template:
        return [var]
    if c <= 2:
        return [var, "==", *ent]
    if c == 3:
        return [var, "in", *ent]
    if c == 4 and not template:
        return [var, "is", *type_toks(r.choice(gen.TYPES[:3]), r)]
    if c == 5:
        return [var, "is", *type_toks(r.choice(gen.TYPES[:3]), r), "in", *ent]
    return [var, "==", *ent]


def policy_toks(rng, world, depth, nl_strings=False, stats=None, p_trailing_comma=0.0):
    r = rng
    tg = TokGen(r, nl_strings, p_trailing_comma)
    toks = []
    for i in range(r.choice([0, 0, 1, 1, 2, 3])):
        key = r.choice(["id", "advice", "note", "a1", "if", "permit", "in", "_x"]) + ("" if i == 0 else str(i))
        toks += ["@", key]
        if r.random() < 0.85:
            toks += ["(", tg.string(r.choice(gen.STRINGS + ["policy number %d" % i, "// not a comment"])), ")"]
    template = r.random() < 0.3
    toks += [r.choice(["permit", "forbid"]), "("]
    toks += scope_toks(r, "principal", template) + [","] + scope_toks(r, "action", False) + [","] + scope_toks(r, "resource", template)
    toks += tg.tc(True) + [")"]
    for _ in range(r.choice([0, 1, 1, 1, 2, 3])):
        toks += [r.choice(["when", "unless"]), "{"]
        c = r.random()
        if c < 0.3:
            e = long_exprs(r)
        else:
            g = gen.ExprGen(world, r, p_wrong=0.15, p_err=0.05)
            e = g.gen(r.choice(["bool", "bool", None]), r.randint(1, depth))
        toks += tg.e(e, IF)
        toks += ["}"]
    toks.append(";")
    if stats is not None:
        for k, v in tg.ops.items():
            stats[k] = stats.get(k, 0) + v
        if template:
            stats["template"] = stats.get("template", 0) + 1
    return toks


def wordish(c):
    return c.isalnum() or c == "_"


def can_glue(a, b):
    """may tokens a and b be written without white space in between, without changing the lexing?"""
    x, y = a[-1], b[0]
    if wordish(x) and wordish(y):
        return False
    if not wordish(x) and not wordish(y) and x != '"' and y != '"':
        # two punctuation characters could merge (< =, : :, / /, ! =, & &, | |, ? ...)
        return (x in "()[]{},;.@" or y in "()[]{},;.@") and not (x == ":" and y == ":")
    if y == "?" or x == "?":
        return False
    return True


PLAIN_SEPS = [" ", " ", " ", "\n", "\n", "  ", "\t", "\n\n", "\n   ", " \n\n\n ", "\r\n", "\n\t"]


def assemble(rng, toks, p_comment=0.0, p_glue=0.3, force=None, eof=None, bom_ws=True):
    """text from tokens.  p_comment: probability of comment(s) at each boundary (also before the
       first token); force: {boundary index: separator}; eof: text appended after the last token"""
    r = rng
    out = []
    n = len(toks)
    for i in range(n + 1):
        # boundary i is BEFORE token i (i = n: after the last token)
        sep = None
        if force is not None and i in force:
            sep = force[i]
        elif p_comment and r.random() < p_comment:
            c = r.random()
            if c < 0.4:
                sep = " " + r.choice(COMMENTS) + "\n"                      # trailing comment
            elif c < 0.6:
                sep = "\n" + r.choice(COMMENTS) + "\n"                     # own-line comment
            elif c < 0.75:
                sep = "\n\n  " + r.choice(COMMENTS) + "\n\t" + r.choice(COMMENTS) + "\n\n"   # consecutive
            elif c < 0.85:
                sep = r.choice(COMMENTS) + "\n" + r.choice(COMMENTS) + "\n" + r.choice(COMMENTS) + "\n"
            elif c < 0.93:
                sep = " " + r.choice(COMMENTS) + "\r\n"
            else:
                sep = "\n\n\n" + r.choice(COMMENTS) + "\n\n\n"
            if i == 0:
                sep = sep.lstrip(" ")
        elif i == 0:
            sep = r.choice(["", "", "\n", "  ", "\n\n"])
        elif i == n:
            sep = r.choice(["", "\n", "\n\n", "  ", " \n"]) if eof is None else ""
        else:
            if r.random() < p_glue and can_glue(toks[i - 1], toks[i]):
                sep = ""
            else:
                sep = r.choice(PLAIN_SEPS)
        if sep == "" and 0 < i < n and not can_glue(toks[i - 1], toks[i]):
            sep = " "
        if sep and sep.lstrip(" \t").startswith("//") and i > 0 and not sep.startswith((" ", "\n", "\t")) \
                and toks[i - 1][-1] == "/":
            sep = " " + sep
        out.append(sep)
        if i < n:
            out.append(toks[i])
    if eof is not None:
        out.append(eof)
    return "".join(out)


def scan_comments(text):
    """independent comment scanner (does not use the token generator): `//` outside string
       literals starts a comment that runs to the next \\n or \\r; trailing white space trimmed"""
    out = []
    i, n = 0, len(text)
    while i < n:
        c = text[i]
        if c == '"':
            i += 1
            while i < n and text[i] != '"':
                i += 2 if text[i] == "\\" else 1
            i += 1
        elif c == "/" and i + 1 < n and text[i + 1] == "/":
            j = i
            while j < n and text[j] not in "\n\r":
                j += 1
            s = text[i:j]
            while s and s[-1] in WS_SET:
                s = s[:-1]
            out.append(s)
            i = j
        else:
            i += 1
    return out
