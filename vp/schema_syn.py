"""C09 — schema fragments on the Python side.

   A FRAGMENT is the syntax-independent content of a schema file (what json_schema::Fragment<RawName> holds):

     fragment  = [namespace]                       (order = order of declaration in the Cedar text)
     namespace = {"ns": name, "annot": [(k, v)], "commons": [(id, type, annot)],
                  "entities": [(id, entdecl, annot)], "actions": [(id, actdecl, annot)]}
     name      = tuple of identifiers ( () = the empty namespace; references: 1 component = unqualified )
     type      = ("prim", "Long"|"String"|"Boolean")         JSON {"type": "Long"}        (no Cedar form)
               | ("ext", id)                                 JSON {"type":"Extension",..}  (no Cedar form)
               | ("set", type)
               | ("record", [(attr, type, required, annot)], open)     (open: JSON only)
               | ("entity", name)                            JSON {"type":"Entity","name"} (no Cedar form)
               | ("common", name)                            JSON {"type": name}; Cedar: only `context: Path`
               | ("eoc", name)                               JSON EntityOrCommon; Cedar: every Path
     entdecl   = ("enum", [eid]) | ("std", [name] memberOf, type shape, type|None tags)
     actdecl   = {"memberOf": None | [(name|None, eid)], "appliesTo": None | ([name], [name], type)}

   frag_json   : fragment -> JSON tree (dict)            every fragment
   frag_cedar  : fragment -> Cedar schema text           only `cedar_expressible` fragments; written
                                                         independently of fmt.rs (different layout, optional
                                                         `=`, quoted/unquoted names, comments, trailing commas)
   frag_sx     : fragment -> S-expression for the model (coq/model/SchemaSyn.v d_fragment)
   FragGen     : seeded generator (flavour "cedar" | "json"), shadowing catalogue, near-miss mutations
   DataGen9    : policies / requests / entity sets derived from a canonical resolved-schema dump"""
import copy
import json

from cedar import U, name_sx, uid_sx, str_lit, is_ident
from sx import Sym, Str

EXT_TYPES = ["ipaddr", "decimal", "datetime", "duration"]
PRIM_CEDAR = {"Long": "Long", "String": "String", "Boolean": "Bool"}
JSON_TYPE_KEYWORDS = ["String", "Long", "Boolean", "Set", "Record", "Entity", "EntityOrCommon", "Extension"]
RESERVED_COMMON_IDS = ["Bool", "Boolean", "Entity", "Extension", "Long", "Record", "Set", "String"]


def join(n):
    return "::".join(n)


# ------------------------------------------------------------------ JSON rendering
def type_json(t):
    k = t[0]
    if k == "prim":
        return {"type": t[1]}
    if k == "ext":
        return {"type": "Extension", "name": t[1]}
    if k == "set":
        return {"type": "Set", "element": type_json(t[1])}
    if k == "record":
        attrs = {}
        for a, at, req, annot in t[1]:
            j = type_json(at)
            if not req:
                j["required"] = False
            if annot:
                j["annotations"] = dict(annot)
            attrs[a] = j
        j = {"type": "Record", "attributes": attrs}
        if t[2]:
            j["additionalAttributes"] = True
        return j
    if k == "entity":
        return {"type": "Entity", "name": join(t[1])}
    if k == "common":
        return {"type": join(t[1])}
    if k == "eoc":
        return {"type": "EntityOrCommon", "name": join(t[1])}
    raise ValueError(t)


def frag_json(f):
    out = {}
    for ns in f:
        d = {}
        if ns["commons"]:
            d["commonTypes"] = {}
            for cid, t, annot in ns["commons"]:
                j = type_json(t)
                if annot:
                    j["annotations"] = dict(annot)
                d["commonTypes"][cid] = j
        d["entityTypes"] = {}
        for eid, e, annot in ns["entities"]:
            if e[0] == "enum":
                j = {"enum": list(e[1])}
            else:
                j = {}
                if e[1]:
                    j["memberOfTypes"] = [join(n) for n in e[1]]
                if e[2] is not None:
                    j["shape"] = type_json(e[2])
                if e[3] is not None:
                    j["tags"] = type_json(e[3])
            if annot:
                j["annotations"] = dict(annot)
            d["entityTypes"][eid] = j
        d["actions"] = {}
        for aid, a, annot in ns["actions"]:
            j = {}
            if a["memberOf"] is not None:
                j["memberOf"] = [({"id": i} if ty is None else {"id": i, "type": join(ty)}) for ty, i in a["memberOf"]]
            if a["appliesTo"] is not None:
                ps, rs, ctx = a["appliesTo"]
                ap = {"principalTypes": [join(n) for n in ps], "resourceTypes": [join(n) for n in rs]}
                if ctx is not None:
                    ap["context"] = type_json(ctx)
                j["appliesTo"] = ap
            if annot:
                j["annotations"] = dict(annot)
            d["actions"][aid] = j
        if ns["annot"]:
            d["annotations"] = dict(ns["annot"])
        out[join(ns["ns"])] = d
    return out


# ------------------------------------------------------------------ Cedar rendering (independent of fmt.rs)
CEDAR_RESERVED = {"true", "false", "if", "then", "else", "in", "like", "has", "is", "__cedar"}


def type_cedar_ok(t, top_context=False):
    k = t[0]
    if k == "eoc":
        return True
    if k == "common":
        return top_context
    if k == "set":
        return type_cedar_ok(t[1])
    if k == "record":
        return (not t[2]) and all(type_cedar_ok(at) for _, at, _, _ in t[1])
    return False


def cedar_expressible(f):
    for ns in f:
        for _, t, _ in ns["commons"]:
            if not type_cedar_ok(t):
                return False
        for _, e, _ in ns["entities"]:
            if e[0] == "std":
                if e[2] is None or e[2][0] != "record" or not type_cedar_ok(e[2]):
                    return False
                if e[3] is not None and not type_cedar_ok(e[3]):
                    return False
        for _, a, _ in ns["actions"]:
            if a["appliesTo"] is None:
                return False        # the Cedar syntax always produces appliesTo (possibly with empty lists)
            ps, rs, ctx = a["appliesTo"]
            if (not ps or not rs) and (ps or rs or (ctx is not None and ctx != ("record", [], False))):
                return False
            if ctx is not None and not type_cedar_ok(ctx, top_context=True):
                return False
    return True


class CedarPrinter:
    """style choices are drawn from rng so that the text differs from fmt.rs's layout"""

    def __init__(self, rng):
        self.r = rng

    def sp(self):
        return self.r.choice([" ", " ", "  ", "\n    ", " // c\n  "])

    def annots(self, annot, ind):
        out = ""
        for k, v in annot:
            out += ind + ("@%s(%s)" % (k, str_lit(v)) if v != "" or self.r.random() < 0.5 else "@%s" % k) + "\n"
        return out

    def attr_name(self, a):
        if is_ident(a) and a not in CEDAR_RESERVED and self.r.random() < 0.75:
            return a
        return str_lit(a)

    def ty(self, t, ind):
        k = t[0]
        if k in ("eoc", "common"):
            return join(t[1])
        if k == "set":
            return "Set<" + self.ty(t[1], ind) + ">"
        if k == "record":
            return self.rec(t[1], ind)
        raise ValueError(t)

    def rec(self, attrs, ind):
        if not attrs:
            return self.r.choice(["{}", "{ }"])
        parts = []
        for a, at, req, annot in attrs:
            parts.append(self.annots(annot, ind + "  ") + ind + "  " + self.attr_name(a) + ("" if req else "?") +
                         self.r.choice([": ", " : ", ":"]) + self.ty(at, ind + "  "))
        return "{\n" + ",\n".join(parts) + self.r.choice(["", ","]) + "\n" + ind + "}"

    def names_list(self, names):
        if len(names) == 1 and self.r.random() < 0.5:
            return names[0]
        return "[" + ", ".join(names) + "]"

    def action_name(self, a):
        if is_ident(a) and a not in CEDAR_RESERVED and self.r.random() < 0.5:
            return a
        return str_lit(a)

    def decl_common(self, cid, t, annot, ind):
        return self.annots(annot, ind) + ind + "type %s = %s;\n" % (cid, self.ty(t, ind))

    def decl_entity(self, ids, e, annot, ind):
        s = self.annots(annot, ind) + ind + "entity " + ", ".join(ids)
        if e[0] == "enum":
            return s + " enum [" + ", ".join(str_lit(c) for c in e[1]) + "];\n"
        if e[1]:
            s += " in " + self.names_list([join(n) for n in e[1]])
        if e[2][1] or self.r.random() < 0.3:
            s += self.r.choice([" = ", " "]) + self.rec(e[2][1], ind)
        if e[3] is not None:
            s += " tags " + self.ty(e[3], ind)
        return s + ";\n"

    def decl_action(self, ids, a, annot, ind):
        s = self.annots(annot, ind) + ind + "action " + ", ".join(self.action_name(i) for i in ids)
        if a["memberOf"]:
            refs = []
            for ty, i in a["memberOf"]:
                if ty is None:
                    refs.append(self.action_name(i))
                else:
                    refs.append(join(ty) + "::" + str_lit(i))
            s += " in " + self.names_list(refs)
        ps, rs, ctx = a["appliesTo"]
        if ps and rs:
            items = [("principal", self.names_list([join(n) for n in ps])), ("resource", self.names_list([join(n) for n in rs]))]
            if ctx is not None:
                items.append(("context", self.ty(ctx, ind + "  ")))
            self.r.shuffle(items)
            s += " appliesTo {\n" + ",\n".join(ind + "  %s: %s" % kv for kv in items) + self.r.choice(["", ","]) + "\n" + ind + "}"
        return s + ";\n"

    def namespace_body(self, ns, ind):
        decls = []
        for cid, t, annot in ns["commons"]:
            decls.append(self.decl_common(cid, t, annot, ind))
        # entity / action declarations with identical bodies may share one declaration
        ents = list(ns["entities"])
        while ents:
            eid, e, annot = ents.pop(0)
            ids = [eid]
            if self.r.random() < 0.6:
                for other in list(ents):
                    if other[1] == e and other[2] == annot:
                        ids.append(other[0])
                        ents.remove(other)
            decls.append(self.decl_entity(ids, e, annot, ind))
        acts = list(ns["actions"])
        while acts:
            aid, a, annot = acts.pop(0)
            ids = [aid]
            if self.r.random() < 0.6:
                for other in list(acts):
                    if other[1] == a and other[2] == annot:
                        ids.append(other[0])
                        acts.remove(other)
            decls.append(self.decl_action(ids, a, annot, ind))
        self.r.shuffle(decls)          # declaration order is immaterial
        return "".join(decls)

    def fragment(self, f):
        out = []
        for ns in f:
            if ns["ns"] == ():
                out.append(self.namespace_body(ns, ""))
            else:
                out.append(self.annots(ns["annot"], "") + "namespace %s {\n%s}\n" % (join(ns["ns"]), self.namespace_body(ns, "  ")))
        if self.r.random() < 0.3:
            out.insert(0, "// generated\n")
        return "\n".join(out)


def frag_cedar(f, rng):
    return CedarPrinter(rng).fragment(f)


# ------------------------------------------------------------------ S-expression for the model
def rname_sx(n):
    return [Str(c) for c in n]


def type_sx(t):
    k = t[0]
    if k == "prim":
        return [Sym("prim"), Sym({"Long": "long", "String": "string", "Boolean": "bool"}[t[1]])]
    if k == "ext":
        return [Sym("ext"), Str(t[1])]
    if k == "set":
        return [Sym("set"), type_sx(t[1])]
    if k == "record":
        return [Sym("record"), [[Str(a), type_sx(at), Sym("true" if req else "false")] for a, at, req, _ in t[1]],
                Sym("true" if t[2] else "false")]
    if k in ("entity", "common", "eoc"):
        return [Sym(k), rname_sx(t[1])]
    raise ValueError(t)


def opt_sx(x, f):
    return Sym("none") if x is None else [Sym("some"), f(x)]


def frag_sx(f):
    nss = []
    for ns in f:
        commons = [[Str(cid), type_sx(t)] for cid, t, _ in ns["commons"]]
        ents = []
        for eid, e, _ in ns["entities"]:
            if e[0] == "enum":
                ents.append([Str(eid), [Sym("enum"), [Str(c) for c in e[1]]]])
            else:
                shape = e[2] if e[2] is not None else ("record", [], False)
                ents.append([Str(eid), [Sym("std"), [rname_sx(n) for n in e[1]], type_sx(shape), opt_sx(e[3], type_sx)]])
        acts = []
        for aid, a, _ in ns["actions"]:
            mo = opt_sx(a["memberOf"], lambda l: [[opt_sx(ty, rname_sx), Str(i)] for ty, i in l])
            if a["appliesTo"] is None:
                ap = Sym("none")
            else:
                ps, rs, ctx = a["appliesTo"]
                ctx = ctx if ctx is not None else ("record", [], False)
                ap = [Sym("some"), [[rname_sx(n) for n in ps], [rname_sx(n) for n in rs], type_sx(ctx)]]
            acts.append([Str(aid), mo, ap])
        nss.append([rname_sx(ns["ns"]), commons, ents, acts])
    return nss


# ------------------------------------------------------------------ generator
ENT_POOL = ["User", "Group", "Org", "Photo", "Album", "Team", "Doc", "T1"]
ODD_ENT_POOL = ["Long", "String", "Bool", "ipaddr", "decimal", "Set", "type", "entity", "namespace", "tags", "context",
                "appliesTo", "principal", "resource", "action", "attributes", "enum", "Record", "Extension", "Entity"]
COMMON_POOL = ["Addr", "Info", "Ctx", "Alias", "Pair"]
ODD_COMMON_POOL = ["ipaddr", "decimal", "datetime", "duration", "type", "Action", "entity", "tags"]
ENUM_IDS = [["red", "green"], ["a", "b c", "\U0001F600"], ["only"], ["", "x"], ['q"uote', "back\\slash", "nl\n"]]
ATTR_POOL = ["n", "s", "b", "e", "set", "rec", "d", "opt", "a b", "é", "x1", "if", "in", "type", "entity", "Set",
             "context", "principal", "", 'q"', "tab\t", "__cedar", "true", "has"]
ACTION_POOL = ["view", "edit", "delete", "x y", "list", "in", "action", 'a"b', "été", "Action", ""]
GROUP_POOL = ["read", "write", "all", "g h"]
NS_CHOICES = [[()], [("NS",)], [(), ("NS",)], [("NS",), ("A", "B")], [(), ("A", "B")], [(), ("NS",), ("NS", "Sub")],
              [("A",), ("A", "B")], [("type",), ("Set", "entity")]]
ANNOTS = [[], [], [], [("doc", "hello")], [("doc", ""), ("id", 'q"x\n')], [("in", "kw")], [("a", "1"), ("b", "2")]]


class FragGen:
    """one random fragment.  flavour "cedar": only the reference forms the Cedar syntax can express (so the
       fragment can be written in both syntaxes by the Python printers); flavour "json": all JSON forms."""

    def __init__(self, rng, flavour, odd=0.35, annotations=True):
        self.r = r = rng
        self.flavour = flavour
        self.odd = odd
        self.annotations = annotations
        self.nss = list(r.choice(NS_CHOICES))
        f = [{"ns": ns, "annot": self.annot() if ns != () else [], "commons": [], "entities": [], "actions": []} for ns in self.nss]
        self.byns = {ns["ns"]: ns for ns in f}
        # ---- declared names first, so that types can refer to each other
        self.ents = []      # (ns, id) standard entity types
        for n in r.sample(ENT_POOL, r.randint(2, 4)):
            self.ents.append((r.choice(self.nss), n))
        if r.random() < odd:
            for n in r.sample(ODD_ENT_POOL, r.randint(1, 2)):
                self.ents.append((r.choice(self.nss), n))
        if len(self.nss) > 1 and r.random() < 0.5:
            # the same basename in two namespaces (never shadowing the empty namespace: RFC 70)
            ns0, n = r.choice(self.ents)
            if ns0 != ():
                for ns in self.nss:
                    if ns != () and (ns, n) not in self.ents:
                        self.ents.append((ns, n))
        self.enums = [(r.choice(self.nss), n) for n in r.sample(["Color", "Tier"], r.randint(0, 2))]
        self.commons = []
        if r.random() < 0.7:
            self.commons = [(r.choice(self.nss), n) for n in r.sample(COMMON_POOL, r.randint(1, 3))]
            if r.random() < odd:
                self.commons.append((r.choice(self.nss), r.choice(ODD_COMMON_POOL)))
            if r.random() < odd:
                # a common type with the name of an entity type of ANOTHER namespace (no collision), or, in the
                # JSON flavour only, of the same namespace (to_cedarschema must then refuse or stay faithful)
                ens, en = r.choice(self.ents)
                others = [ns for ns in self.nss if ns != ens and ns != () and ens != ()]
                if others:
                    self.commons.append((r.choice(others), en))
        self.commons = [cd for cd in self.no_shadow(self.commons) if cd[1] not in RESERVED_COMMON_IDS]
        self.ents = self.no_shadow(self.ents)
        self.enums = self.no_shadow(self.enums)
        self.all_ents = self.ents + self.enums
        # ---- common types (may refer to each other acyclically: only to LATER ones)
        self.common_is_record = {}
        for i, (ns, n) in enumerate(self.commons):
            later = self.commons[i + 1:]
            t = self.gen_type(ns, r.randint(0, 2), commons=later, force=r.choice(["record", "record", None]))
            self.common_is_record[(ns, n)] = self.is_record(t, later)
            self.byns[ns]["commons"].append((n, t, self.annot()))
        for ns, n in self.enums:
            self.byns[ns]["entities"].append((n, ("enum", list(r.choice(ENUM_IDS))), self.annot()))
        order = list(self.ents)
        for i, (ns, n) in enumerate(order):
            cands = order[i + 1:] + ([(ns, n)] if r.random() < 0.15 else [])
            ps = r.sample(cands, min(len(cands), r.choice([0, 1, 1, 2])))
            shape = self.gen_record(ns, 2, top=True)
            if flavour == "json":
                c = r.random()
                recs = [cd for cd in self.commons if self.common_is_record[cd]]
                if c < 0.1:
                    shape = None
                elif c < 0.2 and recs:
                    shape = (r.choice(["common", "eoc"]), self.ref(ns, r.choice(recs)))
            tags = self.gen_type(ns, r.randint(0, 1)) if r.random() < 0.35 else None
            self.byns[ns]["entities"].append((n, ("std", [self.ref(ns, p) for p in ps], shape, tags), self.annot()))
        if r.random() < 0.3 and len(order) >= 2:
            # several entity types with one body (Cedar: `entity A, B {..}`)
            ns, n = order[0]
            body = [e for e in self.byns[ns]["entities"] if e[0] == n][0]
            for ns2, n2 in order[1:2]:
                if ns2 == ns:
                    self.byns[ns]["entities"] = [(x if x[0] != n2 else (n2, body[1], body[2])) for x in self.byns[ns]["entities"]]
        # ---- actions: groups first
        self.groups = []
        pool = list(GROUP_POOL)
        for ns in self.nss:
            for g in r.sample(pool, min(len(pool), r.randint(0, 2))):
                self.groups.append((ns, g))
                if () in self.nss:
                    pool.remove(g)
        for i, (ns, g) in enumerate(self.groups):
            cands = self.groups[i + 1:]
            ps = r.sample(cands, min(len(cands), r.choice([0, 1, 1])))
            self.byns[ns]["actions"].append((g, {"memberOf": self.member_of(ns, ps), "appliesTo": self.no_applies()}, self.annot()))
        apool = list(ACTION_POOL)
        for aid in r.sample(ACTION_POOL, r.randint(2, 4)):
            if aid not in apool:
                continue
            ns = r.choice(self.nss)
            if () in self.nss:
                apool.remove(aid)
            elif any(a[0] == aid for a in self.byns[ns]["actions"]):
                continue
            ps = r.sample(self.groups, min(len(self.groups), r.choice([0, 1, 1, 2])))
            if r.random() < 0.9 and self.all_ents:
                pt = r.sample(self.all_ents, min(len(self.all_ents), r.randint(1, 2)))
                rt = r.sample(self.all_ents, min(len(self.all_ents), r.randint(1, 2)))
                c = r.random()
                recs = [cd for cd in self.commons if self.common_is_record[cd]]
                if c < 0.6:
                    ctx = self.gen_record(ns, 2, top=True)
                elif c < 0.8 and recs:
                    ctx = (r.choice(["common", "common", "eoc"]) if flavour == "json" else "common", self.ref(ns, r.choice(recs)))
                else:
                    ctx = None
                ap = ([self.ref(ns, p) for p in pt], [self.ref(ns, p) for p in rt], ctx)
            else:
                ap = self.no_applies()
            self.byns[ns]["actions"].append((aid, {"memberOf": self.member_of(ns, ps), "appliesTo": ap}, self.annot()))
        self.frag = f

    # RFC 70: nothing declared in a non-empty namespace may have the basename of something in the empty namespace
    def no_shadow(self, decls):
        out = []
        for ns, n in decls:
            if (ns, n) in out:
                continue
            out.append((ns, n))
        return out

    def finish_shadow_filter(self):
        pass

    def annot(self):
        if not self.annotations or self.r.random() < 0.6:
            return []
        return list(self.r.choice(ANNOTS))

    def no_applies(self):
        if self.flavour == "json" and self.r.random() < 0.5:
            return None
        return ([], [], None)

    def member_of(self, ns, groups):
        if not groups:
            return None if (self.flavour == "cedar" or self.r.random() < 0.7) else []
        out = []
        for gns, gid in groups:
            if gns == ns and self.r.random() < 0.6:
                out.append((None, gid))
            elif gns == ns and self.r.random() < 0.5:
                out.append((("Action",), gid))          # unqualified `Action`: current namespace first
            elif gns == () and self.r.random() < 0.5 and not any(g == (ns, gid) for g in self.groups):
                out.append((None, gid))                  # falls back to the empty namespace
            else:
                out.append((gns + ("Action",), gid))
        return out

    def is_record(self, t, commons):
        if t[0] == "record":
            return True
        if t[0] in ("common", "eoc"):
            for cd in commons:
                if self.common_is_record.get(cd) and t[1] in (cd[0] + (cd[1],), (cd[1],)):
                    return True
        return False

    def declared(self, ns, n):
        return (ns, n) in self.ents or (ns, n) in self.enums or (ns, n) in self.commons

    def ref(self, ns, decl):
        """a reference to the declaration (dns, n) written inside namespace ns"""
        dns, n = decl
        full = dns + (n,)
        if dns == ns and self.r.random() < 0.7:
            return (n,)                   # unqualified: current namespace first
        if dns == () and not self.declared(ns, n):
            return (n,)                   # unqualified reference that falls back to the empty namespace
        return full                       # (a shadowed empty-namespace name: the fragment is discarded by the RFC 70 filter)

    def pick_ref(self, ns, decls):
        for _ in range(8):
            d = self.r.choice(decls)
            x = self.ref(ns, d)
            if x is not None:
                return d, x
        return None, None

    def gen_record(self, ns, depth, top=False, commons=None):
        r = self.r
        attrs = []
        for a in r.sample(ATTR_POOL, r.choice([0, 1, 2, 3, 4] if top else [0, 1, 2])):
            t = self.gen_type(ns, depth - 1, commons=commons)
            attrs.append((a, t, r.random() >= 0.35, self.annot() if r.random() < 0.3 else []))
        return ("record", attrs, False)

    def builtin(self, ns, which):
        """a reference to a primitive / extension type, in one of the forms of the flavour"""
        r = self.r
        cedar_name = PRIM_CEDAR.get(which, which)
        forms = []
        shadowed = self.declared(ns, cedar_name) or self.declared((), cedar_name)
        if not shadowed:
            forms += [("eoc", (cedar_name,))] * 3
        forms.append(("eoc", ("__cedar", cedar_name)))
        if self.flavour == "json":
            forms += [("prim", which)] * 3 if which in PRIM_CEDAR else [("ext", which)] * 3
            if not shadowed and cedar_name not in JSON_TYPE_KEYWORDS:
                forms.append(("common", (cedar_name,)))          # {"type": "Bool"} / {"type": "ipaddr"}: the alias
            forms.append(("common", ("__cedar", cedar_name)))
        return r.choice(forms)

    def gen_type(self, ns, depth, commons=None, force=None):
        r = self.r
        commons = self.commons if commons is None else commons
        kinds = ["Long", "String", "Boolean", "entity", "ext", "entity"]
        if depth > 0:
            kinds += ["set", "record", "set", "record"]
        if commons:
            kinds += ["common", "common"]
        k = force or r.choice(kinds)
        if k in ("Long", "String", "Boolean"):
            return self.builtin(ns, k)
        if k == "ext":
            return self.builtin(ns, r.choice(EXT_TYPES))
        if k == "entity":
            d, x = self.pick_ref(ns, self.all_ents)
            if d is None:
                return self.builtin(ns, "Long")
            # a must-be-entity reference only if no common type can capture the name in the Cedar flavour
            if self.flavour == "json" and r.random() < 0.5:
                return ("entity", x)
            if self.captured_by_common(ns, d, x):
                return ("entity", x) if self.flavour == "json" else self.builtin(ns, "String")
            return ("eoc", x)
        if k == "set":
            return ("set", self.gen_type(ns, depth - 1, commons=commons))
        if k == "record":
            return self.gen_record(ns, depth, commons=commons)
        if k == "common":
            d, x = self.pick_ref(ns, commons)
            if d is None:
                return self.builtin(ns, "Long")
            if self.flavour == "json" and r.random() < 0.5 and not (len(x) == 1 and x[0] in JSON_TYPE_KEYWORDS):
                return ("common", x)
            return ("eoc", x)
        raise ValueError(k)

    def captured_by_common(self, ns, d, x):
        """would the name x, read as entity-or-common inside ns, resolve to a common type instead of entity d?"""
        cands = [x] if len(x) > 1 else ([ns + x, x] if ns != () else [x])
        for c in cands:
            if (c[:-1], c[-1]) in self.commons:
                return True
            if (c[:-1], c[-1]) in self.all_ents:
                return (c[:-1], c[-1]) != d
        return False


def gen_fragment(rng, flavour):
    """a fragment that passes the RFC 70 filter (re-drawn otherwise)"""
    for _ in range(50):
        g = FragGen(rng, flavour)
        if not rfc70_conflict(g.frag):
            return g.frag
    return FragGen(rng, flavour, odd=0).frag


def rfc70_conflict(f):
    top_types, top_actions = set(), set()
    for ns in f:
        if ns["ns"] == ():
            top_types |= {c[0] for c in ns["commons"]} | {e[0] for e in ns["entities"]}
            top_actions |= {a[0] for a in ns["actions"]}
    for ns in f:
        if ns["ns"] != ():
            if any(c[0] in top_types for c in ns["commons"]) or any(e[0] in top_types for e in ns["entities"]):
                return True
            if any(a[0] in top_actions for a in ns["actions"]):
                return True
    return False


# ------------------------------------------------------------------ hand-written catalogue (shadowing and corner cases)
def _ns(name, commons=(), entities=(), actions=(), annot=()):
    return {"ns": name, "annot": list(annot), "commons": [(c[0], c[1], []) for c in commons],
            "entities": [(e[0], e[1], []) for e in entities], "actions": [(a[0], a[1], []) for a in actions]}


def _rec(*attrs):
    return ("record", [(a, t, True, []) for a, t in attrs], False)


def _std(parents=(), shape=None, tags=None):
    return ("std", list(parents), shape if shape is not None else _rec(), tags)


def _act(ps, rs, ctx=None, member_of=None):
    return {"memberOf": member_of, "appliesTo": (list(ps), list(rs), ctx)}


def E(*n):
    return ("eoc", tuple(n))


def catalogue():
    """(label, fragment) — all expressible in both syntaxes"""
    out = []
    # 1. entity types named like primitives / extension types shadow the builtin aliases
    out.append(("entity-named-Long", [_ns((), entities=[("Long", _std()), ("U", _std(shape=_rec(("a", E("Long")), ("b", E("__cedar", "Long")), ("c", E("String")))))],
                                            actions=[("a", _act([("U",)], [("Long",)]))])]))
    out.append(("entity-named-ipaddr-in-ns", [_ns(("NS",), entities=[("ipaddr", _std()), ("U", _std(shape=_rec(("a", E("ipaddr")), ("b", E("__cedar", "ipaddr")), ("c", E("decimal")))))],
                                                  actions=[("a", _act([("U",)], [("ipaddr",)]))])]))
    # 2. common types named like extension types
    out.append(("common-named-decimal", [_ns((), commons=[("decimal", _rec(("x", E("Long"))))],
                                             entities=[("U", _std(shape=_rec(("a", E("decimal")), ("b", E("__cedar", "decimal")))))],
                                             actions=[("a", _act([("U",)], [("U",)], ("common", ("decimal",))))])]))
    out.append(("common-named-ipaddr-in-ns", [_ns(("NS",), commons=[("ipaddr", E("String"))],
                                                  entities=[("U", _std(shape=_rec(("a", E("ipaddr")), ("b", E("NS", "ipaddr")), ("c", E("__cedar", "ipaddr")))))]),
                                              _ns((), entities=[("V", _std(shape=_rec(("a", E("ipaddr")))))])]))
    # 3. same basename: entity type in one namespace, common type in another
    out.append(("entity-and-common-same-basename", [_ns(("A",), entities=[("T", _std())], commons=[("C", E("T"))]),
                                                    _ns(("B",), commons=[("T", _rec(("x", E("A", "T"))))],
                                                        entities=[("U", _std(shape=_rec(("t", E("T")), ("at", E("A", "T")), ("bt", E("B", "T")), ("c", E("A", "C")))))],
                                                        actions=[("go", _act([("U",)], [("A", "T")], ("common", ("T",))))])]))
    # 4. unqualified names: current namespace before the empty namespace
    out.append(("current-ns-then-empty-ns", [_ns((), entities=[("G", _std()), ("H", _std())], commons=[("K", E("G"))]),
                                             _ns(("NS",), entities=[("U", _std(parents=[("G",), ("W",)], shape=_rec(("g", E("G")), ("k", E("K")), ("w", E("W")), ("h", E("H"))))),
                                                                    ("W", _std())],
                                                 actions=[("a", _act([("U",), ("G",)], [("W",), ("H",)]))])]))
    # 5. common types referring to each other across namespaces, sets of records
    out.append(("common-chain", [_ns(("A",), commons=[("C1", ("set", E("B", "C2"))), ("C3", _rec(("z", E("C1"))))]),
                                 _ns(("B",), commons=[("C2", _rec(("y", E("Long")), ("e", E("E")))), ("C4", E("A", "C3"))],
                                     entities=[("E", _std(shape=_rec(("c", E("C4"))), tags=E("A", "C1")))],
                                     actions=[("act", _act([("E",)], [("E",)], ("common", ("C4",))))])]))
    # 6. action groups: unqualified id in current namespace first, then the empty namespace; `Action::"x"`
    out.append(("action-groups", [_ns((), entities=[("U", _std())],
                                      actions=[("top", _act([], [])), ("both", _act([], []))]),
                                  _ns(("NS",), actions=[("grp", _act([], [], member_of=[(None, "top")])),
                                                        ("a", _act([("U",)], [("U",)], member_of=[(None, "grp"), (("Action",), "top"), (("NS", "Action"), "grp")])),
                                                        ("b", _act([("U",)], [("U",)], member_of=[(("Action",), "both")]))])]))
    # 7. attributes of type Action (the implicit entity type of a namespace with actions)
    out.append(("attr-of-type-Action", [_ns(("NS",), entities=[("U", _std(shape=_rec(("a", E("Action")), ("b", ("set", E("NS", "Action"))))))],
                                            actions=[("x", _act([("U",)], [("U",)]))])]))
    # 8. enum types, entity in its own memberOf, tags of entity type
    out.append(("enum-self-member", [_ns((), entities=[("C", ("enum", ["r", "g b", ""])), ("U", _std(parents=[("U",)], shape=_rec(("c", E("C"))), tags=("set", E("C"))))],
                                         actions=[("a", _act([("C",), ("U",)], [("C",)]))])]))
    # 9. keywords of the Cedar schema grammar as names
    out.append(("keywords-as-names", [_ns(("type",), commons=[("entity", _rec(("namespace", E("Long"))))],
                                          entities=[("Set", _std(shape=_rec(("tags", E("entity")), ("in", ("set", E("Set"))), ("appliesTo", E("String"))))),
                                                    ("action", _std(parents=[("Set",)]))],
                                          actions=[("principal", _act([("Set",)], [("action",)], _rec(("context", E("Bool")), ("resource", E("type", "Set")))))])]))
    return out


def catalogue_json_only():
    """(label, fragment) with JSON-only reference forms"""
    out = []
    P = lambda k: ("prim", k)
    # `Long` the JSON keyword stays the primitive even when an entity type Long exists
    out.append(("json-Long-vs-entity-Long", [_ns((), entities=[("Long", _std()), ("U", _std(shape=_rec(("p", P("Long")), ("e", ("entity", ("Long",))), ("x", E("Long")))))])]))
    out.append(("json-Extension-vs-common-ipaddr", [_ns((), commons=[("ipaddr", P("String"))],
                                                        entities=[("U", _std(shape=_rec(("p", ("ext", "ipaddr")), ("c", ("common", ("ipaddr",))), ("x", E("ipaddr")))))])]))
    # {"type": "Bool"} is the alias common type; {"type":"Entity"} the must-be-entity form
    out.append(("json-Bool-alias", [_ns(("NS",), entities=[("U", _std(shape=_rec(("b", ("common", ("Bool",))), ("c", ("common", ("__cedar", "Bool"))), ("d", P("Boolean")))))])]))
    # shape / context given by common types (shape: not convertible to the Cedar syntax)
    out.append(("json-shape-common", [_ns((), commons=[("S", _rec(("a", P("Long"))))], entities=[("U", ("std", [], ("common", ("S",)), None))],
                                          actions=[("a", _act([("U",)], [("U",)], E("S")))])]))
    # must-be-entity reference in a NON-empty namespace with a same-named common type: NameCollisions
    out.append(("json-collision-in-ns", [_ns(("NS",), commons=[("T", P("Long"))], entities=[("T", _std()), ("U", _std(shape=_rec(("a", ("entity", ("T",))))))])]))
    return out


# ------------------------------------------------------------------ near-miss mutations (reject side)
def near_misses(rng, f):
    """(label, fragment, model_class) — one fault each.  model_class: class the model must answer"""
    out = []
    nss = [ns for ns in f]

    def cp():
        return copy.deepcopy(f)

    def std_ents(g):
        return [(ns, i) for ns in g for i, e in enumerate(ns["entities"]) if e[1][0] == "std"]
    # undeclared entity / common type in an attribute
    g = cp()
    se = std_ents(g)
    if se:
        ns, i = rng.choice(se)
        eid, e, an = ns["entities"][i]
        shape = e[2] if (e[2] is not None and e[2][0] == "record") else ("record", [], False)
        bad = rng.choice([("eoc", ("Nope",)), ("eoc", ("X", "Nope")), ("set", ("eoc", ("Nope",))), ("eoc", ("__cedar", "Nope")),
                          ("record", [("q", ("eoc", ("Nope",)), True, [])], False)])
        ns["entities"][i] = (eid, ("std", e[1], ("record", shape[1] + [("zz", bad, True, [])], False), e[3]), an)
        out.append(("undeclared-type-in-attr", g, "TypeNotDefined"))
    # undeclared parent
    g = cp()
    se = std_ents(g)
    if se:
        ns, i = rng.choice(se)
        eid, e, an = ns["entities"][i]
        shape = e[2] if (e[2] is not None and e[2][0] == "record") else ("record", [], False)
        ns["entities"][i] = (eid, ("std", e[1] + [rng.choice([("Nope",), ("X", "Nope")])], shape, e[3]), an)
        out.append(("undeclared-parent", g, "TypeNotDefined"))
    # undeclared appliesTo type / undeclared action group
    g = cp()
    acts = [(ns, i) for ns in g for i, a in enumerate(ns["actions"])]
    if acts:
        ns, i = rng.choice(acts)
        aid, a, an = ns["actions"][i]
        a = dict(a)
        ps, rs, ctx = a["appliesTo"] if a["appliesTo"] is not None else ([], [], None)
        ents = [(n["ns"] + (e[0],)) for n in g for e in n["entities"]]
        if ents:
            a["appliesTo"] = (ps + [("Nope",)], rs if rs else [ents[0]], ctx)
            ns["actions"][i] = (aid, a, an)
            out.append(("undeclared-appliesTo", g, "TypeNotDefined"))
        g = cp()
        ns = [n for n in g if n["ns"] == ns["ns"]][0]
        aid, a, an = ns["actions"][i]
        a = dict(a)
        a["memberOf"] = (a["memberOf"] or []) + [rng.choice([(None, "no such group"), (("X", "Action"), "read"), (("Nope",), "read")])]
        ns["actions"][i] = (aid, a, an)
        out.append(("undeclared-action-group", g, "ActionNotDefined"))
    # cycle among common types
    g = cp()
    ns = rng.choice(g)
    k = rng.choice([1, 2, 3])
    names = ["Cy%d" % j for j in range(k)]
    for j, n in enumerate(names):
        nxt = names[(j + 1) % k]
        body = rng.choice([("eoc", (nxt,)), ("set", ("eoc", (nxt,))), ("record", [("r", ("eoc", (nxt,)), True, [])], False)])
        ns["commons"].append((n, body, []))
    out.append(("common-type-cycle-%d" % k, g, "CycleInCommonTypeReferences"))
    # cycle in the action hierarchy
    g = cp()
    ns = rng.choice(g)
    k = rng.choice([1, 2, 3])
    names = ["cyc%d" % j for j in range(k)]
    for j, n in enumerate(names):
        ns["actions"].append((n, {"memberOf": [(None, names[(j + 1) % k])], "appliesTo": ([], [], None)}, []))
    out.append(("action-cycle-%d" % k, g, "CycleInActionHierarchy"))
    # duplicate declarations (Cedar text: written twice; JSON text: duplicate key)
    # -> handled at text level by the check (see c09.py dup_texts)
    # reserved / illegal names
    g = cp()
    rng.choice(g)["entities"].append(("Action", _std(), []))
    out.append(("entity-named-Action", g, "ActionEntityTypeDeclared"))
    g = cp()
    rng.choice(g)["commons"].append((rng.choice(RESERVED_COMMON_IDS), ("eoc", ("__cedar", "Long")), []))
    out.append(("reserved-common-type-name", g, "ParseReject"))
    # RFC 70 shadowing
    tops = [n for n in g if n["ns"] == ()]
    others = [n for n in f if n["ns"] != ()]
    if others:
        g = cp()
        top = [n for n in g if n["ns"] == ()]
        if not top:
            top = [{"ns": (), "annot": [], "commons": [], "entities": [], "actions": []}]
            g.append(top[0])
        oth = rng.choice([n for n in g if n["ns"] != ()])
        nm = "Shadow"
        if rng.random() < 0.5:
            top[0]["entities"].append((nm, _std(), []))
        else:
            top[0]["commons"].append((nm, ("eoc", ("__cedar", "String")), []))
        if rng.random() < 0.5:
            oth["entities"].append((nm, _std(), []))
        else:
            oth["commons"].append((nm, ("eoc", ("__cedar", "String")), []))
        out.append(("rfc70-type-shadowing", g, "TypeShadowing"))
        g = cp()
        top = [n for n in g if n["ns"] == ()]
        if not top:
            top = [{"ns": (), "annot": [], "commons": [], "entities": [], "actions": []}]
            g.append(top[0])
        oth = rng.choice([n for n in g if n["ns"] != ()])
        top[0]["actions"].append(("shadowed act", {"memberOf": None, "appliesTo": ([], [], None)}, []))
        oth["actions"].append(("shadowed act", {"memberOf": None, "appliesTo": ([], [], None)}, []))
        out.append(("rfc70-action-shadowing", g, "ActionShadowing"))
    # context / tags faults
    g = cp()
    acts = [(ns, i) for ns in g for i, a in enumerate(ns["actions"]) if a[1]["appliesTo"] is not None and a[1]["appliesTo"][0] and a[1]["appliesTo"][1]]
    if acts:
        ns, i = rng.choice(acts)
        aid, a, an = ns["actions"][i]
        a = dict(a)
        ps, rs, ctx = a["appliesTo"]
        nm = "NotRec"
        ns["commons"].append((nm, rng.choice([("eoc", ("__cedar", "Long")), ("set", ("eoc", ("__cedar", "String")))]), []))
        a["appliesTo"] = (ps, rs, ("common", (nm,)))
        ns["actions"][i] = (aid, a, an)
        out.append(("context-not-record", g, "ContextOrShapeNotRecord"))
    # appliesTo / memberOfTypes naming the implicit Action type
    g = cp()
    acts = [(ns, i) for ns in g for i, a in enumerate(ns["actions"]) if a[1]["appliesTo"] is not None and a[1]["appliesTo"][0] and a[1]["appliesTo"][1]]
    if acts:
        ns, i = rng.choice(acts)
        aid, a, an = ns["actions"][i]
        a = dict(a)
        ps, rs, ctx = a["appliesTo"]
        a["appliesTo"] = (ps + [("Action",)], rs, ctx)
        ns["actions"][i] = (aid, a, an)
        out.append(("appliesTo-Action-type", g, "UndeclaredEntityTypes"))
    return out


def unknown_extension_json(f, rng):
    """JSON-only near miss: {"type":"Extension","name":"nope"}"""
    g = copy.deepcopy(f)
    ns = rng.choice(g)
    ns["commons"].append(("UnusedExt", ("ext", "nope"), []))
    return ("unknown-extension-type", g, "UnknownExtensionType")


# ------------------------------------------------------------------ data derived from a canonical resolved schema
def _val(t, depth=0, eid_for=lambda ty: "e1"):
    """a JSON value (explicit escapes) of resolved type t (schema.canon_dump form)"""
    k = t[0]
    if k == "bool":
        return True
    if k == "long":
        return 7
    if k == "string":
        return "s"
    if k == "set":
        return [] if t[1] is None else [_val(t[1], depth + 1, eid_for)]
    if k == "entity":
        return {"__entity": {"type": "::".join(t[1]), "id": eid_for(t[1])}}
    if k == "ext":
        arg = {"ipaddr": "10.0.0.1", "decimal": "1.5", "datetime": "2024-01-01", "duration": "1h"}.get(t[1], "x")
        fn = {"ipaddr": "ip"}.get(t[1], t[1])
        return {"__extn": {"fn": fn, "arg": arg}}
    if k == "record":
        return {a: _val(at, depth + 1, eid_for) for a, at, req in t[1] if req or depth < 2}
    return None


def _lit(t, eid_for=lambda ty: "e1"):
    """Cedar expression text of type t, or None"""
    k = t[0]
    if k == "bool":
        return "true"
    if k == "long":
        return "7"
    if k == "string":
        return '"s"'
    if k == "entity":
        return "%s::%s" % ("::".join(t[1]), str_lit(eid_for(t[1])))
    if k == "ext":
        return {"ipaddr": 'ip("10.0.0.1")', "decimal": 'decimal("1.5")', "datetime": 'datetime("2024-01-01")',
                "duration": 'duration("1h")'}.get(t[1])
    if k == "set" and t[1] is not None:
        x = _lit(t[1], eid_for)
        return None if x is None else "[%s]" % x
    return None


def _acc(base, a):
    return "%s.%s" % (base, a) if (is_ident(a) and a not in CEDAR_RESERVED) else "%s[%s]" % (base, str_lit(a))


class DataGen9:
    """policies / requests / entity sets aimed at a resolved schema (canon_dump form)"""

    def __init__(self, canon, rng):
        self.c = canon
        self.r = rng

    def eid_for(self, ty):
        info = self.c["etypes"].get(ty)
        if info and info["enum"]:
            return info["enum"][0]
        return "e1"

    def policies(self, n=10):
        r = self.r
        out = []
        acts = sorted(self.c["actions"].items())
        ets = sorted(self.c["etypes"].items())
        for u, info in acts:
            ua = "%s::%s" % ("::".join(u[1]), str_lit(u[2]))
            for p in info["principals"][:2]:
                for q in info["resources"][:1]:
                    conds = []
                    pi = self.c["etypes"].get(p)
                    for a, t, req in (pi["attrs"] if pi else [])[:3]:
                        l = _lit(t, self.eid_for)
                        if l is not None:
                            acc = _acc("principal", a)
                            conds.append("%s == %s" % (acc, l) if req else "principal has %s && %s == %s" % (
                                (a if (is_ident(a) and a not in CEDAR_RESERVED) else str_lit(a)), acc, l))
                            if not req:
                                conds.append("%s == %s" % (acc, l))       # unsafe access to an optional attribute
                    if info["context"][0] == "record":
                        for a, t, req in info["context"][1][:2]:
                            l = _lit(t, self.eid_for)
                            if l is not None and req:
                                conds.append("%s == %s" % (_acc("context", a), l))
                    if pi and pi["tags"] is not None:
                        l = _lit(pi["tags"], self.eid_for)
                        if l is not None:
                            conds.append('principal.hasTag("k") && principal.getTag("k") == %s' % l)
                    for c in conds[:4] or ["true"]:
                        out.append("permit(principal is %s, action == %s, resource is %s) when { %s };" % ("::".join(p), ua, "::".join(q), c))
            if info["descendants"]:
                out.append("permit(principal, action in %s, resource);" % ua)
        for name, info in ets:
            for d in info["descendants"][:1]:
                out.append("permit(principal is %s, action, resource) when { principal in %s::%s };" % (
                    "::".join(d), "::".join(name), str_lit(self.eid_for(name))))
            out.append("permit(principal, action, resource is %s) when { resource.nonexistent_attr == 1 };" % "::".join(name))
        out.append("permit(principal is Nope::Missing, action, resource);")
        out.append("permit(principal, action, resource);")
        r.shuffle(out)
        return out[:n]

    def requests(self, n=10):
        r = self.r
        out = []
        ets = sorted(self.c["etypes"])
        for u, info in sorted(self.c["actions"].items()):
            ctx = _val(info["context"], 0, self.eid_for) if info["context"][0] == "record" else {}
            ps = info["principals"] or ets[:1]
            rs = info["resources"] or ets[:1]
            if not ps or not rs:
                continue
            p, q = r.choice(ps), r.choice(rs)
            base = {"principal": {"type": "::".join(p), "id": self.eid_for(p)}, "action": {"type": "::".join(u[1]), "id": u[2]},
                    "resource": {"type": "::".join(q), "id": self.eid_for(q)}, "context": ctx}
            out.append(base)
            bad = dict(base)
            bad["context"] = dict(ctx, zz_extra=1)
            out.append(bad)
            if ctx:
                k = sorted(ctx)[0]
                bad = dict(base)
                bad["context"] = {a: v for a, v in ctx.items() if a != k}
                out.append(bad)
            if ets:
                other = r.choice(ets)
                bad = dict(base)
                bad["principal"] = {"type": "::".join(other), "id": "zz"}
                out.append(bad)
        r.shuffle(out)
        return out[:n]

    def entity_sets(self, n=6):
        r = self.r
        out = []
        ets = sorted(self.c["etypes"].items())
        for name, info in ets:
            if info["enum"]:
                continue
            attrs = {a: _val(t, 0, self.eid_for) for a, t, req in info["attrs"]}
            parents = []
            for pn, pinfo in ets:
                if name in pinfo["descendants"] and not pinfo["enum"] and pn != name:
                    parents.append({"type": "::".join(pn), "id": "par"})
            e = {"uid": {"type": "::".join(name), "id": "e1"}, "attrs": attrs, "parents": parents[:1]}
            if info["tags"] is not None:
                e["tags"] = {"k": _val(info["tags"], 0, self.eid_for)}
            pe = [{"uid": p, "attrs": {a: _val(t, 0, self.eid_for) for a, t, req in self.c["etypes"][tuple(p["type"].split("::"))]["attrs"] if req}, "parents": []} for p in parents[:1]]
            out.append([e] + pe)
            bad = dict(e, attrs=dict(attrs, zz_extra=1))
            out.append([bad] + pe)
            req_attrs = [a for a, t, rq in info["attrs"] if rq]
            if req_attrs:
                bad = dict(e, attrs={a: v for a, v in attrs.items() if a != req_attrs[0]})
                out.append([bad] + pe)
            if ets:
                wrong = r.choice(ets)[0]
                bad = dict(e, parents=[{"type": "::".join(wrong), "id": self.eid_for(wrong)}])
                out.append([bad])
        r.shuffle(out)
        return out[:n]
