"""C14 — type-aware partial evaluation (TPE) and permission queries are sound.

   Oracle on the implementation (harness/src/cmd_tpe.rs, commands tpe / tpe_query / tpe_query_action):
     * every definite TPE decision equals the from-scratch Authorizer decision on every consistent completion;
     * every residual policy is satisfied / unsatisfied / erroring on a completion exactly when its original is;
       a policy in the true / false / error bucket has that outcome on every completion;
     * the four views (policies(), policy_set(), get_policy(id) for every id, the set reauthorize evaluates)
       are the same id -> printed residual map, with the original effect and annotations;
     * reauthorize == from-scratch (decision, determining policies, erroring policies); reauthorize rejects
       exactly the completions that are not consistent with the partial inputs;
     * query_resource / query_principal == brute force over the store; query_action never omits an allowed
       action and never labels Some(Allow) an action with a denied completion.
   Correspondence: coq/model/TPE.v (tpe_interp, can_error, decision table, to_expr) run by the extracted
   driver on the typed conditions dumped by the Rust typechecker: bucket of every policy, decision, the
   residual itself (structurally, values canonicalised) and the outcome of the model residual on every
   completion against the Rust residual's outcome."""
import copy
import json
import random

import cedar
import framework as fw
import schema as S
import tgen
from cedar import U

PROP = "C14"
PROP_FILE = "C14_TPE"
THEOREMS = ['c14_views', 'c14_decision_reauthorize', 'c14_reauthorize_concrete', 'c14_decision_concrete',
            'c14_query_exact', 'c14_query_brute', 'c14_query_action_label', 'c14_query_action_complete',
            'c14_and_false_needs_noerr', 'c14_interp_sound_partial', 'c14_residual_of_typed_expr',
            'c14_policy_sound_partial', 'c14_decision_sound_partial', 'c14_reauthorize_sound_partial',
            'c14_query_sound_partial', 'c14_noerr_from_typing_partial']

MANIFEST = {
    "text": "Gallina model of the type-aware partial evaluator (tpe/evaluator.rs interpret arm by arm, residual.rs "
            "can_error_assuming_well_formed, try_from_typed_expr and From<Residual> for Expr, response.rs decision table and "
            "views, api/tpe.rs permission queries; extension library = the full table of ExtParse.v); theorems for all inputs "
            "(props/C14_TPE.v): the four views agree, a definite decision is the reauthorization decision everywhere, every "
            "arm of interpret preserves the value-or-error outcome under Completes and the visible side condition Side "
            "(c14_interp_sound_partial), hence per-policy, decision, reauthorize and query soundness against the ORIGINAL "
            "policies (c14_*_sound_partial); tied to /repo by differential execution of the extracted model against "
            "PolicySet::tpe on schema-directed well-typed policy sets, partial requests / partial stores derived from "
            "conformant data and several consistent and inconsistent completions per case, plus an implementation-level "
            "oracle (residual vs original outcome on every completion, definite decision vs from-scratch authorization, "
            "agreement of the four views, reauthorize vs from-scratch, queries vs brute force).",
    "technique": "proof (Coq) + correspondence by differential execution + metamorphic oracle (completions, views, brute force)",
    "note": "Side (operands of && / || are booleans, a left operand with can_error = false does not error) is a hypothesis of "
            "the *_partial theorems; c14_noerr_from_typing_partial derives its ingredients from C03's typechecker soundness on "
            "C03's fragment only.",
}

KEY_FA = "C14:policy_set_returns_original_policies"


# ====================================================================== fixed schema of the targeted stream
FIXED_JS = {"": {
    "entityTypes": {
        "Group": {"memberOfTypes": ["Group"]},
        "User": {"memberOfTypes": ["Group"],
                 "shape": {"type": "Record", "attributes": {
                     "x": {"type": "Long"}, "name": {"type": "String"},
                     "opt": {"type": "Long", "required": False},
                     "mgr": {"type": "Entity", "name": "User", "required": False}}},
                 "tags": {"type": "Long"}},
        "Folder": {"memberOfTypes": ["Folder"]},
        "Doc": {"memberOfTypes": ["Folder"],
                "shape": {"type": "Record", "attributes": {
                    "owner": {"type": "Entity", "name": "User"}, "isPublic": {"type": "Boolean"},
                    "n": {"type": "Long"},
                    "readers": {"type": "Set", "element": {"type": "Entity", "name": "User"}}}},
                "tags": {"type": "String"}},
    },
    "actions": {
        "view": {"appliesTo": {"principalTypes": ["User"], "resourceTypes": ["Doc"],
                               "context": {"type": "Record", "attributes": {
                                   "mfa": {"type": "Boolean"}, "k": {"type": "Long"},
                                   "ip": {"type": "Extension", "name": "ipaddr", "required": False}}}}},
        "edit": {"memberOf": [{"id": "view"}],
                 "appliesTo": {"principalTypes": ["User"], "resourceTypes": ["Doc"],
                               "context": {"type": "Record", "attributes": {
                                   "mfa": {"type": "Boolean"}, "k": {"type": "Long"}}}}},
    }}}

MAXS = "9223372036854775807"
# boolean sub-expressions that are partial under some partialisation; (text, error-capable on some completion)
E_ATOMS = [
    ("principal.x + %s > 0" % MAXS, True),
    ("0 < principal.x * 2", True),
    ("-(principal.x) < 0", True),
    ("principal.x - %s < 0" % MAXS, True),
    ("resource.owner.x > 0", True),
    ("resource.owner == principal", True),
    ("resource.isPublic", True),
    ("principal.name like \"a*\"", True),
    ("resource.n + context.k > 0", True),
    ("context.k * 4611686018427387904 < 1", True),
    ("resource.owner.name == principal.name", True),
    ("principal has mgr && principal.mgr.x > 0", True),
    ("principal.hasTag(\"t1\") && principal.getTag(\"t1\") > 0", True),
    ("resource.hasTag(\"t 2\") && resource.getTag(\"t 2\") like \"*\"", True),
    ("context has ip && context.ip.isLoopback()", True),
    ("context has ip && ip(\"10.0.0.1\").isInRange(context.ip)", True),
    ("principal in Group::\"par1\"", False),
    ("principal in [Group::\"par0\", Group::\"par2\"]", False),
    ("resource in Folder::\"par1\"", False),
    ("principal has opt", False),
    ("principal has mgr", False),
    ("principal.hasTag(\"t1\")", False),
    ("resource.hasTag(\"é\")", False),
    ("principal == User::\"alice\"", False),
    ("resource == Doc::\"bob\"", False),
    ("principal is User", False),
    ("context.mfa", True),
    ("context has ip", False),
    ("resource.readers.contains(principal)", True),
    ("resource.readers.isEmpty()", True),
    ("[principal, User::\"bob\"].contains(resource.owner)", True),
    ("{a: principal.x, b: 1}.b == 1", True),
    ("[principal.x, 1].contains(1)", True),
    # literals that mix an error-capable element (overflows for positive x) with constants: `can_error` of the whole literal
    ("[principal.x + 9223372036854775807, 1].contains(1)", True),
    ("[1, principal.x + 9223372036854775807].contains(1)", True),
    ("[1, 2, principal.x * 4611686018427387904].containsAny([2])", True),
    ("{a: principal.x + 9223372036854775807, b: 1}.b == 1", True),
    ("{a: 1, b: resource.n - 9223372036854775807 - 2}.a == 1", True),
    ("(if principal.x > 0 then principal.x else 0 - principal.x) >= 0", True),
    ("action in Action::\"view\"", False),
    ("action == Action::\"edit\"", False),
]
WRAPPERS = [
    "(%s) && false", "(%s) || true", "false && (%s)", "true || (%s)", "!((%s) && false)", "!((%s) || true)",
    "(%s) && context.mfa", "(%s) || context.mfa", "(%s) && !context.mfa", "(%s) || !context.mfa",
    "((%s) && false) || true", "((%s) || true) && false", "(%s)", "!(%s)",
    "if (%s) then false else false", "if (%s) then true else true", "if context.mfa then (%s) else false",
    "(%s) && (1 + 1 == 3)", "(%s) || (1 < 2)", "(%s) && principal.x < principal.x", "(%s) || resource.n <= resource.n",
    "(%s) && resource.isPublic", "(%s) || resource.isPublic",
]


def canon_val(v):
    k = v[0]
    if k == "set":
        xs = sorted({json.dumps(canon_val(x), sort_keys=True, default=repr) for x in v[1]})
        return ["set", xs]
    if k == "record":
        return ["record", sorted([kk, canon_val(x)] for kk, x in v[1])]
    return json.loads(json.dumps(v, default=repr))


def canon_kvs(kvs):
    return sorted([k, canon_val(v)] for k, v in kvs)


# ====================================================================== partialisation of conformant data
class World:
    """schema + policies + one conformant (request, store) + the partial inputs derived from it"""

    def __init__(self, sg, pols, env, q, es):
        self.sg, self.rs, self.pols, self.env, self.q, self.es = sg, sg.rs, pols, env, q, es
        self.actions = set(self.rs["actions"])


def descendants_in(es, u):
    return [e["uid"] for e in es if u in cedar.ancestors_of(es, e["uid"])]


def partialise(rng, w, p_known=0.5):
    """choose what is known; returns meta = {p_known, r_known, c_known, ents: {uid: (attrs?, anc?, tags?)}}"""
    r = rng
    prof = r.random()
    pk = 0.15 if prof < 0.2 else (0.85 if prof > 0.8 else p_known)
    meta = {"p_known": r.random() < pk, "r_known": r.random() < pk, "c_known": r.random() < max(pk, 0.4), "ents": {}}
    nonact = [e for e in w.es if e["uid"] not in w.actions]
    for e in nonact:
        if r.random() < 0.8:
            meta["ents"][e["uid"]] = [r.random() < max(pk, 0.3), r.random() < max(pk, 0.3), r.random() < max(pk, 0.3)]
    # an ancestor that is present must have known ancestors (validate_concrete_ancestors_concrete)
    changed = True
    while changed:
        changed = False
        for u, k in meta["ents"].items():
            if k[1]:
                for a in cedar.ancestors_of(w.es, u):
                    if a in meta["ents"] and not meta["ents"][a][1]:
                        meta["ents"][a][1] = True
                        changed = True
    return meta


def puid_json(u, known):
    j = {"type": "::".join(u[1])}
    if known:
        j["id"] = u[2]
    return j


def prequest_json(w, meta):
    q = w.q
    return {"principal": puid_json(q["principal"], meta["p_known"]), "action": cedar.uid_json(q["action"]),
            "resource": puid_json(q["resource"], meta["r_known"]),
            "context": {k: cedar.value_json(v) for k, v in q["context"]} if meta["c_known"] else None}


def pentities_json(w, meta, break_ancestor=None):
    out = []
    byuid = {e["uid"]: e for e in w.es}
    for u in sorted(meta["ents"]):
        ka, kn, kt = meta["ents"][u]
        e = byuid[u]
        j = {"uid": cedar.uid_json(u)}
        if ka:
            j["attrs"] = {k: cedar.value_json(v) for k, v in e["attrs"]}
        if kn:
            j["parents"] = [cedar.uid_json(p) for p in cedar.ancestors_of(w.es, u)]
        if kt:
            j["tags"] = {k: cedar.value_json(v) for k, v in e["tags"]}
        out.append(j)
    return out


def py_consistent(w, meta, q2, es2):
    """the consistency relation of the property text, computed independently of the implementation"""
    q = w.q
    for k, kn in (("principal", meta["p_known"]), ("resource", meta["r_known"])):
        if q2[k][1] != q[k][1]:
            return "type of %s" % k
        if kn and q2[k][2] != q[k][2]:
            return "id of %s" % k
    if q2["action"] != q["action"]:
        return "action"
    if meta["c_known"] and canon_kvs(q2["context"]) != canon_kvs(q["context"]):
        return "context"
    by2 = {e["uid"]: e for e in es2}
    by1 = {e["uid"]: e for e in w.es}
    for a in w.actions:
        if a not in by2:
            return "action entity missing"
        if set(cedar.ancestors_of(es2, a)) != set(w.rs["actions"][a]["ancestors"]):
            return "action ancestors"
        if by2[a]["attrs"] or by2[a]["tags"]:
            return "action attrs"
    for u, (ka, kn, kt) in meta["ents"].items():
        if u not in by2:
            return "entity missing"
        if ka and canon_kvs(by2[u]["attrs"]) != canon_kvs(by1[u]["attrs"]):
            return "attrs"
        if kn and set(cedar.ancestors_of(es2, u)) != set(cedar.ancestors_of(w.es, u)):
            return "ancestors"
        if kt and canon_kvs(by2[u]["tags"]) != canon_kvs(by1[u]["tags"]):
            return "tags"
    return None


def with_actions(w, es):
    have = {e["uid"] for e in es}
    dg = tgen.DataGen(w.rs, random.Random(0))
    return es + [dg.action_entity(a) for a in sorted(w.actions) if a not in have]


def alt_completion(rng, w, meta):
    """another conformant (request, store) consistent with the partial inputs"""
    r = rng
    dg = tgen.DataGen(w.rs, r)
    q2 = copy.deepcopy(w.q)
    es2 = {e["uid"]: copy.deepcopy(e) for e in w.es}
    anc_of_someone = set()
    for e in w.es:
        anc_of_someone.update(cedar.ancestors_of(w.es, e["uid"]))

    def fresh_entity(u):
        i = w.rs["etypes"][u[1]]
        if i["enum"] is not None:
            return {"uid": u, "attrs": [], "tags": [], "parents": []}
        e = dg.entity(u[1], u[2])
        e["uid"] = u
        e["parents"] = [p for p in e["parents"] if p != u and p not in descendants_of(u)]
        return e

    def descendants_of(u):
        cur = list(es2.values())
        return set(descendants_in(cur, u))

    for k, kn in (("principal", meta["p_known"]), ("resource", meta["r_known"])):
        if not kn and r.random() < 0.6:
            nu = dg.uid_of(q2[k][1])
            q2[k] = nu
            if nu not in es2 and r.random() < 0.8:
                es2[nu] = fresh_entity(nu)
    if not meta["c_known"] and r.random() < 0.7:
        q2["context"] = sorted(dg.record_fields(w.env.context[1]))
    for u in list(es2):
        if u in w.actions or u not in {e["uid"] for e in w.es}:
            continue
        e = es2[u]
        i = w.rs["etypes"][u[1]]
        if i["enum"] is not None:
            continue
        known = meta["ents"].get(u)
        ka, kn, kt = known if known else (False, False, False)
        leaf = u not in anc_of_someone
        if known is None and leaf and r.random() < 0.3:
            del es2[u]
            continue
        f = None
        if not ka and r.random() < 0.6:
            f = f or fresh_entity(u)
            e["attrs"] = f["attrs"]
        if not kt and r.random() < 0.6:
            f = f or fresh_entity(u)
            e["tags"] = f["tags"]
        if not kn and leaf and r.random() < 0.5:
            f = fresh_entity(u)
            e["parents"] = f["parents"]
    out = [es2[u] for u in sorted(es2)]
    return q2, out


def break_completion(rng, w, meta):
    """a conformant-looking completion that is NOT consistent with the partial inputs (near-miss stream)"""
    r = rng
    q2 = copy.deepcopy(w.q)
    es2 = [copy.deepcopy(e) for e in w.es]
    by = {e["uid"]: e for e in es2}
    dg = tgen.DataGen(w.rs, r)
    opts = []
    if meta["p_known"]:
        opts.append("pid")
    if meta["r_known"]:
        opts.append("rid")
    if meta["c_known"] and w.q["context"]:
        opts.append("ctx")
    for u, (ka, kn, kt) in meta["ents"].items():
        if w.rs["etypes"][u[1]]["enum"] is not None:
            continue
        if ka:
            opts.append(("attrs", u))
        if kn:
            opts.append(("anc", u))
        if kt and w.rs["etypes"][u[1]]["tags"] is not None:
            opts.append(("tags", u))
        opts.append(("drop", u))
    opts.append("noactions")
    if not opts:
        return None
    o = r.choice(opts)
    if o in ("pid", "rid"):
        k = "principal" if o == "pid" else "resource"
        for _ in range(8):
            nu = dg.uid_of(q2[k][1], "other%d" % r.randint(0, 9))
            if nu != q2[k]:
                q2[k] = nu
                break
    elif o == "ctx":
        for _ in range(8):
            q2["context"] = sorted(dg.record_fields(w.env.context[1]))
            if canon_kvs(q2["context"]) != canon_kvs(w.q["context"]):
                break
    elif o == "noactions":
        es2 = [e for e in es2 if e["uid"] not in w.actions]
    else:
        kind, u = o
        e = by[u]
        if kind == "drop":
            es2 = [x for x in es2 if x["uid"] != u]
        elif kind == "anc":
            if e["parents"] and r.random() < 0.5:
                e["parents"] = e["parents"][1:]
            else:
                pts = dg.permitted_parent_types(u[1])
                if pts:
                    e["parents"] = e["parents"] + [U(r.choice(pts), "zzfresh")]
        else:
            for _ in range(8):
                f = dg.entity(u[1], u[2])
                e[kind] = f[kind]
                if canon_kvs(e[kind]) != canon_kvs({x["uid"]: x for x in w.es}[u][kind]):
                    break
    return q2, es2, (o if isinstance(o, str) else o[0])


def completion_json(q, es):
    return {"request": cedar.request_json(q), "entities": cedar.entities_json(es)}


# ====================================================================== cases
def targeted_policies(rng):
    r = rng
    n = r.choice([1, 1, 2, 3])
    out = []
    for i in range(n):
        a, _ = r.choice(E_ATOMS)
        body = r.choice(WRAPPERS) % a
        if r.random() < 0.3:
            b, _ = r.choice(E_ATOMS)
            body = "(%s) %s (%s)" % (body, r.choice(["&&", "||"]), r.choice(WRAPPERS) % b)
        # ip attribute only exists for view: keep `context has ip` guards (already in the atoms)
        scope_a = r.choice(["action", "action", "action == Action::\"view\"", "action in Action::\"view\"",
                            "action in [Action::\"edit\", Action::\"view\"]"])
        if "context" in body and "ip" in body:
            scope_a = "action == Action::\"view\""
        eff = r.choice(["permit", "permit", "forbid"])
        kw = r.choice(["when", "when", "unless"])
        if kw == "unless":
            body = "!(%s)" % body
        anno = "@id(\"a%d\") " % i if r.random() < 0.3 else ""
        out.append({"id": "p%d" % i, "text": "%s%s(principal, %s, resource) %s { %s };" % (anno, eff, scope_a, kw, body)})
    if r.random() < 0.5:
        out.append({"id": "p%d" % n, "text": "permit(principal, action, resource);"})
    return out


FIXED = None


def fixed_schema():
    global FIXED
    if FIXED is None:
        FIXED = S.FixedSchema(FIXED_JS)
    return FIXED


def make_world(rng, targeted):
    r = rng
    if targeted:
        sg = fixed_schema()
        envs = tgen.request_envs(sg.rs)
        env = r.choice(envs)
        pols = targeted_policies(r)
        hints = [U("User", "alice"), U("Doc", "bob"), U("Group", "par1"), U("Group", "par0"), U("Folder", "par1"), U("User", "bob")]
        q, es = tgen.gen_env(r, sg.rs, env, hints, p_present=r.choice([0.6, 0.85, 1.0]), with_actions=True)
    else:
        sg = make_world.sg
        envs = tgen.request_envs(sg.rs)
        env = r.choice(envs)
        pols, hints = [], []
        for i in range(r.choice([1, 2, 2, 3, 4])):
            p = tgen.gen_policy(r, sg.rs, well_typed=True, env=env if (i == 0 or r.random() < 0.7) else None,
                                depth=r.choice([2, 3, 3, 4]), allow_slots=False, pid="p%d" % i)
            pols.append({"id": "p%d" % i, "text": tgen.policy_text(p)})
            hints += tgen.policy_uids(p)
        q, es = tgen.gen_env(r, sg.rs, env, hints, p_present=r.choice([0.7, 0.85, 1.0]), with_actions=True)
    return World(sg, pols, env, q, es)


def tpe_case(rng, w, n_alt=3, n_bad=2):
    n_alt, n_bad = tpe_case.n_alt, tpe_case.n_bad
    if tpe_case.n_bad == 1:               # quick tier: an inconsistent completion on every other case
        tpe_case.flip = not getattr(tpe_case, "flip", False)
        n_bad = 1 if tpe_case.flip else 0
    r = rng
    meta = partialise(r, w)
    comps = [(w.q, w.es, "orig")]
    for _ in range(n_alt):
        q2, es2 = alt_completion(r, w, meta)
        comps.append((q2, es2, "alt"))
    for _ in range(n_bad):
        b = break_completion(r, w, meta)
        if b is not None:
            comps.append((b[0], b[1], "bad:" + b[2]))
    cons = [py_consistent(w, meta, q2, es2) for q2, es2, _ in comps]
    cmd = {"cmd": "tpe", "schema_json": w.sg.js, "policies": w.pols, "prequest": prequest_json(w, meta),
           "pentities": pentities_json(w, meta),
           "completions": [completion_json(q2, es2) for q2, es2, _ in comps]}
    return {"cmd": cmd, "kinds": [k for _, _, k in comps], "consistent": cons, "world": w, "meta": meta,
            "comps": comps}


tpe_case.n_alt, tpe_case.n_bad = 3, 2


def view_map(v):
    d = {}
    dup = False
    for i, t in v:
        if i in d:
            dup = True
        d[i] = t
    return d, dup


def oracle_tpe(rep, case, res, stats):
    """the property stated on the Rust results; returns number of violations"""
    cmd = case["cmd"]
    nv = 0

    def viol(kind, extra=None, key=None):
        nonlocal nv
        nv += 1
        kk = kind.split(" is ")[0][:60]
        stats["violation_kinds"][kk] = stats["violation_kinds"].get(kk, 0) + 1
        if stats["violation_kinds"][kk] > 4:      # at most 4 replays per kind of failure
            return
        payload = {"property": PROP, "kind": kind, "input": cmd, "observed": extra,
                   "replay": "./check C14 --replay <this file>"}
        rep.violation(payload, key=key)

    if "setup_error" in res:
        st = res["setup_error"]
        stats["setup_error"][st["stage"] + ":" + st["class"]] = stats["setup_error"].get(st["stage"] + ":" + st["class"], 0) + 1
        return 0
    if "panic" in res or "harness_error" in res or "abort" in res:
        if "panic" in res or "abort" in res:
            viol("tpe panics", res)
        else:
            raise fw.InfraError("harness error on tpe: %r" % (res,))
        return nv
    ids = res["ids"]
    bucket = res["bucket"]
    if sorted(bucket) != ids or res["bucket_dups"]:
        viol("buckets do not partition the policy ids", {"bucket": bucket, "ids": ids})
    # ---- views
    views = res["views"]
    maps = {}
    for name in ("policies", "policy_set", "get_policy", "reauth_set"):
        m, dup = view_map(views[name])
        maps[name] = m
        if dup or sorted(m) != ids or any(t is None for t in m.values()):
            viol("view %s does not present exactly the policy ids" % name, {"view": views[name], "ids": ids})
    base = maps["policies"]
    # the core-level set prints through the multi-line core Display: compare modulo whitespace
    nows = lambda m: {i: (None if t is None else "".join(t.split())) for i, t in m.items()}  # noqa: E731
    for name in ("policy_set", "get_policy", "reauth_set"):
        if (nows(maps[name]) != nows(base)) if name == "reauth_set" else (maps[name] != base):
            diff = {i: {"policies()": base.get(i), name: maps[name].get(i)} for i in ids if base.get(i) != maps[name].get(i)}
            viol("view %s presents different policies than policies()" % name, diff,
                 key=KEY_FA if name in ("policy_set", "reauth_set") else None)
    nt, dup = view_map(views["residual_policies"])
    want_nt = {i: base.get(i) for i in ids if bucket.get(i) == "residual"}
    if dup or nt != want_nt:
        viol("residual_policies() is not the residual-bucket part of policies()", {"got": nt, "want": want_nt})
    if views["absent_lookup"] is not None:
        viol("get_policy of an absent id returns a policy", views["absent_lookup"])
    if res["effects"] != res["orig_effects"]:
        viol("a residual policy changes effect or annotations", {"got": res["effects"], "orig": res["orig_effects"]})
    # ---- decision table sanity wrt reason
    dec = res["decision"]
    stats["decision"][str(dec)] = stats["decision"].get(str(dec), 0) + 1
    for b in bucket.values():
        stats["bucket"][b] = stats["bucket"].get(b, 0) + 1
    # ---- completions
    for ci, (comp, kind, cons) in enumerate(zip(res["completions"], case["kinds"], case["consistent"])):
        re_ = comp["reauthorize"]
        ctx = {"completion_index": ci, "completion_kind": kind, "python_consistency": cons, "completion": comp}
        if cons is not None:
            stats["inconsistent_completions"] += 1
            if "ok" in re_:
                viol("reauthorize accepts a completion that is not consistent with the partial inputs (%s)" % cons, ctx)
            else:
                stats["reauth_reject"][re_["err"].split(".")[0]] = stats["reauth_reject"].get(re_["err"].split(".")[0], 0) + 1
            continue
        if "err" in re_:
            cls = re_["err"].split(".")[0]
            if cls in ("InconsistentEntities", "InconsistentRequests"):
                viol("reauthorize rejects a consistent completion", ctx)
            else:
                stats["nonconformant_completions"] += 1
            continue
        stats["consistent_completions"] += 1
        scratch = comp["scratch"]
        if re_["ok"] != scratch:
            viol("reauthorize differs from from-scratch authorization of the original policies", ctx)
        if dec is not None:
            stats["definite_checked"] += 1
            if scratch["decision"] != dec:
                viol("definite TPE decision %s differs from the concrete decision %s" % (dec, scratch["decision"]), ctx)
            if not set(res["reason"]) <= set(scratch["reasons"]):
                viol("TPE reason is not a subset of the concrete determining policies", ctx)
        for i in ids:
            pp = comp["per_policy"][i]
            o, rr, rs_ = pp["orig"], pp["residual"], pp["reauth_set"]
            oc = o if isinstance(o, str) else "error"
            rc = rr if isinstance(rr, str) else ("error" if rr is not None else None)
            sc = rs_ if isinstance(rs_, str) else ("error" if rs_ is not None else None)
            stats["outcomes"][oc] = stats["outcomes"].get(oc, 0) + 1
            if bucket.get(i) == "residual":
                stats["residual_outcomes"][oc] = stats["residual_outcomes"].get(oc, 0) + 1
            if rc != oc:
                viol("residual policy %s is %s where the original is %s" % (i, rc, oc),
                     dict(ctx, policy=i, residual=base.get(i), bucket=bucket.get(i)))
            elif sc != oc:
                viol("policy %s of the reauthorization set is %s where the original is %s" % (i, sc, oc),
                     dict(ctx, policy=i), key=KEY_FA)
            b = bucket.get(i)
            if b in ("true", "false", "error") and {"true": "sat", "false": "unsat", "error": "error"}[b] != oc:
                viol("policy %s is in the %s bucket but is %s on a completion" % (i, b, oc), dict(ctx, policy=i))
    return nv


# ====================================================================== queries
def query_case(rng, w, kind):
    q = w.q
    hole = q["resource"] if kind == "resource" else q["principal"]
    fixed = q["principal"] if kind == "resource" else q["resource"]
    return {"cmd": "tpe_query", "schema_json": w.sg.js, "policies": w.pols, "kind": kind,
            "entities": cedar.entities_json(w.es),
            "request": {"action": cedar.uid_json(q["action"]), "fixed": cedar.uid_json(fixed),
                        "hole_type": "::".join(hole[1]),
                        "context": {k: cedar.value_json(v) for k, v in q["context"]}}}


def oracle_query(rep, cmd, res, stats):
    if "setup_error" in res:
        k = res["setup_error"]["stage"] + ":" + res["setup_error"]["class"]
        stats["query_setup_error"][k] = stats["query_setup_error"].get(k, 0) + 1
        return 0
    if "panic" in res or "abort" in res:
        rep.violation({"property": PROP, "kind": "permission query panics", "input": cmd, "observed": res})
        return 1
    if "harness_error" in res:
        raise fw.InfraError("harness error on tpe_query: %r" % (res,))
    got = sorted(json.dumps(u, sort_keys=True) for u in res["result"])
    want = sorted(json.dumps(b["uid"], sort_keys=True) for b in res["brute"] if b["decision"] == "Allow")
    stats["query_candidates"] += len(res["brute"])
    stats["query_allowed"] += len(want)
    if got != want:
        rep.violation({"property": PROP, "kind": "query_%s differs from brute force over the store" % cmd["kind"],
                       "input": cmd, "observed": res, "replay": "./check C14 --replay <this file>"})
        return 1
    return 0


def action_query_case(rng, w):
    r = rng
    meta = partialise(r, w)
    rs = w.rs
    q = w.q
    acts = [a for a in sorted(rs["actions"]) if q["principal"][1] in rs["actions"][a]["principals"]
            and q["resource"][1] in rs["actions"][a]["resources"]]
    comps, cacts, cons = [], [], []
    dg = tgen.DataGen(rs, r)
    for a in acts:
        for k in range(2):
            q2, es2 = (w.q, w.es) if k == 0 else alt_completion(r, w, meta)
            q2 = dict(copy.deepcopy(q2), action=a)
            if a != q["action"] and not meta["c_known"]:
                q2["context"] = sorted(dg.record_fields(rs["actions"][a]["context"][1]))
            m2 = dict(meta)
            w2 = copy.copy(w)
            w2.q = dict(w.q, action=a)
            cons.append(py_consistent(w2, m2, q2, es2))
            comps.append(completion_json(q2, es2))
            cacts.append(a)
    pr = prequest_json(w, meta)
    cmd = {"cmd": "tpe_query_action", "schema_json": w.sg.js, "policies": w.pols,
           "request": {"principal": pr["principal"], "resource": pr["resource"], "context": pr["context"]},
           "pentities": pentities_json(w, meta), "completions": comps}
    return {"cmd": cmd, "actions": cacts, "consistent": cons}


def oracle_action_query(rep, case, res, stats):
    cmd = case["cmd"]
    if "setup_error" in res:
        k = res["setup_error"]["stage"] + ":" + res["setup_error"]["class"]
        stats["query_setup_error"][k] = stats["query_setup_error"].get(k, 0) + 1
        return 0
    if "panic" in res or "abort" in res:
        rep.violation({"property": PROP, "kind": "query_action panics", "input": cmd, "observed": res})
        return 1
    if "harness_error" in res:
        raise fw.InfraError("harness error on tpe_query_action: %r" % (res,))
    label = {json.dumps(x["action"], sort_keys=True): x["decision"] for x in res["result"]}
    nv = 0
    for a, cons, comp in zip(case["actions"], case["consistent"], res["completions"]):
        if cons is not None or not comp["valid_request"]:
            continue
        k = json.dumps(json.loads(json.dumps(render_uid(a))), sort_keys=True)
        stats["action_completions"] += 1
        if comp["decision"] == "Allow" and k not in label:
            nv += 1
            rep.violation({"property": PROP, "kind": "query_action omits an action that is allowed on a consistent completion",
                           "input": cmd, "observed": res, "action": k})
        if label.get(k) == "Allow" and comp["decision"] != "Allow":
            nv += 1
            rep.violation({"property": PROP, "kind": "query_action labels an action definitely allowed that is denied on a consistent completion",
                           "input": cmd, "observed": res, "action": k})
        if label.get(k) == "Deny":
            nv += 1
            rep.violation({"property": PROP, "kind": "query_action returns a definitely denied action", "input": cmd, "observed": res})
    return nv


def render_uid(u):
    """the harness' render::uid form"""
    return {"type": [[ord(c) for c in comp] for comp in u[1]], "id": [ord(c) for c in u[2]]}


# ====================================================================== run
def new_stats():
    return {"setup_error": {}, "decision": {}, "bucket": {}, "inconsistent_completions": 0, "consistent_completions": 0,
            "nonconformant_completions": 0, "reauth_reject": {}, "definite_checked": 0, "outcomes": {},
            "residual_outcomes": {}, "query_setup_error": {}, "query_candidates": 0, "query_allowed": 0,
            "action_completions": 0, "model_compared": 0, "model_skipped": {}, "violation_kinds": {}}


def run(rep, tier, seed):
    ob, dis, details, failures = fw.check_props(PROP_FILE, THEOREMS) if THEOREMS else (0, 0, {}, [])
    harness = fw.build_harness()
    driver = fw.build_model_driver()
    rng = random.Random(seed)
    n_t, n_r = (180, 220) if tier == "quick" else (12000, 16000)
    # quick: 400 tpe cases x (original + 2 alternative + 1 inconsistent completion), 100 + 50 queries (~3 min CPU);
    # thorough: 28000 cases x (1 + 3 + 2)
    tpe_case.n_alt, tpe_case.n_bad = (2, 1) if tier == "quick" else (3, 2)
    q_every, a_every = (4, 8) if tier == "quick" else (4, 6)
    stats = new_stats()
    cases, qcmds, acases = [], [], []
    for i in range(n_t):
        w = make_world(rng, True)
        cases.append(tpe_case(rng, w))
        if i % q_every == 0:
            qcmds.append(query_case(rng, w, rng.choice(["resource", "principal"])))
        if i % a_every == 0:
            acases.append(action_query_case(rng, w))
    for i in range(n_r):
        if i % 12 == 0:
            make_world.sg = tgen.gen_schema(rng)
        w = make_world(rng, False)
        cases.append(tpe_case(rng, w))
        if i % q_every == 0:
            qcmds.append(query_case(rng, w, rng.choice(["resource", "principal"])))
        if i % a_every == 0:
            acases.append(action_query_case(rng, w))
    res = fw.run_rust(harness, [c["cmd"] for c in cases])
    nviol = 0
    distinct = set()
    for c, r_ in zip(cases, res):
        nviol += oracle_tpe(rep, c, r_, stats)
        if "setup_error" not in r_ and "bucket" in r_ and any(b == "residual" for b in r_["bucket"].values()):
            distinct.add(fw.case_hash(c["cmd"]))
    qres = fw.run_rust(harness, qcmds)
    for c, r_ in zip(qcmds, qres):
        nviol += oracle_query(rep, c, r_, stats)
    ares = fw.run_rust(harness, [c["cmd"] for c in acases])
    for c, r_ in zip(acases, ares):
        nviol += oracle_action_query(rep, c, r_, stats)
    nx = 0
    try:
        import c14_model
        nx = c14_model.correspond(rep, cases, res, driver, stats)
    except ImportError:
        pass
    for f in failures:
        rep.violation({"property": PROP, "kind": "proof obligation no longer checks", "detail": f}, no_failing_input=True)
    sample = None
    for c, r_ in zip(cases, res):
        if "bucket" in r_ and "residual" in r_["bucket"].values():
            sample = {"policies": c["cmd"]["policies"], "prequest": c["cmd"]["prequest"], "decision": r_["decision"],
                      "bucket": r_["bucket"], "residual_policies": r_["views"]["residual_policies"][:2]}
            break
    rep.coverage = {
        "obligations": ob, "discharged": dis,
        "checker_cmd": "make -C coq props/%s.vo (coqc 8.16.1) + Print Assumptions" % PROP_FILE,
        "trusted_base": fw.TRUSTED_BASE, "theorems": details,
        "evaluations": len(cases) + len(qcmds) + len(acases), "distinct_nontrivial": len(distinct),
        "rule": "distinct by hash of the whole tpe command; non-trivial = at least one policy left in the residual bucket",
        "traces_validated_against_impl": len(cases) + len(qcmds) + len(acases),
        "vm_compute_crosscheck_cases": nx,
        "streams": {"targeted_fixed_schema": n_t, "random_schema_tgen": n_r, "query_resource_principal": len(qcmds),
                    "query_action": len(acases)},
        "histograms": stats, "samples": [sample], "violations_seen": nviol,
    }
    rep.assumptions = [
        "policies are static and accepted by the strict typechecker in the request environment (tpe() itself re-typechecks)",
        "completions are conformant to the schema (generated from it) and consistent with the partial inputs by the "
        "relation of PartialRequest/PartialEntities::check_consistency, recomputed independently in Python",
        "error CLASS of an erroring policy is not compared (Residual::Error carries no class)",
    ]


def replay(rep, path):
    payload = json.load(open(path))
    harness = fw.build_harness()
    cmd = payload.get("input")
    print(json.dumps({k: v for k, v in payload.items() if k not in ("input", "observed")}, indent=1)[:3000])
    if cmd:
        r = fw.run_rust(harness, [cmd])[0]
        print(json.dumps(r, indent=1)[:6000])
