"""C11 — schema conformance checks accept exactly conformant requests, contexts and entities,
   equally through every entry point that takes a schema.

   Proof: props/C11_Conform.v (boolean checkers == declarative specification, one rejection lemma per
   fault class, entry-point lemmas).
   Correspondence: the model of every entry point (coq/model/Conform.v ep_*) vs the real entry point
   (harness/src/cmd_conform.rs) on random schemas, conformant data generated FROM the schema, every
   single-fault mutation at every nesting position, and a multi-fault stream.  The schema goes to Rust
   as Cedar JSON and to the model as the resolved schema; the Python resolver (vp/schema.py) is
   cross-checked against a dump of Rust's ValidatorSchema.
   Oracle on the implementation: conformant data accepted by every entry point, every single-fault
   mutant rejected by every entry point, all entry points agree on the same datum."""
import json
import random

import cedar
import framework as fw
import schema as S
from cedar import U
from sx import Sym, Str

PROP = "C11"
PROP_FILE = "C11_Conform"
THEOREMS = [   # every theorem of props/C11_Conform.v that has a Print Assumptions
    "c11_value", "c11_entity", "c11_request", "c11_context", "c11_checkers_agree", "c11_no_schematype_panic",
    "c11_reject_wrong_type", "c11_reject_nested_in_set", "c11_reject_nested_in_record",
    "c11_reject_missing_required_nested", "c11_reject_missing_required", "c11_reject_undeclared_attr_nested",
    "c11_reject_undeclared_attr", "c11_reject_attr_wrong_type", "c11_reject_tag_wrong_type",
    "c11_reject_tag_on_tagless_type", "c11_reject_bad_ancestor_type", "c11_reject_enum_id_in_value",
    "c11_enum_id_invalid", "c11_reject_invalid_uid_in_open_attr", "c11_reject_invalid_ancestor_uid",
    "c11_reject_invalid_own_uid", "c11_reject_undeclared_entity_type", "c11_reject_undeclared_action",
    "c11_reject_undeclared_action_uid_in_value", "c11_reject_action_mismatch",
    "c11_reject_request_undeclared_action", "c11_reject_principal_not_in_applies_to",
    "c11_reject_resource_not_in_applies_to", "c11_reject_request_context", "c11_reject_request_scope_var",
    "c11_entry_add", "c11_entry_upsert", "c11_entry_from_entities", "c11_entry_request_new",
    "c11_entry_context_validate", "c11_entry_same_checker", "c11_entry_json_partial",
    "c11_context_from_json_refuted", "c11_context_from_json_refuted_enum",
]

MANIFEST = {
    "text": "Boolean conformance checkers transcribed from conformance.rs / coreschema.rs / types.rs (values against "
            "SchemaType and against validator Type, enum ids and declared actions at any depth, entities, actions by "
            "deep_eq, requests) proved equivalent to a declarative specification written from the property text, one "
            "rejection lemma per fault class, and entry-point lemmas (props/C11_Conform.v); tied to /repo by differential "
            "execution of the extracted model of each schema-taking entry point against the real entry point on random "
            "schemas with conformant data generated from the schema and all single-fault mutations at every nesting "
            "position, plus an implementation-level entry-point-agreement oracle.",
    "technique": "proof (Coq, structural induction on values/types) + correspondence by differential execution + metamorphic oracle (entry-point agreement)",
    "note": "Context::from_json_* with a schema only runs the type-directed parse (finding F-d, key "
            "C11:context_from_json_skips_typecheck): the model reproduces it (c11_context_from_json_refuted).",
}

KEY_FD = "C11:context_from_json_skips_typecheck"
FD_FAULTS = ("wrong_type", "enum_id")    # what "skips the type check" explains; nothing else

LONGS = [0, 1, -1, 7, cedar.I64_MAX, cedar.I64_MIN, 2 ** 31]
STRINGS = ["", "a", "x y", 'q"\\', "\U0001F600", "1.5", "héllo"]
IDS = ["alice", "bob", "x y", 'q"', "\U0001F600z", ""]
EXT_VALUES = {
    "decimal": [("decimal", 15000), ("decimal", 0), ("decimal", -12345), ("decimal", cedar.I64_MAX)],
    "ipaddr": [("ip", False, 0x0A000001, 32), ("ip", False, 0xC0A80000, 16), ("ip", True, 1, 128)],
    "datetime": [("datetime", 0), ("datetime", 1700000000000), ("datetime", -86400000)],
    "duration": [("duration", 0), ("duration", 90061001), ("duration", -5)],
}
RESERVED_KEYS = {"__entity", "__extn", "__expr", "type", "id", "fn", "arg", "args"}


# ====================================================================== data from a resolved schema
class DataGen:
    def __init__(self, rs, rng):
        self.rs, self.r = rs, rng
        self.etypes = sorted(rs["etypes"])
        self.std_types = [n for n in self.etypes if rs["etypes"][n]["enum"] is None]
        self.full = False      # full mode: every optional attribute present, every set non-empty (all nested sites exist)

    # ---- values
    def uid_of(self, ty, fresh=None):
        i = self.rs["etypes"].get(ty)
        if i is not None and i["enum"] is not None:
            return U(ty, self.r.choice(i["enum"]))
        return U(ty, fresh if fresh is not None else self.r.choice(IDS))

    def value(self, t):
        r = self.r
        k = t[0]
        if k == "bool":
            return ("prim", ("bool", r.random() < 0.5))
        if k == "long":
            return ("prim", ("long", r.choice(LONGS)))
        if k == "string":
            return ("prim", ("string", r.choice(STRINGS)))
        if k == "entity":
            return ("prim", ("entity", self.uid_of(t[1])))
        if k == "ext":
            return ("ext", r.choice(EXT_VALUES[t[1]]))
        if k == "set":
            return ("set", [self.value(t[1]) for _ in range(r.choice([1, 2] if self.full else [0, 1, 2, 2]))])
        if k == "record":
            return ("record", self.record_fields(t[1]))
        raise ValueError(t)

    def record_fields(self, attrs):
        out = []
        for a, t, req in attrs:
            if req or self.full or self.r.random() < 0.6:
                out.append((a, self.value(t)))
        return out

    def any_type(self, depth=1):
        r = self.r
        ks = ["bool", "long", "string", "entity", "ext"] + (["set", "record"] if depth > 0 else [])
        k = r.choice(ks)
        if k == "entity":
            return ("entity", r.choice(self.etypes))
        if k == "ext":
            return ("ext", r.choice(S.EXT_TYPES))
        if k == "set":
            return ("set", self.any_type(depth - 1))
        if k == "record":
            return ("record", sorted((a, self.any_type(depth - 1), True) for a in r.sample(["p", "q"], r.randint(0, 2))), False)
        return (k,)

    # ---- entities (dicts {uid, attrs, tags, parents}); parents are DIRECT parents as written
    def permitted_parent_types(self, ty):
        return [n for n in self.etypes if ty in self.rs["etypes"][n]["descendants"]]

    def entity(self, ty, eid=None, parents=None):
        r = self.r
        i = self.rs["etypes"][ty]
        u = self.uid_of(ty, eid)
        attrs = self.record_fields(i["attrs"])
        if i["open"] and r.random() < 0.7:
            for a in r.sample(["zz", "zy"], r.randint(1, 2)):
                attrs.append((a, self.value(self.any_type(1))))
        tags = []
        if i["tags"] is not None:
            tags = [(k, self.value(i["tags"])) for k in r.sample(["t1", "t 2", "é"], r.choice([0, 1, 2]))]
        if parents is None:
            pts = self.permitted_parent_types(ty)
            parents = []
            for _ in range(r.choice([0, 1, 1, 2]) if pts else 0):
                p = self.uid_of(r.choice(pts), "par%d" % r.randint(0, 3))
                if p != u and p not in parents:
                    parents.append(p)
        return {"uid": u, "attrs": sorted(attrs), "tags": sorted(tags), "parents": parents}

    def action_entity(self, u, closed=True):
        i = self.rs["actions"][u]
        return {"uid": u, "attrs": [], "tags": [], "parents": list(i["ancestors"] if closed else i["member_of"])}

    # ---- requests
    def request(self):
        r = self.r
        cands = [u for u, i in self.rs["actions"].items() if i["principals"] and i["resources"]]
        if not cands:
            return None
        a = r.choice(sorted(cands))
        i = self.rs["actions"][a]
        return {"principal": self.uid_of(r.choice(i["principals"])), "action": a,
                "resource": self.uid_of(r.choice(i["resources"])), "context": sorted(self.record_fields(i["context"][1]))}


# ====================================================================== single-fault mutations of values
def wrong_values(dg, t):
    """values that are NOT of type t (kind changed), avoiding the JSON implicit escapes"""
    k = t[0]
    L = ("prim", ("long", 5))
    Sg = ("prim", ("string", "w"))
    B = ("prim", ("bool", True))
    E = ("prim", ("entity", dg.uid_of(dg.std_types[0] if dg.std_types else dg.etypes[0], "w")))
    X = ("ext", ("decimal", 10000))
    ST = ("set", [])
    ST1 = ("set", [L])
    RC = ("record", [])
    if k == "bool":
        return [L, Sg, ST, RC]
    if k == "long":
        return [Sg, B, X, ST1]
    if k == "string":
        return [L, B, E, RC]
    if k == "entity":
        out = [L, Sg, X, ST]
        others = [n for n in dg.etypes if n != t[1]]
        if others:
            out.insert(0, ("prim", ("entity", dg.uid_of(dg.r.choice(others), "w"))))   # entity of another type
        return out
    if k == "ext":
        other = [e for e in S.EXT_TYPES if e != t[1]][dg.r.randrange(3)]
        return [("ext", EXT_VALUES[other][0]), L, B, E, ST]         # no string: implicit constructor
    if k == "set":
        return [L, Sg, RC, E]
    if k == "record":
        return [L, Sg, ST, B]
    raise ValueError(t)


def value_sites(dg, v, t, path=()):
    """all single-fault mutants of value v : t  ->  [(fault_class, path, v')]"""
    out = []
    r = dg.r
    for w in r.sample(wrong_values(dg, t), 2):
        out.append(("wrong_type", path, w))
    k = t[0]
    if k == "entity":
        i = dg.rs["etypes"].get(t[1])
        if i is not None and i["enum"] is not None:
            out.append(("enum_id", path, ("prim", ("entity", U(t[1], "not-a-choice")))))
    elif k == "set" and v[0] == "set":
        for idx, x in enumerate(v[1]):
            for cls, p, x2 in value_sites(dg, x, t[1], path + (idx,)):
                out.append((cls, p, ("set", v[1][:idx] + [x2] + v[1][idx + 1:])))
        # one more element of the wrong type (covers empty sets)
        w = r.choice(wrong_values(dg, t[1]))
        out.append(("wrong_type", path + ("+",), ("set", v[1] + [w])))
        if t[1][0] == "entity":
            i = dg.rs["etypes"].get(t[1][1])
            if i is not None and i["enum"] is not None:
                out.append(("enum_id", path + ("+",), ("set", v[1] + [("prim", ("entity", U(t[1][1], "not-a-choice")))])))
    elif k == "record" and v[0] == "record":
        for cls, p, fields in record_sites(dg, v[1], t[1], t[2], path):
            out.append((cls, p, ("record", fields)))
    return out


def record_sites(dg, fields, attrs, is_open, path=()):
    """single-fault mutants of a record's field list against the declared attributes"""
    out = []
    r = dg.r
    have = dict(fields)
    for a, t, req in attrs:
        if a in have:
            for cls, p, x2 in value_sites(dg, have[a], t, path + (a,)):
                out.append((cls, p, sorted([(k, (x2 if k == a else x)) for k, x in fields])))
            if req:
                out.append(("missing_required", path + (a,), [(k, x) for k, x in fields if k != a]))
        else:
            # an optional attribute that is absent: present with a wrong type
            w = r.choice(wrong_values(dg, t))
            out.append(("wrong_type", path + (a,), sorted(fields + [(a, w)])))
    if not is_open:
        extra = "undeclared"
        out.append(("extra_attr", path + (extra,), sorted(fields + [(extra, ("prim", ("long", 1)))])))
    return out


def excluded(v, t):
    """inputs the model does not cover (Conform.jparse = None): the implicit escapes of schema-based parsing"""
    k = t[0]
    if k == "ext":
        return v[0] == "record" or (v[0] == "prim" and v[1][0] == "string")
    if k == "entity":
        return v[0] == "record"
    if k == "set" and v[0] == "set":
        return any(excluded(x, t[1]) for x in v[1])
    if k == "record" and v[0] == "record":
        decl = {a: ty for a, ty, _ in t[1]}
        return any(a in decl and excluded(x, decl[a]) for a, x in v[1])
    return False


def entity_excluded(rs, e):
    i = rs["etypes"].get(e["uid"][1])
    if i is None:
        return False
    if excluded(("record", e["attrs"]), ("record", i["attrs"], i["open"])):
        return True
    return i["tags"] is not None and any(excluded(x, i["tags"]) for _, x in e["tags"])


# ====================================================================== cases
def entity_json(e):
    return {"uid": cedar.uid_json(e["uid"]), "attrs": {k: cedar.value_json(v) for k, v in e["attrs"]},
            "parents": [cedar.uid_json(p) for p in e["parents"]], "tags": {k: cedar.value_json(v) for k, v in e["tags"]}}


def entity_sx(e):
    return [Sym("entity"), cedar.uid_sx(e["uid"]), cedar.attrs_sx(e["attrs"]), cedar.attrs_sx(e["tags"]),
            [cedar.uid_sx(p) for p in e["parents"]]]


ENTITY_EPS = ["entities_from_entities", "entities_from_json", "entities_add", "entities_upsert",
              "entities_add_from_json", "entity_from_json"]
REQUEST_EPS = ["request_new", "context_validate", "context_from_json"]


class Case:
    """one datum + expectation.  kind: 'entities' | 'request'
       fault: None (conformant) | fault-class string | 'multi' (several faults: accept/reject only)
       tc_closed: False for action entities written with direct parents only (correspondence only)"""
    __slots__ = ("sid", "kind", "fault", "path", "entities", "focus", "base", "request", "tc_closed", "scope_fault")

    def __init__(self, sid, kind, fault, path=(), entities=None, focus=0, base=None, request=None, tc_closed=True,
                 scope_fault=False):
        self.sid, self.kind, self.fault, self.path = sid, kind, fault, path
        self.entities, self.focus, self.base, self.request = entities, focus, base or [], request
        self.tc_closed, self.scope_fault = tc_closed, scope_fault


def entity_cases(sid, dg):
    """conformant entity sets and every single-fault mutant of one entity of the set"""
    r = dg.r
    rs = dg.rs
    cases = []
    for ty, full in [(t, f) for t in dg.etypes for f in (False, True)]:
        i = rs["etypes"][ty]
        if full and (rs["etypes"][ty]["enum"] is not None or not i["attrs"]):
            continue
        dg.full = full
        e = dg.entity(ty)
        dg.full = False
        # companions: conformant entities (possibly parents of e) so that TC really runs
        comp = []
        for p in e["parents"][:1]:
            if rs["etypes"][p[1]]["enum"] is None:
                comp.append(dg.entity(p[1], p[2], parents=[]))
            else:
                comp.append({"uid": p, "attrs": [], "tags": [], "parents": []})
        if r.random() < 0.5:
            oty = r.choice(dg.etypes)
            c = dg.entity(oty, "comp")
            if c["uid"] != e["uid"] and all(c["uid"] != x["uid"] for x in comp):
                comp.append(c)
        base = []
        if r.random() < 0.5:
            b = dg.entity(r.choice(dg.etypes), "base")
            if b["uid"] != e["uid"] and all(b["uid"] != x["uid"] for x in comp):
                base.append(b)

        def mk(fault, path, e2):
            es = [e2] + comp
            return Case(sid, "entities", fault, path, entities=es, focus=0, base=base)

        cases.append(mk(None, (), e))
        # attribute faults at every position
        for cls, p, fields in record_sites(dg, e["attrs"], i["attrs"], i["open"], ("attrs",)):
            cases.append(mk(cls, p, dict(e, attrs=fields)))
        if i["open"]:
            # undeclared attribute of an open type holding an undeclared enum id
            for en in [n for n in dg.etypes if rs["etypes"][n]["enum"] is not None][:1]:
                bad = ("set", [("prim", ("entity", U(en, "not-a-choice")))])
                cases.append(mk("enum_id", ("attrs", "open"), dict(e, attrs=sorted(e["attrs"] + [("zopen", bad)]))))
        # tag faults
        if i["tags"] is None:
            cases.append(mk("unexpected_tag", ("tags",), dict(e, tags=[("t1", ("prim", ("string", "x")))])))
        else:
            tags = e["tags"] or [("t1", dg.value(i["tags"]))]
            for ti, (tk, tv) in enumerate(tags):
                for cls, p, v2 in value_sites(dg, tv, i["tags"], ("tags", tk)):
                    cases.append(mk(cls, p, dict(e, tags=sorted(tags[:ti] + [(tk, v2)] + tags[ti + 1:]))))
        # ancestor faults
        permitted = dg.permitted_parent_types(ty)
        bad_types = [n for n in dg.etypes if n not in permitted]
        for bt in r.sample(bad_types, min(2, len(bad_types))):
            cases.append(mk("bad_ancestor_type", ("parents",), dict(e, parents=e["parents"] + [dg.uid_of(bt, "anc")])))
        for pt in permitted:
            if rs["etypes"][pt]["enum"] is not None:
                cases.append(mk("enum_id", ("parents",), dict(e, parents=e["parents"] + [U(pt, "not-a-choice")])))
        cases.append(mk("undeclared_action", ("parents",),
                        dict(e, parents=e["parents"] + [U(("Action",), "nope")])))
        # the entity's own id / type
        if i["enum"] is not None:
            cases.append(mk("enum_id", ("uid",), dict(e, uid=U(ty, "not-a-choice"))))
        cases.append(mk("undeclared_type", ("uid",), dict(e, uid=U(ty[:-1] + ("Nope",), e["uid"][2]))))
    # action entities
    acts = sorted(rs["actions"])
    for a in acts:
        ai = rs["actions"][a]
        good = dg.action_entity(a)
        cases.append(Case(sid, "entities", None, (), entities=[good]))
        cases.append(Case(sid, "entities", "action_mismatch", ("attrs",),
                          entities=[dict(good, attrs=[("n", ("prim", ("long", 1)))])]))
        cases.append(Case(sid, "entities", "action_mismatch", ("tags",),
                          entities=[dict(good, tags=[("t", ("prim", ("string", "x")))])]))
        others = [b for b in acts if b != a and b not in ai["ancestors"]]
        if others:
            cases.append(Case(sid, "entities", "action_mismatch", ("parents", "+"),
                              entities=[dict(good, parents=good["parents"] + [r.choice(others)])]))
        if ai["ancestors"]:
            drop = r.choice(ai["ancestors"])
            cases.append(Case(sid, "entities", "action_mismatch", ("parents", "-"),
                              entities=[dict(good, parents=[p for p in good["parents"] if p != drop])]))
        if ai["ancestors"] != ai["member_of"]:
            # direct parents only, with the groups present: accepted after TC by from_entities/from_json,
            # rejected by the entry points that validate before TC (documented difference; model follows)
            es = [dg.action_entity(a, closed=False)] + [dg.action_entity(g, closed=False) for g in ai["ancestors"]]
            cases.append(Case(sid, "entities", "action_direct_parents", ("parents",), entities=es, tc_closed=False))
    for ns_action in sorted(set(a[1] for a in acts)):
        cases.append(Case(sid, "entities", "undeclared_action", ("uid",),
                          entities=[{"uid": U(ns_action, "nope"), "attrs": [], "tags": [], "parents": []}]))
    return cases


def request_cases(sid, dg):
    r = dg.r
    rs = dg.rs
    cases = []
    for _ in range(2):
        q = dg.request()
        if q is None:
            return cases
        ai = rs["actions"][q["action"]]
        cases.append(Case(sid, "request", None, (), request=q))
        for cls, p, fields in record_sites(dg, q["context"], ai["context"][1], ai["context"][2], ("context",)):
            cases.append(Case(sid, "request", cls, p, request=dict(q, context=fields)))
        # scope faults
        cases.append(Case(sid, "request", "undeclared_action", ("action",),
                          request=dict(q, action=U(q["action"][1], "nope"))))
        for var, key in (("principal", "principals"), ("resource", "resources")):
            bad = [n for n in dg.etypes if n not in ai[key]]
            for bt in r.sample(bad, min(2, len(bad))):
                cases.append(Case(sid, "request", "%s_not_in_applies_to" % var, (var,),
                                  request=dict(q, **{var: dg.uid_of(bt, "zz")}), scope_fault=True))
            cases.append(Case(sid, "request", "undeclared_%s_type" % var, (var,),
                              request=dict(q, **{var: U(q[var][1][:-1] + ("Nope",), "zz")}), scope_fault=True))
            if rs["etypes"][q[var][1]]["enum"] is not None:
                cases.append(Case(sid, "request", "enum_id", (var,),
                                  request=dict(q, **{var: U(q[var][1], "not-a-choice")}), scope_fault=True))
        # an action without appliesTo: no principal/resource type is applicable
        for a2 in sorted(rs["actions"]):
            if not rs["actions"][a2]["principals"]:
                cases.append(Case(sid, "request", "principal_not_in_applies_to", ("action",),
                                  request=dict(q, action=a2, context=[]), scope_fault=True))
                break
    return cases


def multi_fault_cases(sid, dg, n):
    """the malformed stream: several faults at once, random kinds; accept/reject only"""
    r = dg.r
    rs = dg.rs
    cases = []
    for _ in range(n):
        if r.random() < 0.6 or not rs["actions"]:
            ty = r.choice(dg.etypes)
            i = rs["etypes"][ty]
            e = dg.entity(ty)
            for _ in range(r.randint(1, 3)):
                c = r.random()
                if c < 0.5:
                    sites = record_sites(dg, e["attrs"], i["attrs"], i["open"])
                    if sites:
                        e = dict(e, attrs=r.choice(sites)[2])
                elif c < 0.7:
                    e = dict(e, tags=sorted(dict(e["tags"] + [("tz", dg.value(dg.any_type(1)))]).items()))
                elif c < 0.9:
                    e = dict(e, parents=e["parents"] + [dg.uid_of(r.choice(dg.etypes), "mf")])
                else:
                    e = dict(e, attrs=sorted(dict(e["attrs"] + [(r.choice(S.ATTR_POOL), dg.value(dg.any_type(1)))]).items()))
            if e["uid"] in e["parents"] or entity_excluded(rs, e):
                continue
            cases.append(Case(sid, "entities", "multi", (), entities=[e]))
        else:
            q = dg.request()
            if q is None:
                continue
            ai = rs["actions"][q["action"]]
            for _ in range(r.randint(1, 3)):
                c = r.random()
                if c < 0.6:
                    sites = record_sites(dg, q["context"], ai["context"][1], ai["context"][2])
                    if sites:
                        q = dict(q, context=r.choice(sites)[2])
                elif c < 0.8:
                    q = dict(q, principal=dg.uid_of(r.choice(dg.etypes), "mf"))
                else:
                    q = dict(q, resource=dg.uid_of(r.choice(dg.etypes), "mf"))
            if excluded(("record", q["context"]), ai["context"]):
                continue
            cases.append(Case(sid, "request", "multi", (), request=q, scope_fault=True))
    return cases


# ====================================================================== commands
def rust_cmds(case, js):
    """[(entry point label, rust command)]"""
    out = []
    if case.kind == "entities":
        ej = [entity_json(e) for e in case.entities]
        bj = [entity_json(e) for e in case.base]
        out.append(("entities_from_entities", {"cmd": "conform", "schema": js, "ep": "entities_from_entities", "entities": ej}))
        out.append(("entities_from_json", {"cmd": "conform", "schema": js, "ep": "entities_from_json", "entities": ej}))
        out.append(("entities_from_json/str", {"cmd": "conform", "schema": js, "ep": "entities_from_json", "via": "str", "entities": ej}))
        out.append(("entities_add", {"cmd": "conform", "schema": js, "ep": "entities_add", "base": bj, "entities": ej}))
        out.append(("entities_upsert", {"cmd": "conform", "schema": js, "ep": "entities_upsert", "base": bj, "entities": ej}))
        out.append(("entities_add_from_json", {"cmd": "conform", "schema": js, "ep": "entities_add_from_json", "base": bj, "entities": ej}))
        out.append(("entity_from_json", {"cmd": "conform", "schema": js, "ep": "entity_from_json", "entity": ej[case.focus]}))
        out.append(("entity_from_json/str", {"cmd": "conform", "schema": js, "ep": "entity_from_json", "via": "str", "entity": ej[case.focus]}))
    else:
        q = case.request
        qj = cedar.request_json(q)
        out.append(("request_new", {"cmd": "conform", "schema": js, "ep": "request_new", "request": qj}))
        out.append(("context_validate", {"cmd": "conform", "schema": js, "ep": "context_validate",
                                         "action": qj["action"], "context": qj["context"]}))
        out.append(("context_from_json", {"cmd": "conform", "schema": js, "ep": "context_from_json",
                                          "action": qj["action"], "context": qj["context"]}))
        out.append(("context_from_json/str", {"cmd": "conform", "schema": js, "ep": "context_from_json", "via": "str",
                                              "action": qj["action"], "context": qj["context"]}))
    return out


def model_cmds(case, ssx):
    """[(entry point, model command)] — one per distinct model entry point"""
    out = []
    if case.kind == "entities":
        esx = [entity_sx(e) for e in case.entities]
        for ep in ("entities_from_entities", "entities_from_json", "entities_add", "entities_upsert", "entities_add_from_json"):
            out.append((ep, [Sym("conform"), Sym(ep), ssx, esx]))
        out.append(("entity_from_json", [Sym("conform"), Sym("entity_from_json"), ssx, esx[case.focus]]))
    else:
        q = case.request
        out.append(("request_new", [Sym("conform"), Sym("request_new"), ssx, cedar.request_sx(q)]))
        for ep in ("context_validate", "context_from_json"):
            out.append((ep, [Sym("conform"), Sym(ep), ssx, cedar.uid_sx(q["action"]), cedar.attrs_sx(q["context"])]))
    return out


def canon_model(s):
    if isinstance(s, list) and s and s[0] == "accept":
        return ("accept", None)
    if isinstance(s, list) and s and s[0] == "reject":
        return ("reject", str(s[1]))
    return ("model:" + (str(s) if isinstance(s, str) else repr(s)), None)


def canon_rust(j):
    if "accept" in j:
        return ("accept", None)
    if "reject" in j:
        return ("reject", j["reject"])
    return ("harness:" + json.dumps(j)[:300], None)


# kinds: object-level entry points must report the model's class exactly; the JSON entry points may
# report the class of the type-directed parse instead
JSON_PARSE_KINDS = {"Json:Serde", "Json:ExpectedLiteralEntityRef", "Json:ExpectedExtnValue", "Json:TypeMismatch",
                    "Json:MissingRequiredRecordAttr", "Json:UnexpectedRecordAttr", "Json:EntityAttributeEvaluation",
                    "Json:ContextDeserialization", "Json:OtherContext", "Json:MissingImpliedConstructor",
                    "Json:ActionParentIsNotAction", "TypeMismatch"}


def kinds_agree(ep, mk, rk):
    if mk == rk:
        return True
    if mk == "JsonParse":
        return rk in JSON_PARSE_KINDS
    return False


def describe(case, js):
    d = {"schema_id": case.sid, "fault": case.fault, "path": list(map(str, case.path)), "schema": js}
    if case.kind == "entities":
        d["entities"] = [entity_json(e) for e in case.entities]
        d["base"] = [entity_json(e) for e in case.base]
        d["focus"] = case.focus
    else:
        d["request"] = cedar.request_json(case.request)
    return d


def run_schema_batch(rep, harness, driver, schemas, stats, distinct, samples):
    """schemas: [(sid, SchemaGen, [Case])]"""
    rcmds, rmeta, mcmds, mmeta = [], [], [], []
    dump_cmds = []
    for sid, sg, cases in schemas:
        dump_cmds.append({"cmd": "schema_dump", "schema": sg.js})
    dumps = fw.run_rust(harness, dump_cmds)
    ok_schema = {}
    for (sid, sg, cases), d in zip(schemas, dumps):
        if "entity_types" not in d:
            stats["schema_rejected"] += 1
            ok_schema[sid] = False
            rep.violation({"property": PROP, "kind": "generated schema rejected by the implementation (generator bug)",
                           "schema": sg.js, "rust": d}, no_failing_input=True)
            continue
        ok_schema[sid] = True
        diff = S.diff_canon(S.canon_resolved(sg.rs), S.canon_dump(d))
        stats["schemas"] += 1
        if diff:
            stats["schema_mismatch"] += 1
            rep.violation({"property": PROP, "kind": "resolved schema differs from Rust's ValidatorSchema",
                           "detail": "python resolver (vp/schema.py resolve) vs harness schema_dump: " + diff,
                           "schema": sg.js, "lost": "the model would be run on a different schema than the implementation; "
                           "all c11_* transfers for this schema"}, no_failing_input=True)
            ok_schema[sid] = False
    live = [(sid, sg) for sid, sg, _ in schemas if ok_schema[sid]]
    wf = fw.run_model(driver, [[Sym("conform"), Sym("schema_wf"), S.schema_sx(sg.rs)] for _, sg in live])
    for (sid, sg), w in zip(live, wf):
        if str(w) != "true":
            stats["schema_not_wf"] += 1
            ok_schema[sid] = False
            rep.violation({"property": PROP, "kind": "generated schema does not satisfy Conform.schema_wf (hypothesis of c11_entity)",
                           "model": repr(w), "schema": sg.js}, no_failing_input=True)
    for sid, sg, cases in schemas:
        if not ok_schema[sid]:
            continue
        ssx = S.schema_sx(sg.rs)
        for ci, c in enumerate(cases):
            for ep, cmd in rust_cmds(c, sg.js):
                rcmds.append(cmd)
                rmeta.append((sid, ci, ep))
            for ep, cmd in model_cmds(c, ssx):
                mcmds.append(cmd)
                mmeta.append((sid, ci, ep))
    rres = fw.run_rust(harness, rcmds)
    mres = fw.run_model(driver, mcmds)
    by_schema = {sid: (sg, cases) for sid, sg, cases in schemas}
    model = {}
    for (sid, ci, ep), m in zip(mmeta, mres):
        model[(sid, ci, ep)] = canon_model(m)
    rust = {}
    for (sid, ci, ep), rr in zip(rmeta, rres):
        rust.setdefault((sid, ci), []).append((ep, canon_rust(rr), rr))
    for (sid, ci), lst in rust.items():
        sg, cases = by_schema[sid]
        c = cases[ci]
        stats["cases"] += 1
        stats["fault_classes"][str(c.fault)] = stats["fault_classes"].get(str(c.fault), 0) + 1
        depth = len(c.path)
        stats["fault_depth"][depth] = stats["fault_depth"].get(depth, 0) + 1
        h = fw.case_hash(describe(c, None))
        if c.fault is not None:
            distinct.add(h)
        if len(samples) < 3 and c.fault not in (None, "multi") and depth >= 3:
            samples.append(describe(c, sg.js))
        oracle_bad = []
        fd = False
        verdicts = {}
        for ep, (verdict, kind), raw in lst:
            stats["evaluations"] += 1
            base_ep = ep.split("/")[0]
            stats["by_ep"].setdefault(base_ep, {"accept": 0, "reject": 0})
            if verdict in ("accept", "reject"):
                stats["by_ep"][base_ep][verdict] += 1
            if kind:
                stats["reject_kinds"][kind] = stats["reject_kinds"].get(kind, 0) + 1
            if verdict.startswith("harness:"):
                rep.violation({"property": PROP, "kind": "harness could not run the case (generator/harness bug)",
                               "ep": ep, "case": describe(c, sg.js), "rust": raw}, no_failing_input=True)
                continue
            verdicts[ep] = verdict
            # ---- correspondence with the model
            mv, mk = model[(sid, ci, base_ep)]
            if mv.startswith("model:"):
                stats["unmodelled"] += 1
                rep.violation({"property": PROP, "kind": "model gave no verdict (generator produced an excluded input)",
                               "ep": ep, "model": mv, "case": describe(c, sg.js)}, no_failing_input=True)
                continue
            if mv != verdict:
                stats["mismatch"] += 1
                rep.violation({"property": PROP, "kind": "entry point verdict differs from the model",
                               "rust_entry_point": ep, "model_function": "Conform.ep_" + base_ep,
                               "rust": raw, "model": [mv, mk], "case": describe(c, sg.js),
                               "theorem_transfer_lost": "c11_entity / c11_request / c11_entry_* for this entry point"},
                              no_failing_input=True)
            elif verdict == "reject" and c.fault != "multi" and not kinds_agree(base_ep, mk, kind):
                stats["kind_mismatch"] += 1
                rep.violation({"property": PROP, "kind": "rejection class differs from the model",
                               "rust_entry_point": ep, "rust": raw, "model": [mv, mk], "case": describe(c, sg.js),
                               "theorem_transfer_lost": "error-class part of the correspondence only"},
                              no_failing_input=True)
            # the follow-up Context::validate on a context accepted by Context::from_json
            if base_ep == "context_from_json" and verdict == "accept":
                tv = canon_rust(raw["then_validate"])
                mvv = model[(sid, ci, "context_validate")]
                if tv[0] != mvv[0]:
                    stats["mismatch"] += 1
                    rep.violation({"property": PROP, "kind": "Context::validate after Context::from_json differs from the model",
                                   "rust": raw, "model": list(mvv), "case": describe(c, sg.js)}, no_failing_input=True)
                if tv[0] == "reject":
                    fd = True
        # ---- oracle on the implementation itself
        if c.tc_closed and c.fault != "multi":
            want = "accept" if c.fault is None else "reject"
            for ep, v in verdicts.items():
                base_ep = ep.split("/")[0]
                if c.kind == "request" and c.scope_fault and base_ep != "request_new":
                    continue     # principal/resource faults are invisible to the context-only entry points
                if v != want:
                    oracle_bad.append((ep, v, want))
        elif c.fault == "multi":
            # agreement only: every entry point that sees the whole datum gives the same verdict
            vs = {ep: v for ep, v in verdicts.items()
                  if not (c.kind == "request" and ep.split("/")[0] != "request_new")}
            if len(set(vs.values())) > 1:
                oracle_bad.append(("disagreement", sorted(vs.items()), None))
        if oracle_bad:
            only_cfj = all(w == "reject" and ep.split("/")[0] == "context_from_json" and v == "accept"
                           for ep, v, w in oracle_bad)
            payload = {"property": PROP,
                       "kind": ("a schema-taking entry point accepts a datum that violates the schema"
                                if any(w == "reject" for _, _, w in oracle_bad) else
                                "entry points disagree / a conformant datum is rejected"),
                       "entry_points": [list(map(str, x)) for x in oracle_bad],
                       "all_verdicts": verdicts, "case": describe(c, sg.js),
                       "replay": "./check C11 --replay <this file>"}
            key = None
            if only_cfj:
                # F-d is "the schema is used for the type-directed parse only, the type check / uid validation
                # is skipped".  A hit is attributed to it (and only then carries the known key) when ALL hold:
                #  * the fault is one the parse cannot see (a value of the wrong type / an undeclared enum id);
                #    missing or undeclared attributes ARE rejected by the parse and never count as F-d;
                #  * Context::validate on the very Context that from_json returned, Context::validate on the
                #    same datum, and Request::new all REJECT it;
                #  * the model of the entry point (Conform.ep_context_from_json = parse only) predicts Accept.
                explained = (c.fault in FD_FAULTS
                             and all(canon_rust(raw.get("then_validate", {}))[0] == "reject"
                                     for ep, _, raw in lst if ep.split("/")[0] == "context_from_json")
                             and verdicts.get("context_validate") == "reject"
                             and verdicts.get("request_new") == "reject"
                             and model[(sid, ci, "context_from_json")][0] == "accept"
                             and model[(sid, ci, "context_validate")][0] == "reject")
                if explained:
                    key = KEY_FD
                    payload["finding"] = ("Context::from_json_{str,value}(json, Some((schema, action))) accepts a context that "
                                          "Context::validate / Request::new reject (ContextJsonParser only runs the type-directed "
                                          "parse, never the typecheck nor validate_euids)")
                else:
                    key = "C11:context_from_json:accepts:%s" % c.fault     # NOT the known finding
            if key == KEY_FD:
                stats["fd_hits"] += 1
                stats["fd_by_fault"][c.fault] = stats["fd_by_fault"].get(c.fault, 0) + 1
                if stats["fd_hits"] <= 3 or rep.match_known(KEY_FD) is not None:
                    rep.violation(payload, key=KEY_FD)      # (when not known: 3 replays of the call site are enough)
            else:
                stats["oracle_failures"] += 1
                rep.violation(payload, key=key)
        elif fd:
            stats["fd_hits"] += 1


# a small hand-written schema run first: its cases are the minimal replays of anything found
HAND_SCHEMA = {"NS": {
    "commonTypes": {"Addr": {"type": "Record", "attributes": {"street": {"type": "String"}, "zip": {"type": "Long", "required": False}}}},
    "entityTypes": {
        "User": {"memberOfTypes": ["Group"],
                 "shape": {"type": "Record", "attributes": {
                     "n": {"type": "Long"}, "c": {"type": "Entity", "name": "Color", "required": False},
                     "addr": {"type": "Addr", "required": False},
                     "friends": {"type": "Set", "element": {"type": "Entity", "name": "User"}, "required": False},
                     "colors": {"type": "Set", "element": {"type": "Record", "attributes": {"c": {"type": "Entity", "name": "Color"}}}, "required": False},
                     "grid": {"type": "Set", "element": {"type": "Set", "element": {"type": "Entity", "name": "Color"}}, "required": False},
                     "frame": {"type": "Record", "attributes": {"inner": {"type": "Record", "attributes": {"c": {"type": "Entity", "name": "Color"}}}}, "required": False},
                     "ip": {"type": "Extension", "name": "ipaddr", "required": False}}},
                 "tags": {"type": "Set", "element": {"type": "String"}}},
        "Group": {"memberOfTypes": ["Org", "Color"]},
        "Org": {},
        "Color": {"enum": ["red", "green"]},
        "Open": {"shape": {"type": "Record", "attributes": {"n": {"type": "Long", "required": False}}, "additionalAttributes": True}}},
    "actions": {
        "all": {},
        "read": {"memberOf": [{"id": "all"}]},
        "view": {"memberOf": [{"id": "read"}],
                 "appliesTo": {"principalTypes": ["User", "Color"], "resourceTypes": ["Group"],
                               "context": {"type": "Record", "attributes": {
                                   "n": {"type": "Long"}, "c": {"type": "Entity", "name": "Color", "required": False},
                                   "s": {"type": "Set", "element": {"type": "Long"}, "required": False},
                                   "d": {"type": "Extension", "name": "decimal", "required": False},
                                   "r": {"type": "Record", "attributes": {"u": {"type": "Entity", "name": "User"}}, "required": False}}}}}}}}


def hand_cases(sid, dg):
    """explicit minimal data on HAND_SCHEMA (context faults one attribute at a time)"""
    a = U(("NS", "Action"), "view")
    base = {"principal": U(("NS", "User"), "alice"), "action": a, "resource": U(("NS", "Group"), "g"),
            "context": [("n", ("prim", ("long", 1)))]}
    out = [Case(sid, "request", None, (), request=base)]
    L, St, E = (lambda z: ("prim", ("long", z))), (lambda x: ("prim", ("string", x))), (lambda t, i: ("prim", ("entity", U(("NS", t), i))))
    faults = [("wrong_type", [("n", St("x"))]),
              ("wrong_type", [("n", ("record", []))]),
              ("wrong_type", [("n", L(1)), ("s", ("set", [L(1), St("a")]))]),
              ("wrong_type", [("c", E("User", "red")), ("n", L(1))]),
              ("enum_id", [("c", E("Color", "blue")), ("n", L(1))]),
              ("wrong_type", [("d", ("ext", ("ip", False, 0x01020304, 32))), ("n", L(1))]),
              ("wrong_type", [("n", L(1)), ("r", ("record", [("u", E("Group", "g"))]))]),
              ("missing_required", []),
              ("extra_attr", [("n", L(1)), ("zz", L(2))]),
              ("missing_required", [("n", L(1)), ("r", ("record", []))])]
    for cls, ctx in faults:
        out.append(Case(sid, "request", cls, ("context",), request=dict(base, context=ctx)))
    return out


def gen_schema_cases(rng, sid, tier):
    if sid == 0:
        sg = S.FixedSchema(HAND_SCHEMA)
        dg = DataGen(sg.rs, rng)
        return sg, hand_cases(sid, dg) + entity_cases(sid, dg) + request_cases(sid, dg) + multi_fault_cases(sid, dg, 12)
    for _ in range(50):
        try:
            sg = S.SchemaGen(rng, depth=2)
            break
        except S.SchemaError:
            continue
    dg = DataGen(sg.rs, rng)
    cases = entity_cases(sid, dg) + request_cases(sid, dg) + multi_fault_cases(sid, dg, 12 if tier == "quick" else 40)
    return sg, cases


def run(rep, tier, seed):
    ob, dis, details, failures = fw.check_props(PROP_FILE, THEOREMS) if THEOREMS else (0, 0, {}, [])
    harness = fw.build_harness()
    driver = fw.build_model_driver()
    rng = random.Random(seed)
    nschemas = 14 if tier == "quick" else 400
    stats = {"schemas": 0, "schema_rejected": 0, "schema_mismatch": 0, "cases": 0, "evaluations": 0, "mismatch": 0,
             "kind_mismatch": 0, "unmodelled": 0, "oracle_failures": 0, "fd_hits": 0, "fd_by_fault": {}, "schema_not_wf": 0, "fault_classes": {},
             "fault_depth": {}, "by_ep": {}, "reject_kinds": {}}
    distinct, samples = set(), []
    first_model = None
    batch = []
    for sid in range(nschemas):
        sg, cases = gen_schema_cases(rng, sid, tier)
        batch.append((sid, sg, cases))
        if first_model is None:
            ssx = S.schema_sx(sg.rs)
            first_model = [cmd for c in cases[:30] for _, cmd in model_cmds(c, ssx)][:40]
        if len(batch) == 7 or sid == nschemas - 1:
            run_schema_batch(rep, harness, driver, batch, stats, distinct, samples)
            batch = []
    nx = fw.coq_crosscheck(first_model, fw.run_model(driver, first_model), PROP)
    for f in failures:
        rep.violation({"property": PROP, "kind": "proof obligation no longer checks", "detail": f}, no_failing_input=True)
    rep.coverage = {
        "obligations": ob, "discharged": dis,
        "checker_cmd": "make -C coq props/%s.vo (coqc 8.16.1) + Print Assumptions" % PROP_FILE,
        "trusted_base": fw.TRUSTED_BASE + ["vp/schema.py resolve (Cedar JSON schema -> resolved schema), cross-checked "
                                           "against the harness command schema_dump (Rust's ValidatorSchema) for every generated schema"],
        "theorems": details,
        "evaluations": stats["evaluations"], "distinct_nontrivial": len(distinct),
        "rule": "%d random schemas (1-2 namespaces, 4-8 entity types incl. enumerated / open / tagged types, common types, "
                "action groups); per schema: one conformant entity per entity type + every single-fault mutant of it at every "
                "nesting position (2 wrong kinds per node), action entities and their mutants, 2 conformant requests + every "
                "single-fault mutant, and a multi-fault stream; each datum through 8 entity / 4 request entry-point variants; "
                "distinct by hash of the datum; non-trivial = carries at least one fault" % stats["schemas"],
        "traces_validated_against_impl": stats["evaluations"], "vm_compute_crosscheck_cases": nx,
        "schemas": stats["schemas"], "schema_resolution_mismatches": stats["schema_mismatch"],
        "cases": stats["cases"], "fault_class_histogram": stats["fault_classes"],
        "fault_depth_histogram": {str(k): v for k, v in sorted(stats["fault_depth"].items())},
        "verdicts_by_entry_point": stats["by_ep"], "reject_kind_histogram": stats["reject_kinds"],
        "model_mismatches": stats["mismatch"], "kind_mismatches": stats["kind_mismatch"],
        "oracle_failures_other_than_Fd": stats["oracle_failures"],
        "context_from_json_accepts_nonconformant (finding F-d)": stats["fd_hits"],
        "finding_F-d_by_fault_class": stats["fd_by_fault"],
        "schemas_failing_schema_wf": stats["schema_not_wf"],
        "samples": samples[:3],
    }
    rep.assumptions = [
        "concrete values only (no `unknown`s); extension values are results of constructor calls",
        "JSON documents use explicit __entity/__extn escapes; the implicit escapes of schema-based parsing (string under "
        "an extension type, {type,id} record under an entity type) and reserved record keys are not generated (the model "
        "answers `unmodelled` on them)",
        "entity sets have distinct uids and acyclic parents (Duplicate / TransitiveClosure errors are other properties)",
        "entry-point agreement is required on TC-closed data; action entities written with direct parents only are "
        "accepted by from_entities/from_json (validated after TC) and rejected by add/upsert/Entity::from_json "
        "(validated before TC): compared with the model only (see notes/C11.md)",
        "nested open records (additionalAttributes inside attribute types) are not generated; open entity shapes are",
        "error messages are not compared, only accept/reject and the error class",
    ]


def replay(rep, path):
    payload = json.load(open(path))
    case = payload.get("case")
    if not case:
        print(json.dumps(payload, indent=1)[:6000])
        return
    harness = fw.build_harness()
    js = case["schema"]
    cmds = []
    if "entities" in case:
        ej, bj = case["entities"], case.get("base", [])
        for ep in ("entities_from_entities", "entities_from_json", "entities_add", "entities_upsert", "entities_add_from_json"):
            cmds.append({"cmd": "conform", "schema": js, "ep": ep, "base": bj, "entities": ej})
        cmds.append({"cmd": "conform", "schema": js, "ep": "entity_from_json", "entity": ej[case.get("focus", 0)]})
    else:
        q = case["request"]
        cmds.append({"cmd": "conform", "schema": js, "ep": "request_new", "request": q})
        for ep in ("context_validate", "context_from_json"):
            cmds.append({"cmd": "conform", "schema": js, "ep": ep, "action": q["action"], "context": q["context"]})
    res = fw.run_rust(harness, cmds)
    print("fault:", case.get("fault"), "path:", case.get("path"))
    print(json.dumps({k: case[k] for k in case if k != "schema"}, indent=1)[:3000])
    for c, r in zip(cmds, res):
        print("%-26s %s" % (c["ep"], json.dumps(r)[:400]))
    vs = set("accept" if "accept" in r else "reject" for r in res)
    if len(vs) > 1:
        rep.violation(payload, key=KEY_FD if all(c["ep"] == "context_from_json" for c, r in zip(cmds, res) if "accept" in r) else None)
