"""C10 — entity / context JSON round trip; schema-directed parsing agrees with the explicit escapes.

   Proof: props/C10_EntJson.v on coq/model/EntJson.v (JSON trees: coq/model/JsonTree.v).
   Correspondence: model JSON tree vs Rust to_json_value; model parse (escape-directed and type-directed)
   vs Rust parse on implicit/explicit variants and on mutated JSON (harness/src/cmd_entjson.rs).
   Oracle on the implementation:
     (1) store / entity / context built through the public constructors -> JSON -> back, without AND with the
         schema, is deep-equal (uids, attribute and tag values, full ancestor sets); schema loading adds exactly
         the schema's action entities;
     (2) for schema-conformant data every per-node choice of implicit / explicit form, parsed with the schema,
         yields the same data as the fully explicit form parsed without a schema;
     (3) records with reserved keys are refused at serialisation; records with other odd keys round-trip;
     (4) the value path (from_json_value) and the text path (from_json_str) agree on every document.

   Values on the Python side are the harness's V encoding (JSON-able):
     {"b":bool} {"l":"<int>"} {"s":str} {"e":{"type","id"}} {"set":[V]} {"rec":[[k,V]]} {"x":[fn,arg]}"""
import copy
import json
import random

import cedar
import framework as fw
import schema as S
from props.c11 import DataGen
from sx import Sym, Str

PROP = "C10"
PROP_FILE = "C10_EntJson"
THEOREMS = ["c10_value_rt", "c10_reserved", "c10_context_rt", "c10_context_reserved", "c10_entity_rt",
            "c10_implicit_explicit", "c10_store_rt", "c10_store_schema_actions"]
LEVEL = "proof" if THEOREMS else "exploration"

MANIFEST = {
    "text": "Gallina transcription of the entity/context JSON layer (CedarValueJson::from_expr/from_value with the "
            "reserved-key refusal, the untagged deserialisation of CedarValueJson / EntityUidJson / ExtnValueJson, "
            "ValueParser::val_into_restricted_expr with its type-directed cases and fall-backs, EntityJson / "
            "parse_ejson, the store constructor with TC and schema actions) on JSON trees; theorems: value, context and "
            "entity round trip, refusal iff a reserved key occurs, every per-node implicit/explicit variant (any depth "
            "inside sets and closed records) parses like the explicit form; tied to /repo by differential execution (serialised tree, parse result on implicit/explicit variants "
            "and mutated documents) and an implementation-level round-trip / variant-agreement oracle.",
    "technique": "proof (Coq, structural induction on values and types) + correspondence by differential execution + "
                 "round-trip / metamorphic oracle on the implementation",
    "note": "Finding C10:context_top_level_reserved_key (Context::to_json_value did not refuse a reserved top-level key) "
            "was fixed in /repo by 4b26962; the probes stay in the check and are reported under that key if the fix is reverted.",
}

KEY_CTX = "C10:context_top_level_reserved_key"
RESERVED = ["__entity", "__extn", "__expr"]
ODD_KEYS = ["type", "id", "fn", "arg", "args", "", 'a"b', "__entity ", "_entity", "__Entity", "é", "\U0001F600",
            "uid", "attrs", "parents", "k", "a b", "\\", "\u0000", "__extn2"]
LONGS = [0, 1, -1, 7, 42, cedar.I64_MAX, cedar.I64_MIN, cedar.I64_MAX - 1, cedar.I64_MIN + 1, 2 ** 31, 2 ** 53 + 1]
STRINGS = ["", "a", "x y", 'q"\\', "\U0001F600", "1.5", "héllo", "\u0000", "\n\t\r", "\\u0041", "__entity", "/",
           "\u007f\u0080", "퟿", "\U0010FFFF", "10.0.0.1"]
IDS = ["alice", "bob", "x y", 'q"', "\U0001F600z", "", "\\", "\n", "A::\"b\""]
TYPES = ["A", "B", "NS::C", "A::B::D", "Action", "NS::Action"]
EXT_POOL = {
    "decimal": ["1.5", "0.0", "-12.3450", "922337203685477.5807", "-922337203685477.5808", "00.10", "7.0001"],
    "ipaddr": ["10.0.0.1", "192.168.0.0/16", "::1", "ffff::/8", "1:2:3:4:5:6:7:8/128", "0.0.0.0/0"],
    "datetime": ["2024-01-01", "1970-01-01T00:00:00Z", "2024-02-29T12:34:56.789Z", "2024-01-01T00:00:00+0130",
                 "0000-01-01", "9999-12-31T23:59:59.999Z"],
    "duration": ["0ms", "1d2h3m4s5ms", "-5ms", "90061001ms", "-1d"],
}
EXT_FN = {"decimal": "decimal", "ipaddr": "ip", "datetime": "datetime", "duration": "duration"}
BAD_EXT = [("decimal", "1.23456"), ("ip", "300.1.1.1"), ("datetime", "2024-13-01"), ("duration", "5x"), ("decimal", "")]


# ====================================================================== values
def uidj(u):
    """cedar.U tuple -> {"type","id"}"""
    return {"type": S.join_name(u[1]), "id": u[2]}


def from_dg(v, rng):
    """DataGen value -> V (extension values re-drawn from EXT_POOL of the same type)"""
    k = v[0]
    if k == "prim":
        pk, pv = v[1]
        if pk == "bool":
            return {"b": pv}
        if pk == "long":
            return {"l": str(pv)}
        if pk == "string":
            return {"s": pv}
        return {"e": uidj(pv)}
    if k == "set":
        return {"set": [from_dg(x, rng) for x in v[1]]}
    if k == "record":
        return {"rec": [[kk, from_dg(x, rng)] for kk, x in v[1]]}
    x = v[1]
    tn = {"decimal": "decimal", "ip": "ipaddr", "datetime": "datetime", "duration": "duration"}[x[0]]
    return {"x": [EXT_FN[tn], rng.choice(EXT_POOL[tn])]}


def tag(v):
    return next(iter(v))


def explicit(v):
    """the JSON with explicit escapes (what to_json_value is documented to produce)"""
    k = tag(v)
    if k in ("b", "s"):
        return v[k]
    if k == "l":
        return int(v["l"])
    if k == "e":
        return {"__entity": dict(v["e"])}
    if k == "set":
        return [explicit(x) for x in v["set"]]
    if k == "rec":
        return {kk: explicit(x) for kk, x in v["rec"]}
    return {"__extn": {"fn": v["x"][0], "arg": v["x"][1]}}


def has_reserved(v):
    k = tag(v)
    if k == "set":
        return any(has_reserved(x) for x in v["set"])
    if k == "rec":
        return any(kk in RESERVED or has_reserved(x) for kk, x in v["rec"])
    return False


def variant(v, t, rng, mode):
    """JSON of v under expected type t with a per-node choice of implicit / explicit form.
       mode: 'implicit' | 'explicit' | 'random'"""
    k = tag(v)
    tk = t[0] if t is not None else None

    def pick(n):
        if mode == "implicit":
            return 0
        if mode == "explicit":
            return 1
        return rng.randrange(n)
    if tk == "entity" and k == "e":
        return [dict(v["e"]), {"__entity": dict(v["e"])}][pick(2)]
    if tk == "ext" and k == "x":
        fn, arg = v["x"]
        return [arg, {"__extn": {"fn": fn, "arg": arg}}, {"fn": fn, "arg": arg}][pick(3)]
    if tk == "set" and k == "set":
        return [variant(x, t[1], rng, mode) for x in v["set"]]
    if tk == "record" and k == "rec":
        decl = {a: ty for a, ty, _ in t[1]}
        return {kk: variant(x, decl.get(kk), rng, mode) for kk, x in v["rec"]}
    return explicit(v)


def canon(j):
    """canonical form of a dump (V and render::value encodings): sets sorted and duplicate free, records by key"""
    if isinstance(j, dict):
        if "set" in j and len(j) == 1:
            xs = {json.dumps(canon(x), sort_keys=True): canon(x) for x in j["set"]}
            return {"set": [xs[k] for k in sorted(xs)]}
        for rk in ("rec", "record"):
            if rk in j and len(j) == 1:
                return {rk: sorted(([k, canon(x)] for k, x in j[rk]), key=lambda kv: json.dumps(kv[0]))}
        return {k: canon(x) for k, x in j.items()}
    if isinstance(j, list):
        return [canon(x) for x in j]
    return j


def canon_entity(e):
    e = canon(e)
    if isinstance(e, dict) and isinstance(e.get("ancestors"), list):
        e["ancestors"] = sorted(e["ancestors"], key=lambda u: json.dumps(u, sort_keys=True))
    return e


def canon_store(st):
    return sorted((canon_entity(e) for e in st), key=lambda e: json.dumps(e["uid"], sort_keys=True))


def canon_json(j):
    """JSON documents up to array order and multiplicity (every array in entity/context JSON is a set)"""
    if isinstance(j, dict):
        return {k: canon_json(x) for k, x in j.items()}
    if isinstance(j, list):
        xs = {json.dumps(canon_json(x), sort_keys=True): canon_json(x) for x in j}
        return [xs[k] for k in sorted(xs)]
    return j


def strip_sem(j):
    if isinstance(j, dict):
        if "v" in j and "sem" in j and len(j) == 2:
            return j["v"]
        return {k: strip_sem(x) for k, x in j.items()}
    if isinstance(j, list):
        return [strip_sem(x) for x in j]
    return j


def ukey(u):
    return (u["type"], u["id"])


def closure(ents):
    parents = {ukey(e["uid"]): [ukey(p) for p in e["parents"]] for e in ents}
    out = {}
    for u in parents:
        seen, stack = [], list(parents[u])
        while stack:
            p = stack.pop()
            if p in seen:
                continue
            seen.append(p)
            stack.extend(parents.get(p, []))
        out[u] = sorted(seen)
    return out


def expected_store(ents):
    """what the store must contain, in the harness's dump shape without `sem`"""
    cl = closure(ents)
    out = []
    for e in ents:
        out.append({"uid": e["uid"],
                    "attrs": [[k, v] for k, v in sorted(e["attrs"], key=lambda kv: kv[0].encode("utf-8"))],
                    "tags": [[k, v] for k, v in sorted(e["tags"], key=lambda kv: kv[0].encode("utf-8"))],
                    "ancestors": [{"type": t, "id": i} for t, i in cl[ukey(e["uid"])]]})
    return canon_store(out)


def expected_entity_json(e, ancestors):
    j = {"uid": dict(e["uid"]), "attrs": {k: explicit(v) for k, v in e["attrs"]},
         "parents": [{"type": t, "id": i} for t, i in ancestors]}
    if e["tags"]:
        j["tags"] = {k: explicit(v) for k, v in e["tags"]}
    return j


def json_eq_mod_parents(a, b):
    """entity JSON equality up to the order of `parents`"""
    return canon_json(a) == canon_json(b)


# ====================================================================== free (schema-less) data
class FreeGen:
    def __init__(self, rng, reserved_p=0.0):
        self.r, self.reserved_p = rng, reserved_p

    def uid(self):
        return {"type": self.r.choice(TYPES), "id": self.r.choice(IDS)}

    def value(self, depth=2):
        r = self.r
        ks = ["b", "l", "l", "s", "s", "e", "x"] + (["set", "rec", "rec"] if depth > 0 else [])
        k = r.choice(ks)
        if k == "b":
            return {"b": r.random() < 0.5}
        if k == "l":
            return {"l": str(r.choice(LONGS) if r.random() < 0.7 else r.randint(cedar.I64_MIN, cedar.I64_MAX))}
        if k == "s":
            return {"s": r.choice(STRINGS)}
        if k == "e":
            return {"e": self.uid()}
        if k == "x":
            tn = r.choice(sorted(EXT_POOL))
            return {"x": [EXT_FN[tn], r.choice(EXT_POOL[tn])]}
        if k == "set":
            return {"set": [self.value(depth - 1) for _ in range(r.choice([0, 0, 1, 2, 3]))]}
        n = r.choice([0, 1, 1, 2, 3])
        keys = r.sample(ODD_KEYS, n)
        if keys and r.random() < self.reserved_p:
            keys[r.randrange(len(keys))] = r.choice(RESERVED)
        return {"rec": [[kk, self.shaped(kk, depth - 1)] for kk in keys]}

    def shaped(self, key, depth):
        """values that make a record look like an escape"""
        r = self.r
        if key in ("type", "id", "fn", "arg") and r.random() < 0.6:
            return {"s": r.choice(["A", "x", "decimal", "1.0", "ip"])}
        if key in RESERVED and r.random() < 0.7:
            return r.choice([{"rec": [["type", {"s": "A"}], ["id", {"s": "x"}]]},
                             {"rec": [["fn", {"s": "decimal"}], ["arg", {"s": "1.0"}]]}, {"s": "1 + 1"}, {"l": "1"}])
        return self.value(depth)

    def entities(self, n):
        r = self.r
        uids = []
        while len(uids) < n:
            u = self.uid()
            if u not in uids:
                uids.append(u)
        ents = []
        for i, u in enumerate(uids):
            attrs = [[k, self.value(2)] for k in r.sample(ODD_KEYS + RESERVED, r.choice([0, 1, 2, 3]))]
            tags = [[k, self.value(1)] for k in r.sample(ODD_KEYS + RESERVED, r.choice([0, 0, 1, 2]))]
            is_act = u["type"].endswith("Action")
            cands = [p for p in uids[i + 1:] if p["type"].endswith("Action") == is_act] + \
                    ([] if is_act else [{"type": "Z", "id": "absent"}])
            parents = r.sample(cands, min(len(cands), r.choice([0, 1, 1, 2])))
            ents.append({"uid": u, "attrs": attrs, "tags": tags, "parents": parents})
        return ents


# ====================================================================== schema-conformant data
HAND_SCHEMA = {"": {
    "entityTypes": {
        "T": {"memberOfTypes": ["G"],
              "shape": {"type": "Record", "attributes": {
                  "type": {"type": "String"}, "id": {"type": "Entity", "name": "T", "required": False},
                  "fn": {"type": "Extension", "name": "decimal", "required": False},
                  "arg": {"type": "Record", "attributes": {"type": {"type": "String"}, "id": {"type": "String"}}, "required": False},
                  "__entity": {"type": "Entity", "name": "G", "required": False},
                  "__extn": {"type": "Extension", "name": "ipaddr", "required": False},
                  "fa": {"type": "Record", "attributes": {"fn": {"type": "String"}, "arg": {"type": "String"}}, "required": False},
                  "uids": {"type": "Set", "element": {"type": "Set", "element": {"type": "Entity", "name": "G"}}, "required": False},
                  "exts": {"type": "Set", "element": {"type": "Record", "attributes": {
                      "d": {"type": "Extension", "name": "datetime"}, "u": {"type": "Extension", "name": "duration", "required": False}}},
                           "required": False}}},
              "tags": {"type": "Extension", "name": "datetime"}},
        "G": {"memberOfTypes": ["G"], "tags": {"type": "Entity", "name": "T"}}},
    "actions": {
        "all": {},
        "view": {"memberOf": [{"id": "all"}],
                 "appliesTo": {"principalTypes": ["T"], "resourceTypes": ["G"],
                               "context": {"type": "Record", "attributes": {
                                   "type": {"type": "String", "required": False}, "id": {"type": "Entity", "name": "T", "required": False},
                                   "fn": {"type": "Extension", "name": "duration", "required": False},
                                   "arg": {"type": "Set", "element": {"type": "Extension", "name": "decimal"}, "required": False},
                                   "r": {"type": "Record", "attributes": {"type": {"type": "Entity", "name": "G"},
                                                                            "id": {"type": "Extension", "name": "ipaddr"}}, "required": False}}}}}}}}


def conv_entity(e, rng):
    return {"uid": uidj(e["uid"]), "attrs": [[k, from_dg(v, rng)] for k, v in e["attrs"]],
            "tags": [[k, from_dg(v, rng)] for k, v in e["tags"]], "parents": [uidj(p) for p in e["parents"]]}


def schema_store(dg, rng):
    """a conformant store: 1-2 entities per standard type, sometimes enum entities and (closed) action entities"""
    ents, seen = [], set()
    for ty in dg.std_types:
        for n in range(rng.choice([1, 1, 2])):
            e = conv_entity(dg.entity(ty, eid="e%d%s" % (n, rng.choice(["", " x", '"', "\U0001F600"]))), rng)
            if ukey(e["uid"]) not in seen:
                seen.add(ukey(e["uid"]))
                ents.append(e)
    for ty in dg.etypes:
        if dg.rs["etypes"][ty]["enum"] is not None and rng.random() < 0.4:
            e = conv_entity(dg.entity(ty, parents=[]), rng)
            if ukey(e["uid"]) not in seen:
                seen.add(ukey(e["uid"]))
                ents.append(e)
    if rng.random() < 0.3:
        for u in sorted(dg.rs["actions"]):
            if rng.random() < 0.5:
                ents.append(conv_entity(dg.action_entity(u, closed=True), rng))
    # a parent chain inside the store where the schema allows it: make present entities parents of each other
    rng.shuffle(ents)
    return ents


def etype_info(rs, e):
    n = S.split_name(e["uid"]["type"])
    return rs["etypes"].get(n)


def entity_variant(rs, e, rng, mode):
    i = etype_info(rs, e)

    def u(x):
        if mode == "implicit" or (mode == "random" and rng.random() < 0.5):
            return dict(x)
        return {"__entity": dict(x)}
    j = {"uid": u(e["uid"]), "parents": [u(p) for p in e["parents"]]}
    if i is None:       # action entity: parsed without type information
        j["attrs"] = {k: explicit(v) for k, v in e["attrs"]}
        if e["tags"]:
            j["tags"] = {k: explicit(v) for k, v in e["tags"]}
        return j
    decl = {a: t for a, t, _ in i["attrs"]}
    j["attrs"] = {k: variant(v, decl.get(k), rng, mode) for k, v in e["attrs"]}
    if e["tags"] or rng.random() < 0.3:
        j["tags"] = {k: variant(v, i["tags"], rng, mode) for k, v in e["tags"]}
    return j


def entity_explicit(e):
    j = {"uid": {"__entity": dict(e["uid"])}, "attrs": {k: explicit(v) for k, v in e["attrs"]},
         "parents": [{"__entity": dict(p)} for p in e["parents"]], "tags": {k: explicit(v) for k, v in e["tags"]}}
    return j


# ====================================================================== malformed / near-miss documents
def paths(j, p=()):
    yield p
    if isinstance(j, dict):
        for k in j:
            yield from paths(j[k], p + (k,))
    elif isinstance(j, list):
        for i, x in enumerate(j):
            yield from paths(x, p + (i,))


def get_at(j, p):
    for k in p:
        j = j[k]
    return j


def set_at(j, p, x):
    if not p:
        return x
    j = copy.deepcopy(j)
    cur = j
    for k in p[:-1]:
        cur = cur[k]
    cur[p[-1]] = x
    return j


def mutate(doc, rng):
    """one structure-aware mutation of a JSON document; returns (name, document)"""
    ps = list(paths(doc))
    p = rng.choice(ps)
    node = get_at(doc, p)
    cands = [("null", None), ("float", 1.5), ("big", 2 ** 63), ("small", -2 ** 63 - 1), ("u64max", 2 ** 64 - 1),
             ("expr_escape", {"__expr": "1 + 1"}), ("expr_escape_nonstr", {"__expr": 1}),
             ("unknown_fn", {"__extn": {"fn": "nosuch", "arg": "x"}}),
             ("bad_fn_name", {"__extn": {"fn": "a b", "arg": "x"}}),
             ("multi_args_1", {"__extn": {"fn": "decimal", "args": ["1.0"]}}),
             ("multi_args_0", {"__extn": {"fn": "decimal", "args": []}}),
             ("multi_args_2", {"__extn": {"fn": "decimal", "args": ["1.0", "2.0"]}}),
             ("arg_and_args", {"__extn": {"fn": "decimal", "arg": "1.0", "args": []}}),
             ("extn_no_arg", {"__extn": {"fn": "ip"}}), ("extn_fn_only2", {"__extn": {"fn": "ip", "x": 1}}),
             ("extn_nonstr_fn", {"__extn": {"fn": 1, "arg": "1.0"}}),
             ("extn_arg_long", {"__extn": {"fn": "decimal", "arg": 1}}),
             ("extn_nested", {"__extn": {"fn": "decimal", "arg": {"__extn": {"fn": "decimal", "arg": "1.0"}}}}),
             ("extn_extra_outer", {"__extn": {"fn": "decimal", "arg": "1.0"}, "z": 1}),
             ("extn_extra_inner", {"__extn": {"fn": "decimal", "arg": "1.0", "z": 1}}),
             ("implicit_extn", {"fn": "decimal", "arg": "1.0"}),
             ("entity_one_key", {"__entity": {"type": "A"}}), ("entity_nonstr_id", {"__entity": {"type": "A", "id": 1}}),
             ("entity_extra_inner", {"__entity": {"type": "A", "id": "x", "z": 1}}),
             ("entity_extra_outer", {"__entity": {"type": "A", "id": "x"}, "z": 1}),
             ("entity_bad_type", {"__entity": {"type": "A::", "id": "x"}}),
             ("entity_bad_type2", {"__entity": {"type": "a b", "id": "x"}}),
             ("entity_reserved_type", {"__entity": {"type": "if", "id": "x"}}),
             ("entity_str", {"__entity": "A::\"x\""}), ("entity_array", {"__entity": ["A", "x"]}),
             ("implicit_entity", {"type": "A", "id": "x"}), ("implicit_entity_array", ["A", "x"]),
             ("str_array", ["1 + 1"]), ("empty_obj", {}), ("empty_arr", []), ("string", "s"), ("true", True),
             ("zero", 0), ("bad_ext_arg", None)]
    name, repl = rng.choice(cands)
    if name == "bad_ext_arg":
        fn, arg = rng.choice(BAD_EXT)
        repl = rng.choice([{"__extn": {"fn": fn, "arg": arg}}, arg])
    if isinstance(node, dict) and rng.random() < 0.35:
        c = rng.random()
        d = copy.deepcopy(node)
        if c < 0.3 and d:
            k = rng.choice(sorted(d))
            del d[k]
            return "drop_key:" + k, set_at(doc, p, d)
        if c < 0.6:
            k = rng.choice(RESERVED + ["type", "id", "fn", "arg", "args", "zz", "uid", "attrs", "parents", "tags"])
            d[k] = rng.choice(["x", 1, {"type": "A", "id": "x"}, {"fn": "ip", "arg": "::1"}, [], {}])
            return "add_key:" + k, set_at(doc, p, d)
        if d:
            k = rng.choice(sorted(d))
            k2 = rng.choice(RESERVED + ["type", "id", "fn", "arg", "args", "Type"])
            if k2 not in d:
                d[k2] = d.pop(k)
            return "rename_key:%s->%s" % (k, k2), set_at(doc, p, d)
    if isinstance(node, list) and rng.random() < 0.3:
        d = copy.deepcopy(node)
        d.append(copy.deepcopy(repl))
        return "append:" + name, set_at(doc, p, d)
    return name, set_at(doc, p, copy.deepcopy(repl))


# ====================================================================== cases and their oracles
def verdict(r):
    """canonical outcome of a parse command: ('ok', dump) | ('err', stage, class) | ('panic', msg)"""
    if r is None:
        return ("none",)
    if "panic" in r or "abort" in r or "harness_error" in r:
        return ("panic", json.dumps(r)[:300])
    if "error" in r:
        return ("err", r.get("stage"), r["error"])
    if "store" in r:
        return ("ok", canon_store(r["store"]))
    if "entity" in r:
        return ("ok", canon_entity(r["entity"]))
    if "context" in r:
        return ("ok", canon(r["context"]))
    return ("other", json.dumps(r)[:300])


def merge_actions(store, actions):
    have = {json.dumps(e["uid"], sort_keys=True) for e in store}
    return canon_store(list(store) + [a for a in canon_store(actions) if json.dumps(a["uid"], sort_keys=True) not in have])


def check_rt(case, res):
    """oracle (1) and (3) on an entjson_rt answer; returns a list of problem strings"""
    r = res[0]
    bad = []
    ents = case["entities"]
    if "build_error" in r or "panic" in r or "harness_error" in r or "abort" in r:
        return ["store could not be built / harness failure: %s" % json.dumps(r)[:300]]
    exp = expected_store(ents)
    orig = canon_store(r["original"])
    if strip_sem(orig) != exp:
        bad.append("store built through the constructors differs from the data given")
    reserved = any(has_reserved(v) for e in ents for _, v in e["attrs"] + e["tags"])
    if reserved:
        if "to_json_error" not in r:
            bad.append("a record with a reserved key was serialised instead of refused")
    else:
        if "json" not in r:
            return bad + ["serialisation failed on representable data: %s" % json.dumps(r.get("to_json_error"))[:200]]
        cl = closure(ents)
        byuid = {ukey(e["uid"]): e for e in ents}
        if len(r["json"]) != len(ents):
            bad.append("serialised store has a different number of entities")
        for ej in r["json"]:
            e = byuid.get(ukey(ej.get("uid", {"type": None, "id": None})))
            if e is None or not json_eq_mod_parents(ej, expected_entity_json(e, cl[ukey(e["uid"])])):
                bad.append("serialised entity differs from the documented explicit form: %s" % json.dumps(ej)[:200])
        for which in ("back_noschema", "back_text"):
            v = verdict(r.get(which))
            if v != ("ok", orig):
                bad.append("%s is not deep-equal to the original" % which)
        if r.get("deep_eq_noschema") is not True or r.get("deep_eq_text") is not True or r.get("text_equals_value") is not True:
            bad.append("deep_eq / text flags: %r %r %r" % (r.get("deep_eq_noschema"), r.get("deep_eq_text"), r.get("text_equals_value")))
        if case.get("conformant"):
            v = verdict(r.get("back_schema"))
            acts = r.get("schema_actions")
            if not isinstance(acts, list):
                bad.append("schema action entities unavailable")
            elif v != ("ok", merge_actions(orig, acts)):
                bad.append("parsing back WITH the schema is not the original plus the schema's action entities: %s" % (v[:1] + v[1:3] if v[0] != "ok" else "different store",))
    for s in r.get("singles", []):
        o = canon_entity(s["original"])
        e = byuid_get(ents, s["original"]["uid"])
        sres = e is not None and any(has_reserved(v) for _, v in e["attrs"] + e["tags"])
        if sres:
            if "to_json_error" not in s:
                bad.append("single entity with a reserved key was serialised")
            continue
        if "json" not in s:
            bad.append("single entity serialisation failed")
            continue
        if verdict(s.get("back_noschema")) != ("ok", o) or s.get("deep_eq_noschema") is not True:
            bad.append("single entity round trip (no schema) differs")
        if case.get("conformant") and verdict(s.get("back_schema")) != ("ok", o):
            bad.append("single entity round trip (schema) differs: %r" % (verdict(s.get("back_schema"))[:3] if verdict(s.get("back_schema"))[0] != "ok" else "different",))
    return bad


def byuid_get(ents, u):
    for e in ents:
        if ukey(e["uid"]) == ukey(u):
            return e
    return None


def check_ctx_rt(case, res):
    r = res[0]
    bad = []
    pairs = case["pairs"]
    if "build_error" in r or "panic" in r or "harness_error" in r or "abort" in r:
        return ["context could not be built: %s" % json.dumps(r)[:300]]
    exp = canon({"context": [[k, v] for k, v in sorted(pairs, key=lambda kv: kv[0].encode("utf-8"))]})
    orig = canon({"context": r["original"]["context"]})
    if strip_sem(orig) != exp:
        bad.append("context built through from_pairs differs from the data given")
    if any(has_reserved(v) for _, v in pairs):
        if "to_json_error" not in r:
            bad.append("a record with a reserved key was serialised instead of refused")
        return bad
    if any(k in RESERVED for k, _ in pairs):
        # a reserved TOP-LEVEL key must be refused like a nested one (/repo 4b26962; before that fix the three
        # one-entry probes serialised to JSON that does not parse back: finding C10:context_top_level_reserved_key)
        if "to_json_error" not in r:
            bad.append("a context with a reserved top-level key was serialised instead of refused")
            for which in ("back_noschema", "back_text"):
                v = verdict(r.get(which))
                if v != ("ok", orig["context"]):
                    bad.append("%s is not equal to the original context: %s" % (which, v[:3] if v[0] != "ok" else "different"))
        return bad
    if "json" not in r:
        return bad + ["context serialisation failed on representable data"]
    if canon_json(r["json"]) != canon_json({k: explicit(v) for k, v in pairs}):
        bad.append("serialised context differs from the documented explicit form")
    for which in ("back_noschema", "back_text") + (("back_schema",) if case.get("conformant") else ()):
        v = verdict(r.get(which))
        if v != ("ok", orig["context"]):
            bad.append("%s is not equal to the original context: %s" % (which, v[:3] if v[0] != "ok" else "different"))
    return bad


def check_variants(case, res):
    """oracle (2): res[0] = explicit form parsed without schema; res[1:] = variants parsed with the schema"""
    bad = []
    ref = verdict(res[0])
    if ref[0] != "ok":
        return ["fully explicit form does not parse without a schema: %r" % (ref[:3],)]
    want = ref[1]
    if case["kind"] == "variants_entities":
        if strip_sem(want) != expected_store(case["entities"]):
            bad.append("explicit form parsed to something else than the data")
        acts = case["schema_actions"]
        want = merge_actions(want, acts)
    elif case["kind"] == "variants_entity":
        pass
    for i, r in enumerate(res[1:]):
        v = verdict(r)
        if v != ("ok", want):
            bad.append("variant %d (%s) parsed with the schema differs from the explicit form parsed without: %s"
                       % (i, case["modes"][i], v[:3] if v[0] != "ok" else "different data"))
    return bad


def check_paths(case, res):
    """oracle (4): value path == text path (res pairs), no panic"""
    bad = []
    for i in range(0, len(res), 2):
        a, b = verdict(res[i]), verdict(res[i + 1])
        if a[0] == "panic" or b[0] == "panic":
            bad.append("panic: %r %r" % (a, b))
        elif a[0] == "err" and b[0] == "err":
            continue    # both reject; with several faulty attributes the first error depends on hash order
        elif a != b:
            bad.append("from_json_value and from_json_str disagree: %r vs %r" % (a[:3] if a[0] != "ok" else "ok", b[:3] if b[0] != "ok" else "ok"))
    return bad


CHECKS = {"rt": check_rt, "ctx_rt": check_ctx_rt, "variants_entities": check_variants, "variants_entity": check_variants,
          "variants_context": check_variants, "paths": check_paths}


def is_ctx_finding(case):
    """the shape of finding C10:context_top_level_reserved_key (fixed by /repo 4b26962): a context with a reserved
       TOP-LEVEL key and nothing reserved below"""
    return case["kind"] == "ctx_rt" and any(k in RESERVED for k, _ in case["pairs"]) \
        and not any(has_reserved(v) for _, v in case["pairs"])


# ====================================================================== the model side (coq/model/EntJsonRun.v)
def cp_key(s):
    return [ord(c) for c in s]


def has_float(j):
    if isinstance(j, float):
        return True
    if isinstance(j, dict):
        return any(has_float(x) for x in j.values())
    if isinstance(j, list):
        return any(has_float(x) for x in j)
    return False


def json_sx(j):
    if j is None:
        return Sym("null")
    if isinstance(j, bool):
        return [Sym("b"), Sym("true" if j else "false")]
    if isinstance(j, int):
        return [Sym("i"), j]
    if isinstance(j, str):
        return [Sym("s"), Str(j)]
    if isinstance(j, list):
        return [Sym("a"), [json_sx(x) for x in j]]
    return [Sym("o"), [[Str(k), json_sx(j[k])] for k in sorted(j, key=cp_key)]]


def sx_json(s):
    if s == "null":
        return None
    t = s[0]
    if t == "b":
        return s[1] == "true"
    if t == "i":
        return s[1]
    if t == "s":
        return Str(s[1]).text()
    if t == "a":
        return [sx_json(x) for x in s[1]]
    return {Str(k).text(): sx_json(x) for k, x in s[1]}


def rval_sx(v):
    k = tag(v)
    if k == "b":
        return [Sym("b"), Sym("true" if v["b"] else "false")]
    if k == "l":
        return [Sym("l"), int(v["l"])]
    if k == "s":
        return [Sym("s"), Str(v["s"])]
    if k == "e":
        return [Sym("e"), Str(v["e"]["type"]), Str(v["e"]["id"])]
    if k == "set":
        return [Sym("set"), [rval_sx(x) for x in v["set"]]]
    if k == "rec":
        return [Sym("rec"), [[Str(kk), rval_sx(x)] for kk, x in v["rec"]]]
    return [Sym("x"), Str(v["x"][0]), [[Sym("s"), Str(a)] for a in v["x"][1:]]]


def sx_rval(s):
    t = s[0]
    if t == "b":
        return {"b": s[1] == "true"}
    if t == "l":
        return {"l": str(s[1])}
    if t == "s":
        return {"s": Str(s[1]).text()}
    if t == "e":
        return {"e": {"type": Str(s[1]).text(), "id": Str(s[2]).text()}}
    if t == "set":
        return {"set": [sx_rval(x) for x in s[1]]}
    if t == "rec":
        return {"rec": [[Str(k).text(), sx_rval(x)] for k, x in s[1]]}
    args = []
    for a in s[2]:
        args.append(Str(a[1]).text() if a[0] == "s" else sx_rval(a))
    return {"x": [Str(s[1]).text()] + args}


def sty_sx(t):
    k = t[0]
    if k in ("bool", "long", "string"):
        return Sym(k)
    if k == "set":
        return [Sym("set"), sty_sx(t[1])]
    if k == "entity":
        return [Sym("entity"), Str(S.join_name(t[1]))]
    if k == "ext":
        return [Sym("ext"), Str(t[1])]
    if k == "record":
        attrs = sorted(t[1], key=lambda a: cp_key(a[0]))
        return [Sym("record"), [[Str(a), sty_sx(ty), Sym("true" if r else "false")] for a, ty, r in attrs],
                Sym("true" if t[2] else "false")]
    raise ValueError(t)


def ent_sx(e, anc):
    """entity dict + ancestor list [{"type","id"}] -> (ent TY ID attrs tags anc)"""
    return [Sym("ent"), Str(e["uid"]["type"]), Str(e["uid"]["id"]),
            [[Str(k), rval_sx(v)] for k, v in e["attrs"]], [[Str(k), rval_sx(v)] for k, v in e["tags"]],
            [[Str(u["type"]), Str(u["id"])] for u in anc]]


def sx_ent(s):
    """(ent ...) -> the harness's dump shape (without `sem`)"""
    anc = {(Str(t).text(), Str(i).text()) for t, i in s[5]}
    return {"uid": {"type": Str(s[1]).text(), "id": Str(s[2]).text()},
            "attrs": [[Str(k).text(), sx_rval(x)] for k, x in s[3]],
            "tags": [[Str(k).text(), sx_rval(x)] for k, x in s[4]],
            "ancestors": [{"type": t, "id": i} for t, i in sorted(anc)]}


def dump_ent_sx(d):
    """an entity of a harness dump -> (ent ...)"""
    d = strip_sem(d)
    return ent_sx({"uid": d["uid"], "attrs": d["attrs"], "tags": d["tags"]}, d["ancestors"])


def eschema_sx(rs):
    out = []
    for name in sorted(rs["etypes"]):
        i = rs["etypes"][name]
        attrs = sorted(i["attrs"], key=lambda a: cp_key(a[0]))
        out.append([Str(S.join_name(name)),
                    [[Str(a), sty_sx(t), Sym("true" if r else "false")] for a, t, r in attrs],
                    Sym("true" if i["open"] else "false"),
                    Sym("none") if i["tags"] is None else [Sym("some"), sty_sx(i["tags"])]])
    return [Sym("some"), out]


def model_cmds_of(case, schema_actions):
    """[(index of the Rust answer it is compared with, what, sexp command)]"""
    out = []
    kind = case["kind"]
    dockind = case["cmds"][0].get("kind")
    if kind == "ctx_rt":
        out.append((0, "to_json", [Sym("entjson"), Sym("ctx_to_json"), [[Str(k), rval_sx(v)] for k, v in case["pairs"]]]))
    elif kind == "rt":
        ents = case["entities"]
        cl = closure(ents)
        stored = [ent_sx(e, [{"type": t, "id": i} for t, i in cl[ukey(e["uid"])]]) for e in ents]
        out.append((0, "store_to_json", [Sym("entjson"), Sym("store_to_json"), stored]))
    elif kind in ("variants_context", "paths") and dockind == "context":
        for i, c in enumerate(case["cmds"]):
            if "json" not in c or has_float(c["json"]):
                continue
            if "schema" in c and case.get("ctx_type") is None:
                continue
            ty = [Sym("some"), sty_sx(case["ctx_type"])] if "schema" in c else Sym("none")
            out.append((i, "parse", [Sym("entjson"), Sym("ctx_parse"), ty, json_sx(c["json"])]))
    elif kind in ("variants_entities", "variants_entity", "paths") and dockind in ("entities", "entity") \
            and case.get("_eschema") is not None:
        acts = [dump_ent_sx(a) for a in schema_actions.get(case.get("sid"), [])]
        for i, c in enumerate(case["cmds"]):
            if "json" not in c or has_float(c["json"]):
                continue
            sch = case["_eschema"] if "schema" in c else Sym("none")
            if c["kind"] == "entities":
                out.append((i, "store_parse", [Sym("entjson"), Sym("store_parse"), sch, acts, json_sx(c["json"])]))
            else:
                out.append((i, "ent_parse", [Sym("entjson"), Sym("ent_parse"), sch, json_sx(c["json"])]))
    return out


def compare_entity_level(what, cmd, rust, model):
    """entity / store level: accept/reject and the value; WHICH error comes first depends on hash order"""
    if not isinstance(model, list):
        return "model could not decode the command: %r" % (model,)
    if what == "store_to_json":
        if model[0] == "ok":
            if "json" not in rust:
                return "model serialises the store, implementation refuses"
            return None if canon_json(sx_json(model[1])) == canon_json(rust["json"]) else "serialised stores differ"
        return None if "to_json_error" in rust else "model refuses (%s), implementation serialises" % model[1]
    v = verdict(rust)
    if model[0] == "ok":
        if what == "store_parse":
            m = canon_store([sx_ent(e) for e in model[1]])
            calls = [x for e in model[1] for _, x in list(e[3]) + list(e[4])]
        else:
            m = canon_entity(sx_ent(model[1]))
            calls = [x for _, x in list(model[1][3]) + list(model[1][4])]
        if v[0] == "ok":
            return None if strip_sem(v[1]) == m else "parsed %s differ" % ("stores" if what == "store_parse" else "entities")
        if v[0] == "err" and v[1] == "invalid" and "schema" in cmd:
            return None     # the conformance check that follows schema-based parsing (C11) is not part of this model
        if v[0] == "err" and v[2] == "EntityAttributeEvaluation" and not all_calls_pool_valid(calls):
            return None     # evaluation of a constructor call on a string outside the known-good pool (C07)
        return "model accepts, implementation rejects %r" % (v[:3],)
    if v[0] == "ok":
        return "model rejects (%s), implementation accepts" % model[1]
    return None


def bad_ext_in(j):
    t = json.dumps(j)
    return any(json.dumps(a) in t for _, a in BAD_EXT)


POOL_VALID = {(EXT_FN[t], a) for t, xs in EXT_POOL.items() for a in xs}


def all_calls_pool_valid(sxs):
    """every constructor call in the model's result applies a constructor to a known-good string"""
    for s in sxs:
        t = s[0]
        if t == "set":
            if not all_calls_pool_valid(s[1]):
                return False
        elif t == "rec":
            if not all_calls_pool_valid([x for _, x in s[1]]):
                return False
        elif t == "x":
            args = s[2]
            if len(args) != 1 or args[0][0] != "s" or (Str(s[1]).text(), Str(args[0][1]).text()) not in POOL_VALID:
                return False
    return True


def compare_model(what, cmd, rust, model):
    """None if the model's answer and the implementation's agree, else a description"""
    if model == "bad_input" or model == "unknown_command" or not isinstance(model, list):
        return "model could not decode the command: %r" % (model,)
    if what == "to_json":
        if model[0] == "ok":
            if "json" not in rust:
                return "model serialises, implementation refuses"
            return None if canon_json(sx_json(model[1])) == canon_json(rust["json"]) else "serialised trees differ"
        return None if "to_json_error" in rust else "model refuses (%s), implementation serialises" % model[1]
    v = verdict(rust)
    if model[0] == "ok":
        if v[0] == "ok":
            m = canon({"context": [[Str(k).text(), sx_rval(x)] for k, x in model[1]]})["context"]
            return None if strip_sem(v[1]) == m else "parsed values differ"
        if v[0] == "err" and v[2] == "Evaluation" and not all_calls_pool_valid([x for _, x in model[1]]):
            return None     # a constructor call whose string is not one of the known-good pool: evaluating the
                            # call is outside the model (C07); with pool strings only the implementation must accept
        return "model accepts, implementation rejects %r" % (v[:3],)
    if v[0] == "ok":
        return "model rejects (%s), implementation accepts" % model[1]
    if v[0] == "err" and v[2].replace("Conf:", "") == model[1]:
        return None
    return "error classes differ: model %s, implementation %r" % (model[1], v[:3])


# ====================================================================== generation
def gen_cases(rng, tier):
    cases = []
    quick = tier == "quick"
    # ---- free stream (no schema)
    for i in range(250 if quick else 6000):
        fg = FreeGen(rng, reserved_p=0.0 if i % 4 else 0.5)
        ents = fg.entities(rng.choice([1, 2, 3, 4]))
        cases.append({"kind": "rt", "stream": "free", "entities": ents,
                      "cmds": [{"cmd": "entjson_rt", "entities": ents}]})
    for i in range(250 if quick else 6000):
        fg = FreeGen(rng, reserved_p=0.0 if i % 4 else 0.5)
        keys = rng.sample(ODD_KEYS, rng.choice([0, 1, 2, 3]))
        pairs = [[k, fg.value(2)] for k in keys]
        cases.append({"kind": "ctx_rt", "stream": "free", "pairs": pairs,
                      "cmds": [{"cmd": "entjson_ctx_rt", "pairs": pairs}]})
    # the top-level reserved key of a context (finding C10:context_top_level_reserved_key) and its neighbours
    for k in RESERVED:
        for v in ({"rec": [["type", {"s": "A"}], ["id", {"s": "x"}]]}, {"rec": [["fn", {"s": "decimal"}], ["arg", {"s": "1.0"}]]},
                  {"s": "1 + 1"}, {"l": "1"}, {"rec": []}):
            for extra in ([], [["k", {"l": "1"}]]):
                pairs = [[k, v]] + extra
                cases.append({"kind": "ctx_rt", "stream": "ctx_reserved", "pairs": pairs,
                              "cmds": [{"cmd": "entjson_ctx_rt", "pairs": pairs}]})
    # ---- schema stream
    nschemas = 16 if quick else 300
    for sid in range(nschemas):
        if sid == 0:
            sg = S.FixedSchema(HAND_SCHEMA)
        else:
            sg = None
            for _ in range(50):
                try:
                    sg = S.SchemaGen(rng, depth=2)
                    break
                except S.SchemaError:
                    continue
            if sg is None:
                continue
        dg = DataGen(sg.rs, rng)
        js = sg.js
        acts = sorted(sg.rs["actions"])
        schema_actions = None   # filled from the first rt answer of this schema
        for n in range(3 if quick else 5):
            ents = schema_store(dg, rng)
            cases.append({"kind": "rt", "stream": "schema", "sid": sid, "entities": ents, "conformant": True, "schema": js,
                          "cmds": [{"cmd": "entjson_rt", "entities": ents, "schema": js}]})
            modes = ["implicit", "explicit"] + ["random"] * (4 if quick else 8)
            cmds = [{"cmd": "entjson_parse", "kind": "entities", "json": [entity_explicit(e) for e in ents]}]
            for m in modes:
                cmds.append({"cmd": "entjson_parse", "kind": "entities", "schema": js,
                             "json": [entity_variant(sg.rs, e, rng, m) for e in ents]})
            cases.append({"kind": "variants_entities", "stream": "schema", "sid": sid, "entities": ents, "schema": js,
                          "_eschema": eschema_sx(sg.rs),
                          "modes": modes, "cmds": cmds, "needs_actions": True})
            # single entities
            e = rng.choice(ents)
            if etype_info(sg.rs, e) is not None:
                modes1 = ["implicit", "explicit", "random", "random"]
                cmds = [{"cmd": "entjson_parse", "kind": "entity", "json": entity_explicit(e)}]
                for m in modes1:
                    cmds.append({"cmd": "entjson_parse", "kind": "entity", "schema": js, "json": entity_variant(sg.rs, e, rng, m)})
                cases.append({"kind": "variants_entity", "stream": "schema", "sid": sid, "entity": e, "schema": js,
                              "_eschema": eschema_sx(sg.rs),
                              "modes": modes1, "cmds": cmds})
        # contexts
        for a in acts:
            rc = sg.rs["actions"][a]["context"]
            for n in range(2 if quick else 4):
                pairs = [[k, from_dg(v, rng)] for k, v in dg.record_fields(rc[1])]
                au = uidj(a)
                cases.append({"kind": "ctx_rt", "stream": "schema", "sid": sid, "pairs": pairs, "conformant": True,
                              "schema": js, "action": au,
                              "cmds": [{"cmd": "entjson_ctx_rt", "pairs": pairs, "schema": js, "action": au}]})
                modes = ["implicit", "explicit", "random", "random", "random"]
                v = {"rec": pairs}
                cmds = [{"cmd": "entjson_parse", "kind": "context", "json": explicit(v)}]
                for m in modes:
                    cmds.append({"cmd": "entjson_parse", "kind": "context", "schema": js, "action": au,
                                 "json": variant(v, rc, rng, m)})
                cases.append({"kind": "variants_context", "stream": "schema", "sid": sid, "pairs": pairs, "schema": js,
                              "action": au, "modes": modes, "cmds": cmds, "ctx_type": rc})
    # ---- malformed stream: mutated documents, value path vs text path, without and with schema
    seeds = [c for c in cases if c["kind"] in ("variants_entities", "variants_entity", "variants_context")]
    nmut = 1500 if quick else 40000
    for i in range(nmut):
        c = rng.choice(seeds)
        base = rng.choice(c["cmds"])
        name, doc = mutate(base["json"], rng)
        if rng.random() < 0.25:
            name2, doc = mutate(doc, rng)
            name += "+" + name2
        cmds = []
        for with_schema in (False, True):
            cmd = {"cmd": "entjson_parse", "kind": base["kind"], "json": doc}
            if with_schema:
                cmd["schema"] = c["schema"]
                if "action" in c:
                    cmd["action"] = c["action"]
            cmds.append(cmd)
            t = dict(cmd)
            del t["json"]
            t["text"] = json.dumps(doc, ensure_ascii=rng.random() < 0.5)
            cmds.append(t)
        cases.append({"kind": "paths", "stream": "malformed", "mutation": name, "schema": c["schema"], "cmds": cmds,
                      "ctx_type": c.get("ctx_type"), "sid": c["sid"], "_eschema": c.get("_eschema")})
    # textual near-misses that a JSON tree cannot express
    texts = [('entities', '[{"uid":{"type":"A","id":"x"},"attrs":{"a":1,"a":2},"parents":[]}]'),
             ('entities', '[{"uid":{"type":"A","id":"x"},"attrs":{"a":{"k":1,"k":2}},"parents":[]}]'),
             ('entities', '[{"uid":{"type":"A","id":"x"},"attrs":{},"parents":[],"tags":{"t":1,"t":1}}]'),
             ('entities', '[{"uid":{"type":"A","id":"x"},"attrs":{"a":18446744073709551616},"parents":[]}]'),
             ('entities', '[{"uid":{"type":"A","id":"x"},"attrs":{"a":9223372036854775808},"parents":[]}]'),
             ('entities', '[{"uid":{"type":"A","id":"x"},"attrs":{"a":-9223372036854775809},"parents":[]}]'),
             ('entities', '[{"uid":{"type":"A","id":"x"},"attrs":{"a":1e3},"parents":[]}]'),
             ('entities', '[{"uid":{"type":"A","id":"x"},"attrs":{"a":1.0},"parents":[]}]'),
             ('entities', '[{"uid":{"type":"A","id":"x"},"attrs":{"a":"\\ud83d\\ude00"},"parents":[]}]'),
             ('entities', '[{"uid":{"type":"A","id":"x"},"attrs":{"a":"\\ud83d"},"parents":[]}]'),
             ('context', '{"a":1,"a":1}'), ('context', '{"a":{"__entity":{"type":"A","id":"x","id":"y"}}}'),
             ('context', '[]'), ('context', '1'), ('context', 'null'), ('context', '{"a":-0}'), ('context', '{"a":9223372036854775807}')]
    for kind, t in texts:
        try:
            doc = json.loads(t)
        except Exception:
            doc = None
        cases.append({"kind": "paths", "stream": "text", "mutation": "text", "schema": None, "sid": -1,
                      "cmds": [{"cmd": "entjson_parse", "kind": kind, "text": t}, {"cmd": "entjson_parse", "kind": kind, "text": t}]})
    return cases


def run_cases(harness, cases):
    cmds, spans = [], []
    for c in cases:
        spans.append((len(cmds), len(cmds) + len(c["cmds"])))
        cmds.extend(c["cmds"])
    res = fw.run_rust(harness, cmds)
    return [res[a:b] for a, b in spans], len(cmds)


def evaluate(case, res, schema_actions):
    if case.get("needs_actions"):
        case["schema_actions"] = schema_actions.get(case["sid"], [])
    return CHECKS[case["kind"]](case, res)


def run(rep, tier, seed):
    ob, dis, details, failures = fw.check_props(PROP_FILE, THEOREMS) if THEOREMS else (0, 0, {}, [])
    harness = fw.build_harness()
    driver = fw.build_model_driver()
    rng = random.Random(seed)
    cases = gen_cases(rng, tier)
    results, nevals = run_cases(harness, cases)
    # model side
    corr = {"compared": 0, "differences": 0, "to_json": 0, "parse_typed": 0, "parse_untyped": 0, "store_to_json": 0,
            "store_parse_typed": 0, "store_parse_untyped": 0, "ent_parse_typed": 0, "ent_parse_untyped": 0}
    oracle_bad = set()
    # the schema's action entities, as reported by Schema::action_entities (used by oracle 2)
    schema_actions = {}
    for c, r in zip(cases, results):
        if c["kind"] == "rt" and c.get("conformant") and isinstance(r[0].get("schema_actions"), list):
            schema_actions.setdefault(c["sid"], strip_and_keep(r[0]["schema_actions"]))
    mcmds, mmeta = [], []
    for ci, c in enumerate(cases):
        for (ri, what, cmd) in model_cmds_of(c, schema_actions):
            mcmds.append(cmd)
            mmeta.append((ci, ri, what))
    mres = fw.run_model(driver, mcmds)
    stats = {"by_kind": {}, "by_stream": {}, "refused": 0, "round_tripped": 0, "variants": 0, "mutations": {},
             "malformed_accept": 0, "malformed_reject": 0, "reject_classes": {}, "ctx_finding_hits": 0, "problems": 0}
    distinct = set()
    samples = []
    for c, r in zip(cases, results):
        stats["by_kind"][c["kind"]] = stats["by_kind"].get(c["kind"], 0) + 1
        stats["by_stream"][c["stream"]] = stats["by_stream"].get(c["stream"], 0) + 1
        bad = evaluate(c, r, schema_actions)
        if c["kind"] in ("rt", "ctx_rt"):
            if "to_json_error" in r[0]:
                stats["refused"] += 1
            elif "json" in r[0]:
                stats["round_tripped"] += 1
        if c["kind"].startswith("variants"):
            stats["variants"] += len(r) - 1
        if c["kind"] == "paths":
            m = c["mutation"].split(":")[0].split("+")[0]
            stats["mutations"][m] = stats["mutations"].get(m, 0) + 1
            for x in r[::2]:
                v = verdict(x)
                if v[0] == "ok":
                    stats["malformed_accept"] += 1
                else:
                    stats["malformed_reject"] += 1
                    k = "%s:%s" % (v[1], v[2]) if v[0] == "err" else v[0]
                    stats["reject_classes"][k] = stats["reject_classes"].get(k, 0) + 1
        h = fw.case_hash(c["cmds"])
        if c["kind"] != "rt" or any(tag(v) in ("set", "rec", "x", "e") for e in c["entities"] for _, v in e["attrs"] + e["tags"]):
            distinct.add(h)
        if len(samples) < 3 and c["kind"] in ("rt", "variants_context") and c["stream"] == "schema" and len(samples) < 2:
            samples.append({"kind": c["kind"], "cmds": c["cmds"][:2], "answer": json.loads(json.dumps(r[:1]))})
        if bad:
            key = None
            if is_ctx_finding(c):
                key = KEY_CTX
                stats["ctx_finding_hits"] += 1
            else:
                stats["problems"] += 1
            payload = {"property": PROP, "kind": "oracle: " + "; ".join(bad[:4]), "case": slim(c),
                       "rust": json.loads(json.dumps(r))[:4], "replay_cmd": "./check C10 --replay <this file>"}
            rep.violation(payload, key=key)
            oracle_bad.add(id(c))
    for (ci, ri, what), cmd, m in zip(mmeta, mcmds, mres):
        c = cases[ci]
        corr["compared"] += 1
        if what in ("to_json", "store_to_json"):
            corr[what] += 1
        else:
            corr[what + ("_typed" if "schema" in c["cmds"][ri] else "_untyped")] += 1
        if what in ("parse", "store_parse", "ent_parse") and isinstance(m, list):
            rv = verdict(results[ci][ri])[0]
            k = ("model_accepts" if m[0] == "ok" else "model_rejects") + "/" + ("impl_accepts" if rv == "ok" else "impl_rejects")
            corr.setdefault("outcomes_" + what, {})
            corr["outcomes_" + what][k] = corr["outcomes_" + what].get(k, 0) + 1
        if what in ("to_json", "parse"):
            d = compare_model(what, c["cmds"][ri], results[ci][ri], m)
        else:
            d = compare_entity_level(what, c["cmds"][ri], results[ci][ri], m)
        if d and id(c) not in oracle_bad:
            corr["differences"] += 1
            rep.violation({"property": PROP, "kind": "correspondence: " + d,
                           "model_function": {"to_json": "EntJson.context_to_json", "parse": "EntJson.context_from_json / json_to_value",
                                              "store_to_json": "EntJson.store_to_json / entity_to_json",
                                              "store_parse": "EntJson.store_from_json", "ent_parse": "EntJson.entity_from_json"}[what],
                           "rust_entry_point": {"to_json": "Context::to_json_value", "parse": "Context::from_json_value",
                                                "store_to_json": "Entities::to_json_value", "store_parse": "Entities::from_json_value",
                                                "ent_parse": "Entity::from_json_value"}[what],
                           "theorems_whose_transfer_is_lost": THEOREMS,
                           "rust_cmd": c["cmds"][ri], "model_cmd": __import__("sx").dump(cmd), "rust": strip_sem(results[ci][ri]),
                           "model": repr(m)}, no_failing_input=True)
    nx = fw.coq_crosscheck(mcmds[:40], mres[:40], PROP)
    for f in failures:
        rep.violation({"property": PROP, "kind": "proof obligation no longer checks", "detail": f}, no_failing_input=True)
    rep.coverage = {
        "obligations": ob, "discharged": dis,
        "checker_cmd": "make -C coq props/%s.vo (coqc 8.16.1) + Print Assumptions" % PROP_FILE,
        "trusted_base": fw.TRUSTED_BASE + ["vp/schema.py resolve (Cedar JSON schema -> resolved attribute / tag / context types)"],
        "theorems": details,
        "evaluations": nevals, "distinct_nontrivial": len(distinct),
        "rule": "free stream: stores of 1-4 entities and contexts over arbitrary value shapes (odd and reserved record keys, "
                "strings needing escapes, non-BMP, i64 extremes, empty/nested/heterogeneous sets, 4 extension types, absent "
                "parents) round-tripped; schema stream: random schemas + one hand schema with attributes named like escapes, "
                "conformant stores/entities/contexts round-tripped without and with the schema, and each parsed in all-implicit, "
                "all-explicit and random per-node implicit/explicit variants; malformed stream: structure-aware mutations of "
                "those documents through the value and the text path, without and with schema; distinct by hash of the commands; "
                "non-trivial = carries at least one set/record/extension/entity value (all non-rt cases count)",
        "traces_validated_against_impl": nevals,
        "cases": len(cases), "cases_by_kind": stats["by_kind"], "cases_by_stream": stats["by_stream"],
        "serialisation_refused": stats["refused"], "serialisation_ok": stats["round_tripped"],
        "variant_documents": stats["variants"], "mutation_histogram": stats["mutations"],
        "malformed_accept": stats["malformed_accept"], "malformed_reject": stats["malformed_reject"],
        "reject_class_histogram": stats["reject_classes"],
        "context_top_level_reserved_key_hits (finding)": stats["ctx_finding_hits"],
        "oracle_failures_other": stats["problems"], "correspondence": corr, "vm_compute_crosscheck_cases": nx,
        "samples": samples,
    }
    rep.assumptions = [
        "concrete values only (no `unknown`s / residuals); extension values are results of the four one-string constructors",
        "extension strings come from a fixed pool with one spelling per value (sets never hold two spellings of one value)",
        "entity sets have distinct uids and acyclic parents; action entities only have action parents",
        "nested open records are not generated (the JSON schema format cannot declare them inside attribute types that "
        "reach SchemaType with open_attrs = true only through entity shapes, which are parsed attribute by attribute)",
        "error messages are not compared, only accept/reject, the stage and the error class",
    ]


def strip_and_keep(store):
    return store


def slim(c):
    out = {k: v for k, v in c.items() if k not in ("schema_actions",) and not k.startswith("_")}
    return json.loads(json.dumps(out, default=list))


def replay(rep, path):
    payload = json.load(open(path))
    case = payload.get("case")
    if not case:
        print(json.dumps(payload, indent=1)[:6000])
        return
    harness = fw.build_harness()
    res = fw.run_rust(harness, case["cmds"])
    sa = {}
    if case.get("needs_actions"):
        r0 = fw.run_rust(harness, [{"cmd": "entjson_rt", "entities": [], "schema": case["schema"]}])[0]
        sa[case["sid"]] = r0.get("schema_actions", [])
    print("kind:", case["kind"], "stream:", case.get("stream"), "mutation:", case.get("mutation"))
    for c, r in zip(case["cmds"], res):
        print(json.dumps({k: v for k, v in c.items() if k != "schema"})[:1500])
        print("   ->", json.dumps(strip_sem(r))[:1500])
    bad = evaluate(case, res, sa)
    print("oracle:", bad or "holds")
    if bad:
        rep.violation(payload, key=KEY_CTX if is_ctx_finding(case) else None)
