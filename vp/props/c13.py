"""C13 — partial evaluation with unknowns is sound.
   Implementation-level oracle (always on): for >= 10 substitutions per case, reauthorize(sigma)
   equals concrete authorization from scratch (decision, determining policies, erroring ids and
   the per-policy satisfied/false/error status); a definite partial decision equals every
   from-scratch decision; must ⊆ determining ⊆ may; definitely satisfied / errored / trivially
   false policies behave so under every sigma.
   Correspondence: model PE.v (peval, PartialResponse views, reauthorize) vs the implementation:
   buckets / decision / must / may exactly, residuals semantically (per-policy status of
   reauthorize under every sigma)."""
import random

import cedar
import framework as fw
import gen
import pe
from sx import Sym, Str

PROP = "C13"
PROP_FILE = "C13_PE"
THEOREMS = ["c13_peval_sound", "c13_policy_status_sound", "c13_decision", "c13_determining", "c13_definitely",
            "c13_reauthorize_partial", "c13_reauthorize_no_residual"]

MANIFEST = {
    "text": "Executable Gallina partial evaluator (PE.v) transcribed from evaluator.rs residual arms, PartialResponse views and reauthorize; soundness w.r.t. every well-typed substitution proved in Coq; tied to /repo by differential execution (buckets/decision/must/may exact, residuals compared semantically under >= 10 substitutions per case) plus an implementation-level oracle (reauthorize == from scratch, definite decision stable, must ⊆ determining ⊆ may).",
    "technique": "proof (Coq, structural induction) + correspondence by differential execution + metamorphic oracle on the implementation",
}

NSIG = 10


def mk_policy(pid, eff, cond, scope=None):
    p = {"id": pid, "effect": eff, "principal": ("any",), "action": ("any",), "resource": ("any",),
         "conds": [("when", cond)] if cond is not None else [], "annotations": []}
    if scope:
        p.update(scope)
    return p


def rust_cmd(case):
    pc = case["pc"]
    subs = []
    for s in case["sigmas"]:
        subs.append({"map": pe.sigma_json(s), "request": cedar.request_json(pc.concrete_request(s)),
                     "entities": cedar.entities_json(pc.concrete_entities(s)),
                     "entity_unknowns": [cedar.uid_json(e["uid"]) for e in getattr(pc, "missing", [])]})
    return {"cmd": "partial_authorize",
            "policies": [{"id": p["id"], "text": cedar.policy_text(p)} for p in case["policies"]],
            "request": pc.preq_json(), "entities": pc.pents_json(), "partial_store": pc.partial_store, "subs": subs}


def model_cmd(case):
    pc = case["pc"]
    return [Sym("partial_authorize"), [cedar.policy_sx(p) for p in case["policies"]], pc.preq_sx(), pc.pents_sx(),
            [pe.sigma_sx(s) for s in case["sigmas"]]]


def in_model_fragment(case):
    """the model has no Value -> Expr conversion for extension values and no partial stores"""
    pc = case["pc"]
    if pc.partial_store:
        return False
    for p in case["policies"]:
        for _, e in p["conds"]:
            if pe.expr_has_ext(e):
                return False
    for v in pc.all_values():
        if pe.has_ext(v):
            return False
    for s in case["sigmas"]:
        for n, v in s.items():
            if not n.startswith("\0") and pe.has_ext(v):
                return False
    return True


def describe(case):
    return {"rust_cmd": rust_cmd(case), "stream": case["stream"],
            "sigmas": [{n.replace("\0", "~"): repr(v) for n, v in s.items()} for s in case["sigmas"][:3]]}


# ------------------------------------------------------------------ the oracle on the implementation
def status_class(s):
    return "err" if s.startswith("err:") else s


def oracle(case, rr):
    """list of (kind, detail) property failures visible on the implementation's own results"""
    bad = []
    if "decision" not in rr:
        return [("harness did not answer", repr(rr)[:300])]
    ids = [p["id"] for p in case["policies"]]
    pst = rr["status"]
    if sorted(pst) != sorted(ids):
        bad.append(("partial response does not classify every policy exactly once", repr(pst)))
    for k, sub in enumerate(rr["subs"]):
        sc, ra = sub["scratch"], sub["reauth"]
        if "reauth_error" in ra:
            bad.append(("reauthorize fails on a well-typed substitution", "sigma#%d: %s" % (k, ra["reauth_error"])))
            continue
        if ra["decision"] != sc["decision"]:
            bad.append(("reauthorize decision differs from authorization from scratch", "sigma#%d %s vs %s" % (k, ra["decision"], sc["decision"])))
        if ra["reasons"] != sc["reasons"]:
            bad.append(("reauthorize determining policies differ from authorization from scratch", "sigma#%d %r vs %r" % (k, ra["reasons"], sc["reasons"])))
        for i in ids:
            a, b = status_class(ra["status"].get(i, "?")), status_class(sc["status"].get(i, "?"))
            # a policy that already errored in the partial phase is re-materialised as the residual
            # `false` by reauthorize (its error is not repeated in the diagnostics): false ~ err there
            if a != b and not (pst.get(i, "").startswith("err:") and a == "false" and b == "err"):
                bad.append(("policy outcome under reauthorize differs from scratch", "sigma#%d policy %s: %s vs %s" % (k, i, a, b)))
        # Expr::substitute(sigma) on each residual, evaluated concretely, agrees with the policy from scratch
        for i, st in sub.get("subst_eval", {}).items():
            if status_class(st) != status_class(sc["status"].get(i, "?")):
                bad.append(("residual with the substitution applied (Expr::substitute) evaluates differently from the policy from scratch",
                            "sigma#%d policy %s: %s vs %s" % (k, i, st, sc["status"].get(i))))
        if rr["decision"] is not None and rr["decision"] != sc["decision"]:
            bad.append(("definite partial decision contradicted by a substitution", "sigma#%d partial=%s scratch=%s" % (k, rr["decision"], sc["decision"])))
        if not set(rr["must"]) <= set(sc["reasons"]):
            bad.append(("must_be_determining not within the actual determining policies", "sigma#%d must=%r actual=%r" % (k, rr["must"], sc["reasons"])))
        if not set(sc["reasons"]) <= set(rr["may"]):
            bad.append(("actual determining policy outside may_be_determining", "sigma#%d actual=%r may=%r" % (k, sc["reasons"], rr["may"])))
        for i in rr["satisfied"]:
            if sc["status"].get(i) != "sat":
                bad.append(("definitely_satisfied policy not satisfied under a substitution", "sigma#%d %s: %s" % (k, i, sc["status"].get(i))))
        for i in rr["errored"]:
            if status_class(sc["status"].get(i, "?")) != "err":
                bad.append(("definitely_errored policy does not error under a substitution", "sigma#%d %s: %s" % (k, i, sc["status"].get(i))))
        for i, st in pst.items():
            if st == "false" and sc["status"].get(i) != "false":
                bad.append(("trivially false policy not false under a substitution", "sigma#%d %s: %s" % (k, i, sc["status"].get(i))))
    # internal consistency of the views
    if rr["satisfied"] != sorted(i for i, s in pst.items() if s == "sat"):
        bad.append(("definitely_satisfied differs from the satisfied buckets", repr(rr["satisfied"])))
    if rr["errored"] != sorted(i for i, s in pst.items() if s.startswith("err:")):
        bad.append(("definitely_errored differs from the error states", repr(rr["errored"])))
    return bad



# ------------------------------------------------------------------ correspondence with the model
def m_status(x):
    if isinstance(x, list):
        return "err:" + str(x[1])
    return str(x)


def r_status(x):
    if x.startswith("err:"):
        return "err:" + cedar.RUST_ERR_CLASS.get(x[4:], x[4:])
    return x


def canon_model(s):
    """-> None if the model declares the case outside its fragment (some status `out`)"""
    if not (isinstance(s, list) and s and s[0] == "presp"):
        return ("bad", repr(s)[:300])
    dec = None if s[1] == "none" else str(s[1][1]).capitalize()
    ids = lambda l: sorted(x.text() for x in l)
    status = {kv[0].text(): m_status(kv[1]) for kv in s[6]}
    subs = []
    for sub in s[7]:
        if not isinstance(sub, list):
            subs.append(str(sub))
        else:
            subs.append((str(sub[0]).capitalize(), ids(sub[1]), {kv[0].text(): m_status(kv[1]) for kv in sub[2]}))
    out = any(v == "out" for v in status.values()) or any(isinstance(x, tuple) and any(v == "out" for v in x[2].values()) for x in subs)
    if out:
        return None
    return (dec, ids(s[2]), ids(s[3]), ids(s[4]), ids(s[5]), status, subs)


def canon_rust(rr):
    subs = []
    for sub in rr["subs"]:
        ra = sub["reauth"]
        if "reauth_error" in ra:
            subs.append("reauth_error")
        else:
            subs.append((ra["decision"], sorted(ra["reasons"]), {i: r_status(x) for i, x in ra["status"].items()}))
    return (rr["decision"], rr["must"], rr["may"], rr["satisfied"], rr["errored"],
            {i: r_status(x) for i, x in rr["status"].items()}, subs)


def diff_model(m, r):
    names = ["partial decision", "must_be_determining", "may_be_determining", "definitely_satisfied",
             "definitely_errored", "per-policy partial status (buckets)"]
    for k, n in enumerate(names):
        if m[k] != r[k]:
            return "%s: model %r, implementation %r" % (n, m[k], r[k])
    for k, (a, b) in enumerate(zip(m[6], r[6])):
        if a != b:
            return "residuals differ semantically under sigma#%d (reauthorize): model %r, implementation %r" % (k, a, b)
    return None

# ------------------------------------------------------------------ case streams
LAYOUTS = [(p, r, c) for p in (("known", pe.ALICE), ("unknown", ("User",)), ("unknown", None))
           for r in (("known", pe.PHOTO), ("unknown", ("Photo",)), ("unknown", None)) for c in (False, True)]


def table_cases(rng, tier):
    exprs = pe.table_exprs(rng, tier != "quick")
    exts = pe.ext_exprs(rng)
    rng.shuffle(exprs)
    if tier == "quick":
        exprs = exprs[:3600]
    exprs += pe.wrap_exprs(rng)
    cases = []
    reps = 1 if tier == "quick" else 4
    gi = 0
    for stream, pool, size in (("table", exprs, 4), ("table-ext", exts, 3)):
        for i in range(0, len(pool), size):
            grp = pool[i:i + size]
            for _ in range(reps):
                lay = LAYOUTS[gi % len(LAYOUTS)] if rng.random() < 0.7 else rng.choice(LAYOUTS)
                gi += 1
                w = pe.TableWorld(rng)
                pc = pe.TableCase(w, rng, *lay)
                pols = [mk_policy("p%d" % j, rng.choice(["permit", "permit", "forbid"]), e) for j, e in enumerate(grp)]
                if rng.random() < 0.5:
                    pols.append(mk_policy("base", "permit", None))
                cases.append({"pc": pc, "policies": pols, "sigmas": pc.sigmas(NSIG), "stream": stream})
    return cases


class UGen(gen.ExprGen):
    """the shared expression generator, biased toward unknown-dependent leaves"""

    def __init__(self, world, rng, pc, **kw):
        gen.ExprGen.__init__(self, world, rng, **kw)
        self.pc = pc
        self.hidden_ctx = [k for k, v in pc.preq["context"][1] if pe.pv_has_unk(v)] if pc.preq["context"][0] == "known" else []
        self.hidden_ent = [(e["uid"], k) for e in pc.pents for k, v in e["attrs"] if pe.pv_has_unk(v)]

    def leaf(self, kind):
        r = self.r
        c = r.random()
        if c < 0.25 and self.hidden_ctx:
            return ("getattr", ("var", "context"), r.choice(self.hidden_ctx))
        if c < 0.45 and self.hidden_ent:
            u, k = r.choice(self.hidden_ent)
            return ("getattr", ("lit", ("entity", u)), k)
        if c < 0.55:
            return ("var", r.choice(["principal", "resource"]))
        if c < 0.6:
            return ("var", "context")
        return gen.ExprGen.leaf(self, kind)


def scope_choices(rng, w):
    q = w.request
    return {"principal": rng.choice([("any",), ("any",), ("eq", q["principal"]), ("in", w.any_uid()), ("is", q["principal"][1]),
                                     ("is", ("Photo",)), ("isin", ("User",), w.any_uid())]),
            "action": rng.choice([("any",), ("any",), ("eq", q["action"]), ("in", [w.actions[0], w.actions[1]])]),
            "resource": rng.choice([("any",), ("any",), ("eq", w.any_uid()), ("in", w.any_uid()), ("is", q["resource"][1])])}


def random_cases(rng, n, noext, partial_store=False):
    cases = []
    for _ in range(n):
        w = pe.PWorld(rng, noext=noext)
        pc = pe.PCase(w, rng, partial_store=partial_store)
        g = UGen(w, rng, pc)
        if noext:
            g.KINDS = [k for k in g.KINDS if k != "ext"]
            w.exts = ()
        pols = []
        for i in range(rng.randint(1, 4)):
            conds = [(rng.choice(["when", "when", "unless"]), g.gen("bool", rng.randint(1, 4))) for _ in range(rng.choice([0, 1, 1, 2]))]
            p = {"id": "p%d" % i, "effect": rng.choice(["permit", "permit", "forbid"]), "conds": conds, "annotations": []}
            p.update(scope_choices(rng, w))
            pols.append(p)
        cases.append({"pc": pc, "policies": pols, "sigmas": pc.sigmas(NSIG),
                      "stream": "partial-store" if partial_store else ("random" if noext else "random-ext")})
    return cases


def near_miss_cases(rng, n):
    """malformed / near-miss stream: substitutions that violate the declared entity type, or bind a
       known variable — reauthorize must refuse them (never silently answer)"""
    cases = []
    for _ in range(n):
        w = pe.TableWorld(rng)
        lay = rng.choice([l for l in LAYOUTS if l[0][0] == "unknown" or l[1][0] == "unknown"])
        pc = pe.TableCase(w, rng, *lay)
        e = rng.choice(pe.uterms()["bool"])
        pols = [mk_policy("p0", "permit", e), mk_policy("p1", "forbid", ("unop", "not", e))]
        good = pc.sigma0()
        bads = []
        for var, ty in (("principal", ("User",)), ("resource", ("Photo",))):
            if pc.preq[var] == ("unknown", ty):
                b = dict(good)
                b[var] = ("prim", ("entity", pe.GRP))        # wrong entity type for a typed unknown
                bads.append(b)
            if pc.preq[var][0] == "unknown":
                b = dict(good)
                b[var] = ("prim", ("long", 1))               # not an entity at all
                bads.append(b)
            if pc.preq[var][0] == "known":
                b = dict(good)
                b[var] = ("prim", ("entity", pc.preq[var][1]))  # binding a known variable
                bads.append(b)
        cases.append({"pc": pc, "policies": pols, "sigmas": [good], "bad_sigmas": bads, "stream": "near-miss"})
    return cases


def near_miss_cmd(case):
    pc = case["pc"]
    good = case["sigmas"][0]
    subs = []
    for s in case["sigmas"] + case["bad_sigmas"]:
        subs.append({"map": pe.sigma_json(s), "request": cedar.request_json(pc.concrete_request(good)),
                     "entities": cedar.entities_json(pc.concrete_entities(good))})
    c = rust_cmd(case)
    c["subs"] = subs
    return c


# ------------------------------------------------------------------ run
def run(rep, tier, seed):
    ob, dis, details, failures = fw.check_props(PROP_FILE, THEOREMS) if THEOREMS else (0, 0, {}, [])
    harness = fw.build_harness()
    driver = fw.build_model_driver()
    rng = random.Random(seed)
    quick = tier == "quick"
    cases = table_cases(rng, tier)
    cases += random_cases(rng, 500 if quick else 12000, noext=True)
    cases += random_cases(rng, 150 if quick else 3000, noext=False)
    cases += random_cases(rng, 250 if quick else 5000, noext=True, partial_store=True)
    nm = near_miss_cases(rng, 60 if quick else 600)

    rres = fw.run_rust(harness, [rust_cmd(c) for c in cases])
    nmres = fw.run_rust(harness, [near_miss_cmd(c) for c in nm])
    frag = [i for i, c in enumerate(cases) if in_model_fragment(c)]
    mcmds = [model_cmd(cases[i]) for i in frag]
    mout = fw.run_model(driver, mcmds)
    mres = dict(zip(frag, mout))

    stats = {"streams": {}, "partial_decision": {"Allow": 0, "Deny": 0, "None": 0}, "policy_status": {},
             "scratch_decision": {"Allow": 0, "Deny": 0}, "scratch_status": {}, "unknown_kinds": {},
             "reauth_orig_differs": 0, "sigma_runs": 0, "harness_errors": 0,
             "model_compared": 0, "model_outside_fragment": 0, "model_not_run": 0}
    distinct = set()
    ops = {}
    nviol = 0
    for ci, (c, rr) in enumerate(zip(cases, rres)):
        stats["streams"][c["stream"]] = stats["streams"].get(c["stream"], 0) + 1
        if "harness_error" in rr:
            stats["harness_errors"] += 1
            if nviol < 20:
                rep.violation({"property": PROP, "kind": "generator emitted a case the harness cannot build (machinery)",
                               "detail": rr["harness_error"][:500], "case": describe(c)}, no_failing_input=True)
            nviol += 1
            continue
        bad = oracle(c, rr)
        if bad:
            nviol += 1
            if nviol <= 25:
                small, sbad = shrink(harness, c, bad)
                rep.violation({"property": PROP, "kind": sbad[0][0], "all_failures": sbad[:10], "case": describe(small),
                               "rust": trim(fw.run_rust(harness, [rust_cmd(small)])[0]),
                               "replay": "./check C13 --replay <this file>"})
            continue
        if ci in mres:
            m = canon_model(mres[ci])
            if m is None:
                stats["model_outside_fragment"] += 1
            else:
                stats["model_compared"] += 1
                d = "model did not answer: %r" % (m,) if m[0] == "bad" else diff_model(m, canon_rust(rr))
                if d:
                    nviol += 1
                    if nviol <= 25:
                        rep.violation({"property": PROP, "kind": "implementation differs from the proven model (no oracle failure on this case)",
                                       "difference": d, "model_function": "PE.is_authorized_partial / PE.reauthorize (coq/model/PE.v)",
                                       "rust_entry_point": "Authorizer::is_authorized_core + PartialResponse::{decision,...,reauthorize}",
                                       "theorems_whose_transfer_is_lost": THEOREMS, "case": describe(c), "rust": trim(rr),
                                       "model": repr(mres[ci])[:3000]}, no_failing_input=True)
                    continue
        else:
            stats["model_not_run"] += 1
        stats["partial_decision"][str(rr["decision"])] += 1
        for s in rr["status"].values():
            k = status_class(s)
            stats["policy_status"][k] = stats["policy_status"].get(k, 0) + 1
        nontrivial = any(s == "residual" for s in rr["status"].values())
        for sub in rr["subs"]:
            stats["sigma_runs"] += 1
            stats["scratch_decision"][sub["scratch"]["decision"]] += 1
            for s in sub["scratch"]["status"].values():
                k = s if s.startswith("err:") else s
                stats["scratch_status"][k] = stats["scratch_status"].get(k, 0) + 1
            if sub["reauth_orig"] != sub["reauth"]:
                stats["reauth_orig_differs"] += 1
        pc = c["pc"]
        for var in ("principal", "resource"):
            k = "%s:%s" % (var, "known" if pc.preq[var][0] == "known" else ("typed" if pc.preq[var][1] else "untyped"))
            stats["unknown_kinds"][k] = stats["unknown_kinds"].get(k, 0) + 1
        k = "context:" + ("unknown" if pc.preq["context"][0] == "unknown" else
                          ("leaves" if any(pe.pv_has_unk(v) for _, v in pc.preq["context"][1]) else "known"))
        stats["unknown_kinds"][k] = stats["unknown_kinds"].get(k, 0) + 1
        if any(pe.pv_has_unk(v) for e in pc.pents for _, v in e["attrs"]):
            stats["unknown_kinds"]["entity-attr-leaves"] = stats["unknown_kinds"].get("entity-attr-leaves", 0) + 1
        for p in c["policies"]:
            for _, e in p["conds"]:
                gen.expr_ops(e, ops)
        if nontrivial:
            distinct.add(fw.case_hash(rust_cmd(c)))

    # near-miss stream: ill-typed / conflicting substitutions must be refused
    refused = 0
    for c, rr in zip(nm, nmres):
        if "subs" not in rr:
            rep.violation({"property": PROP, "kind": "near-miss case not answered (machinery)", "detail": repr(rr)[:400]},
                          no_failing_input=True)
            continue
        good = rr["subs"][0]
        if "reauth_error" in good["reauth"] or oracle({"policies": c["policies"]}, dict(rr, subs=[good])):
            rep.violation({"property": PROP, "kind": "near-miss base substitution fails the oracle",
                           "case": {"rust_cmd": near_miss_cmd(c)}, "rust": trim(rr)})
        for k, sub in enumerate(rr["subs"][1:]):
            if "reauth_error" in sub["reauth"]:
                refused += 1
            else:
                rep.violation({"property": PROP, "kind": "reauthorize accepts a substitution that violates the declared type / binds a known variable",
                               "sigma": {n: repr(v) for n, v in c["bad_sigmas"][k].items()},
                               "case": {"rust_cmd": near_miss_cmd(c)}, "rust": trim(rr)})

    # vm_compute cross-check of the extracted model on a few (shortened: 2 substitutions) commands
    xc = [model_cmd(dict(cases[i], sigmas=cases[i]["sigmas"][:2])) for i in (frag[:3] + frag[-3:])]
    nx = fw.coq_crosscheck(xc, fw.run_model(driver, xc), PROP)
    for f in failures:
        rep.violation({"property": PROP, "kind": "proof obligation no longer checks", "detail": f}, no_failing_input=True)
    rep.coverage = {
        "obligations": ob, "discharged": dis,
        "checker_cmd": "make -C coq props/%s.vo (coqc 8.16.1) + Print Assumptions" % PROP_FILE,
        "trusted_base": fw.TRUSTED_BASE, "theorems": details,
        "evaluations": len(cases) + len(nm), "distinct_nontrivial": len(distinct),
        "rule": "unknown-position x operator table (every operator template with the hole filled by each unknown-dependent term and the co-operand by each concrete outcome; 18 layouts of known/typed/untyped principal x resource x context) + random policy sets from the shared expression generator biased to unknown-dependent leaves over random worlds with hidden context/entity-attribute leaves + extension-call stream + near-miss substitutions; %d substitutions per case (ground truth, all-flipped, random incl. absent entities, overflow values, wrong kinds); non-trivial = at least one policy is a residual; distinct by hash of the harness command" % NSIG,
        "traces_validated_against_impl": stats["sigma_runs"],
        "streams": stats["streams"], "partial_decision_histogram": stats["partial_decision"],
        "partial_policy_status": stats["policy_status"], "scratch_decision_histogram": stats["scratch_decision"],
        "scratch_policy_status": stats["scratch_status"], "unknown_layout_histogram": stats["unknown_kinds"],
        "model_compared": stats["model_compared"], "model_outside_fragment": stats["model_outside_fragment"],
        "model_not_run_ext_or_partial_store": stats["model_not_run"], "vm_compute_crosscheck_cases": nx,
        "near_miss_refused": refused, "reauthorize_with_original_entities_differs": stats["reauth_orig_differs"],
        "operator_histogram": ops,
        "samples": [describe(c) for c in (cases[:1] + cases[-1:])],
    }
    rep.assumptions = ["substitutions are well-typed for typed unknowns (ill-typed ones are checked to be refused)",
                       "policies themselves contain no unknown(...) calls: unknowns enter through the request and entity data",
                       "reauthorize is given the substituted (concrete) entity store",
                       "error messages not compared; error class recorded but only error/no-error is required to agree between reauthorize and scratch"]


def trim(rr):
    return rr


def shrink(harness, case, bad):
    """delete policies / substitutions while the oracle still fails"""
    cur, curbad = case, bad
    changed = True
    while changed:
        changed = False
        for i in range(len(cur["policies"])):
            if len(cur["policies"]) <= 1:
                break
            cand = dict(cur, policies=cur["policies"][:i] + cur["policies"][i + 1:])
            b = oracle(cand, fw.run_rust(harness, [rust_cmd(cand)])[0])
            if b and b[0][0] != "harness did not answer":
                cur, curbad, changed = cand, b, True
                break
        if changed:
            continue
        for i in range(len(cur["sigmas"])):
            if len(cur["sigmas"]) <= 1:
                break
            cand = dict(cur, sigmas=cur["sigmas"][:i] + cur["sigmas"][i + 1:])
            b = oracle(cand, fw.run_rust(harness, [rust_cmd(cand)])[0])
            if b and b[0][0] != "harness did not answer":
                cur, curbad, changed = cand, b, True
                break
    return cur, curbad


def replay(rep, path):
    import json
    payload = json.load(open(path))
    harness = fw.build_harness()
    cmd = payload.get("case", {}).get("rust_cmd")
    if cmd:
        rr = fw.run_rust(harness, [cmd])[0]
        print(json.dumps(rr, indent=1)[:6000])
    print(json.dumps({k: v for k, v in payload.items() if k != "case"}, indent=1)[:3000])
