"""C20 — no panics.  A Gallina model is total, so the proof part of C20 is the set of local
   invariants of panic sites inside modelled functions (props/C20_NoPanic.v); the rest is runtime:
   every entry point is driven with generated, mutated and malformed documents under catch_unwind
   (aborts are detected by the runner because the process dies).  Labelled `other`: proof for the
   modelled sites + exploration for everything else."""
import json
import os
import random

import cedar
import framework as fw
import gen
from sx import Str, Sym

PROP = "C20"
LEVEL = "other"
PROP_FILE = "C20_NoPanic"
THEOREMS = ["c20_levenshtein_no_panic", "c20_levenshtein_refines", "c20_levenshtein_self", "c20_fuzzy_search_no_panic", "c20_fuzzy_search_candidate", "c20_fuzzy_fold_minimal", "c20_wildcard_no_panic",
            "c20_wildcard_refines", "c20_contains_two_no_panic", "c20_ip_strings_no_panic", "c20_ip_in_range_no_panic", "c20_ip_prefix_bound", "c20_ip_prefix_needed",
            "c20_display_extn_no_panic", "c20_display_extn_old_refuted",
            "c20_policyset_core_no_panic", "c20_policyset_history_no_panic"]

MANIFEST = {
    "category": "other",
    "text": "Partial by nature. Proof part (props/C20_NoPanic.v, 17 theorems, no axioms): index-level transcriptions of four functions whose panic freedom rests on invariants asserted only in prose (fuzzy_match levenshtein_distance/fuzzy_search_limited, Pattern::wildcard_match, IPAddr::is_in_range and the byte-level slicing of the ip parser's contains_at_least_two, est display of __extn calls) with every slice index, unsigned subtraction and shift made an explicit Panic outcome; theorems: no input reaches a Panic (plus: the index-level wildcard loop computes the declarative matcher of C02; the Levenshtein matrix loops compute the Wagner-Fischer recurrence; the ip parser establishes the prefix bound the subtraction needs; the pre-fix display code panicked exactly on method-style calls without arguments). These transcriptions are run against the implementation on generated inputs every run (site_correspondence in the evidence). Everything else is exploration, labelled as such: all text/JSON/protobuf/FFI entry points are driven with valid, structure-mutated and byte-mutated documents through the pipelines parse -> {print, to_json, format, validate, authorize, link, encode} with every error rendered, under catch_unwind, in subprocesses so that aborts are seen too.",
    "technique": "Coq lemmas for panic-site invariants of modelled functions + runtime exploration (structure-aware and byte-level mutation) under catch_unwind",
    "note": "The exploration part is not a proof and is labelled as such in the evidence (level other).",
}

SCHEMA_CEDAR_SEEDS = [
    'entity User in [Group] { n: Long, s?: String } tags String; entity Group; action view appliesTo { principal: [User], resource: [Group], context: {x?: Long} };',
    'namespace A { type T = { a: Long, b?: Set<String> }; entity E = { t: T, e: E, "weird key": ipaddr }; entity F enum ["a", "b"]; action "do it" in [g] appliesTo { principal: E, resource: [E, F] }; action g; }',
    'namespace A::B { entity X in [Y, A::B::Y]; entity Y; } namespace C { entity Z in [A::B::X] { d: decimal, l: Set<Set<Long>> }; action a appliesTo { principal: [Z], resource: [A::B::Y], context: { r: { q: Bool } } }; }',
    '@doc("x") entity E; type Long = String; entity G { l: Long, m: __cedar::Long }; action a, b appliesTo { principal: E, resource: G };',
]
SCHEMA_JSON_SEEDS = [
    {"": {"entityTypes": {"User": {"memberOfTypes": ["Group"], "shape": {"type": "Record", "attributes": {"n": {"type": "Long"}, "s": {"type": "String", "required": False}}}, "tags": {"type": "String"}}, "Group": {}},
          "actions": {"view": {"appliesTo": {"principalTypes": ["User"], "resourceTypes": ["Group"], "context": {"type": "Record", "attributes": {"x": {"type": "Long", "required": False}}}}}}}},
    {"NS": {"commonTypes": {"T": {"type": "Record", "attributes": {"a": {"type": "Set", "element": {"type": "Entity", "name": "E"}}}}},
            "entityTypes": {"E": {"shape": {"type": "T"}}, "F": {"enum": ["a", "b"]}},
            "actions": {"a": {"memberOf": [{"id": "g"}], "appliesTo": {"principalTypes": ["E"], "resourceTypes": ["F"]}}, "g": {}}}},
    {"": {"entityTypes": {"A": {"shape": {"type": "Record", "attributes": {"x": {"type": "Extension", "name": "ipaddr"}, "y": {"type": "EntityOrCommon", "name": "A"}}}}}, "actions": {}}},
]
ENTITIES_SEEDS = [
    [{"uid": {"type": "User", "id": "alice"}, "attrs": {"n": 1, "s": "x", "e": {"__entity": {"type": "User", "id": "bob"}}, "d": {"__extn": {"fn": "decimal", "arg": "1.5"}}}, "parents": [{"type": "Group", "id": "g"}], "tags": {"t": "v"}},
     {"uid": {"type": "Group", "id": "g"}, "attrs": {}, "parents": []}],
    [{"uid": {"__entity": {"type": "Photo", "id": "p"}}, "attrs": {"owner": {"type": "User", "id": "a"}, "tags": ["a", "b"], "r": {"a": 1, "b": [{"__extn": {"fn": "ip", "arg": "1.2.3.4/8"}}]}}, "parents": []}],
]
CONTEXT_SEEDS = [{"n": 1, "ip": {"__extn": {"fn": "ip", "arg": "10.0.0.1"}}}, {"n": "x"}, {"a": {"b": {"c": [1, 2, {"__entity": {"type": "U", "id": "x"}}]}}}, {}]
FFI_AUTH_SEEDS = [
    {"principal": {"type": "User", "id": "alice"}, "action": {"type": "Action", "id": "view"}, "resource": {"type": "Photo", "id": "p"}, "context": {},
     "policies": {"staticPolicies": "permit(principal, action, resource);"}, "entities": []},
    {"principal": {"type": "User", "id": "alice"}, "action": {"type": "Action", "id": "view"}, "resource": {"type": "Photo", "id": "p"}, "context": {"n": 1},
     "schema": "entity User, Photo; action view appliesTo {principal: User, resource: Photo, context: {n: Long}};",
     "validateRequest": True,
     "policies": {"staticPolicies": {"p0": "permit(principal, action, resource) when { context.n > 0 };"}, "templates": {"t": "permit(principal == ?principal, action, resource);"},
                  "templateLinks": [{"templateId": "t", "newId": "l", "values": {"?principal": {"type": "User", "id": "alice"}}}]},
     "entities": [{"uid": {"type": "User", "id": "alice"}, "attrs": {}, "parents": []}]},
]
FFI_VALIDATE_SEEDS = [
    {"schema": "entity User; action view appliesTo {principal: User, resource: User};", "policies": {"staticPolicies": "permit(principal, action, resource) when { principal.x };"}, "validationSettings": {"mode": "strict"}},
]
EXT_FNS = ["decimal", "ip", "datetime", "duration", "lessThan", "lessThanOrEqual", "greaterThan", "greaterThanOrEqual",
           "isIpv4", "isIpv6", "isLoopback", "isMulticast", "isInRange", "offset", "durationSince", "toDate", "toTime",
           "toMilliseconds", "toSeconds", "toMinutes", "toHours", "toDays", "unknown", "nosuchfn"]


def gen_value_json(rng, depth):
    """Cedar JSON values incl. every escape form, with arities off by one"""
    c = rng.randint(0, 11)
    if depth <= 0 or c < 3:
        return rng.choice([True, False, 0, 1, -1, 2 ** 63 - 1, -(2 ** 63), 2 ** 63, 1.5, "", "a", "*", "\u0000", None])
    if c == 3:
        return {"__entity": rng.choice([{"type": "User", "id": "a"}, {"type": "", "id": "a"}, {"type": "A::B", "id": ""}, {"id": "a"}, {}, {"type": "1bad", "id": "x"}])}
    if c in (4, 5):
        fn = rng.choice(EXT_FNS)
        if rng.random() < 0.5:
            return {"__extn": {"fn": fn, "arg": gen_value_json(rng, depth - 1)}}
        return {"__extn": {"fn": fn, "args": [gen_value_json(rng, depth - 1) for _ in range(rng.choice([0, 0, 1, 2, 3]))]}}
    if c == 6:
        return {"__expr": rng.choice(["1 + 1", "principal", "", "decimal(\"1.0\")"])}
    if c in (7, 8):
        return [gen_value_json(rng, depth - 1) for _ in range(rng.choice([0, 1, 2, 3]))]
    return {rng.choice(["a", "b", "__entity", "__extn", "", "if"]): gen_value_json(rng, depth - 1) for _ in range(rng.choice([0, 1, 2]))}


def gen_est_expr(rng, depth):
    c = rng.randint(0, 13)
    if depth <= 0 or c < 2:
        return rng.choice([{"Value": gen_value_json(rng, 2)}, {"Var": rng.choice(["principal", "action", "resource", "context", "bogus"])},
                           {"Slot": rng.choice(["?principal", "?resource", "?x"])}, {"Unknown": {"name": "u"}}])
    sub = lambda: gen_est_expr(rng, depth - 1)  # noqa: E731
    if c == 2:
        return {rng.choice(["!", "neg", "isEmpty"]): {"arg": sub()}}
    if c in (3, 4):
        return {rng.choice(["==", "!=", "in", "<", "<=", ">", ">=", "&&", "||", "+", "-", "*", "contains", "containsAll", "containsAny", "getTag", "hasTag"]): {"left": sub(), "right": sub()}}
    if c == 5:
        return {rng.choice([".", "has"]): {"left": sub(), "attr": rng.choice(["a", "", "if", "a b"])}}
    if c == 6:
        return {"like": {"left": sub(), "pattern": [rng.choice(["Wildcard", {"Literal": "a"}, {"Literal": "*"}, {"Literal": ""}, {"Literal": "ab"}]) for _ in range(rng.randint(0, 3))]}}
    if c == 7:
        d = {"left": sub(), "entity_type": rng.choice(["User", "A::B", "", "1x"])}
        if rng.random() < 0.4:
            d["in"] = sub()
        return {"is": d}
    if c == 8:
        return {"if-then-else": {"if": sub(), "then": sub(), "else": sub()}}
    if c == 9:
        return {"Set": [sub() for _ in range(rng.randint(0, 3))]}
    if c == 10:
        return {"Record": {rng.choice(["a", "b", ""]): sub() for _ in range(rng.randint(0, 2))}}
    if c in (11, 12):
        return {rng.choice(EXT_FNS): [sub() for _ in range(rng.choice([0, 1, 1, 2, 3]))]}
    return {"has": {"left": sub(), "attr": "a.b"}}


def gen_est_policy(rng):
    scope_p = rng.choice([{"op": "All"}, {"op": "==", "entity": {"type": "User", "id": "a"}}, {"op": "==", "slot": "?principal"},
                          {"op": "in", "entity": {"type": "G", "id": "g"}}, {"op": "is", "entity_type": "User"},
                          {"op": "is", "entity_type": "User", "in": {"slot": "?principal"}}, {"op": "bogus"}])
    scope_a = rng.choice([{"op": "All"}, {"op": "==", "entity": {"type": "Action", "id": "view"}},
                          {"op": "in", "entities": [{"type": "Action", "id": "view"}]}, {"op": "in", "entity": {"type": "Action", "id": "g"}}])
    scope_r = rng.choice([{"op": "All"}, {"op": "==", "slot": "?resource"}, {"op": "in", "entity": {"type": "P", "id": ""}}])
    return {"effect": rng.choice(["permit", "forbid"]), "principal": scope_p, "action": scope_a, "resource": scope_r,
            "conditions": [{"kind": rng.choice(["when", "unless"]), "body": gen_est_expr(rng, rng.randint(0, 3))} for _ in range(rng.choice([0, 1, 1, 2]))],
            "annotations": rng.choice([{}, {"id": "x"}, {"a": None}])}


def mutate_bytes(rng, s):
    b = bytearray(s.encode("utf-8", "surrogatepass") if isinstance(s, str) else s)
    for _ in range(rng.choice([1, 1, 2, 3, 5])):
        c = rng.randint(0, 6)
        pos = rng.randint(0, max(0, len(b) - 1)) if b else 0
        if c == 0 and b:
            b[pos] = rng.randint(0, 255)
        elif c == 1 and b:
            del b[pos:pos + rng.randint(1, 4)]
        elif c == 2:
            b[pos:pos] = bytes(rng.choice([b'"', b"\\", b"(", b")", b"{", b"}", b"[", b"]", b"*", b"::", b"//", b"\n", b"\x00", b"\xff", b"-", b"9223372036854775808", b"?principal", b"@", b".", b",", b";", b"if", b"has", b"like", b"is", b"in"]))
        elif c == 3 and b:
            j = rng.randint(0, len(b) - 1)
            lo, hi = min(pos, j), max(pos, j)
            b[lo:lo] = b[lo:hi][:64]
        elif c == 4 and b:
            b[pos] = b[pos] ^ (1 << rng.randint(0, 7))
        elif c == 5:
            b = b[:pos]
        else:
            b[pos:pos] = "\U0001F600é́".encode()
    return list(b)


def mutate_json(rng, j, depth=0):
    """structure-aware mutation: replace / drop / duplicate / retype one subtree"""
    if isinstance(j, dict) and j and rng.random() < 0.7:
        k = rng.choice(list(j.keys()))
        j = dict(j)
        c = rng.randint(0, 4)
        if c == 0:
            del j[k]
        elif c == 1:
            j[k] = rng.choice([None, [], {}, 0, "", True, [j[k]], {"__entity": {}}, {"__extn": {"fn": "isIpv4", "args": []}}])
        elif c == 2:
            j[rng.choice(["", "x", "__entity", "__extn", "type", "id"])] = j[k]
        else:
            j[k] = mutate_json(rng, j[k], depth + 1)
        return j
    if isinstance(j, list) and j and rng.random() < 0.7:
        j = list(j)
        i = rng.randrange(len(j))
        c = rng.randint(0, 3)
        if c == 0:
            del j[i]
        elif c == 1:
            j.append(j[i])
        else:
            j[i] = mutate_json(rng, j[i], depth + 1)
        return j
    return rng.choice([None, [], {}, 0, -1, 2 ** 63, "", "a", True, 1e308, [j], {"a": j}])


EXT_VALID = {
    "decimal": ["1.5", "-0.0", "922337203685477.5807", "-922337203685477.5808", "0.0001"],
    "ip": ["1.2.3.4", "10.0.0.0/8", "::1", "ffee::/64", "1:2:3:4:5:6:7:8/128", "255.255.255.255/32"],
    "datetime": ["2024-02-29", "1970-01-01T00:00:00Z", "2024-12-31T23:59:59.999Z", "2000-01-01T01:02:03+0530",
                 "0000-01-01T00:00:00.000-2359", "9999-12-31T23:59:59.999+0000"],
    "duration": ["1d2h3m4s5ms", "-1ms", "9223372036854775807ms", "-9223372036854775808ms", "0s", "106751991167d"],
}
UNI_DIGITS = "\u0660\u0663\u0669\u06f1\u0967\uff10\uff19\U0001d7ce\u00b2\u2460"


def ext_string_case(rng):
    """extension constructor applied to valid / boundary / mutated strings (Unicode digits,
       multi-byte characters at regex-group boundaries, overlong inputs)"""
    fn = rng.choice(list(EXT_VALID))
    t = rng.choice(EXT_VALID[fn])
    for _ in range(rng.choice([0, 1, 1, 2, 3])):
        c = rng.randint(0, 5)
        pos = rng.randrange(len(t) + 1)
        if c == 0 and t:
            pos = min(pos, len(t) - 1)
            t = t[:pos] + rng.choice(UNI_DIGITS) + t[pos + 1:]
        elif c == 1:
            t = t[:pos] + rng.choice(["9", "0", ":", ".", "-", "+", "/", "T", "Z", "d", "ms", " ", "\u00e9", "\U0001F600", "\u0000"]) + t[pos:]
        elif c == 2 and t:
            pos = min(pos, len(t) - 1)
            t = t[:pos] + t[pos + 1:]
        elif c == 3:
            t = t + t
        elif c == 4 and t:
            pos = min(pos, len(t) - 1)
            t = t[:pos] + rng.choice("0123456789abcdefABCDEF:./") + t[pos + 1:]
        else:
            t = t[:pos] + str(rng.choice([0, 9, 99, 255, 256, 999, 65535, 2 ** 63])) + t[pos:]
    call = "%s(%s)" % (fn, cedar.str_lit(t))
    meth = {"decimal": [".lessThan(decimal(\"1.0\"))"], "ip": [".isLoopback()", ".isInRange(ip(\"::/0\"))", ".isIpv4()"],
            "datetime": [".toDate()", ".toTime()", ".offset(duration(\"1ms\"))", ".durationSince(datetime(\"1970-01-01\"))"],
            "duration": [".toDays()", ".toMilliseconds()"]}[fn]
    return call + rng.choice(meth + [""]) + rng.choice(["", " == " + call])


def ext_systematic():
    """every single-character substitution / insertion / deletion of every valid extension string,
       over a small alphabet that includes non-ASCII digits and multi-byte characters"""
    out = []
    alphabet = ["\u0663", "\uff13", "\U0001d7d1", "0", "9", ":", ".", "-", "+", "/", "Z", "T", "d", "m", "s", " ", "\u00e9"]
    for fn, seeds in EXT_VALID.items():
        for t in seeds:
            variants = {t}
            for i in range(len(t) + 1):
                for a in alphabet:
                    variants.add(t[:i] + a + t[i:])
                    if i < len(t):
                        variants.add(t[:i] + a + t[i + 1:])
                if i < len(t):
                    variants.add(t[:i] + t[i + 1:])
            for v in sorted(variants):
                out.append({"kind": "expr_text", "data": "%s(%s)" % (fn, cedar.str_lit(v))})
    return out


def nest(rng, kind):
    d = rng.randint(20, 48)
    if kind == "policy_text":
        return "permit(principal, action, resource) when { " + "(" * d + "1" + ")" * d + rng.choice(["", " + " + "-" * 3 + "1", " == " + "!" * 4 + "true"]) + " };"
    if kind == "json":
        return json.dumps({"a": 1})
    return "[" * d + "]" * d


def generate(rng, n):
    cases = []
    w = gen.World(rng)
    g = gen.ExprGen(w, rng, allow_slots=True)

    def policy_text():
        conds = []
        for _ in range(rng.choice([0, 1, 1, 2])):
            for _try in range(5):
                e = g.gen("bool", rng.randint(1, 4))
                try:
                    conds.append("%s { %s }" % (rng.choice(["when", "unless"]), cedar.expr_text(e)))
                    break
                except cedar.NotExpressible:
                    continue
        scope = rng.choice(["principal, action, resource", 'principal == User::"alice", action in [Action::"view"], resource is Photo',
                            "principal == ?principal, action, resource in ?resource", 'principal is User in Group::"g", action == Action::"edit", resource'])
        return '@id("x")\n%s(%s) %s;' % (rng.choice(["permit", "forbid"]), scope, " ".join(conds))

    for i in range(n):
        c = rng.randint(0, 19)
        mut = rng.random()
        if c < 5:
            t = "\n".join(policy_text() for _ in range(rng.choice([1, 1, 2, 3])))
            if rng.random() < 0.05:
                t = nest(rng, "policy_text")
            data = t if mut < 0.35 else mutate_bytes(rng, t)
            cases.append({"kind": "policy_text", "data": data})
        elif c < 7 and rng.random() < 0.5:
            cases.append({"kind": "expr_text", "data": ext_string_case(rng)})
        elif c < 7:
            for _try in range(5):
                try:
                    t = cedar.expr_text(g.gen(None, rng.randint(1, 5)))
                    break
                except cedar.NotExpressible:
                    t = "1"
            cases.append({"kind": "expr_text", "data": t if mut < 0.3 else mutate_bytes(rng, t)})
        elif c < 9:
            t = rng.choice(SCHEMA_CEDAR_SEEDS)
            cases.append({"kind": "schema_cedar", "data": t if mut < 0.15 else mutate_bytes(rng, t)})
        elif c < 11:
            j = rng.choice(SCHEMA_JSON_SEEDS)
            if mut < 0.15:
                data = json.dumps(j)
            elif mut < 0.7:
                data = json.dumps(mutate_json(rng, mutate_json(rng, j) if rng.random() < 0.3 else j))
            else:
                data = mutate_bytes(rng, json.dumps(j))
            cases.append({"kind": "schema_json", "data": data})
        elif c < 13:
            j = rng.choice(ENTITIES_SEEDS + [cedar.entities_json(w.entities)])
            if mut < 0.15:
                data = json.dumps(j)
            elif mut < 0.5:
                data = json.dumps(mutate_json(rng, j))
            elif mut < 0.7:
                data = json.dumps([{"uid": {"type": "User", "id": "a"}, "attrs": {"x": gen_value_json(rng, 3)}, "parents": [], "tags": {"t": gen_value_json(rng, 2)}}])
            else:
                data = mutate_bytes(rng, json.dumps(j))
            cases.append({"kind": "entities_json", "data": data})
        elif c < 14:
            j = rng.choice(CONTEXT_SEEDS)
            data = json.dumps(j) if mut < 0.2 else (json.dumps({"a": gen_value_json(rng, 3)}) if mut < 0.6 else json.dumps(mutate_json(rng, j)))
            cases.append({"kind": "context_json", "data": data})
        elif c < 17:
            j = gen_est_policy(rng)
            if mut > 0.8:
                j = mutate_json(rng, j)
            if rng.random() < 0.1:
                j = {"staticPolicies": {"a": j}, "templates": {}, "templateLinks": []}
            cases.append({"kind": "policy_json", "data": json.dumps(j)})
        elif c < 18:
            j = rng.choice(FFI_AUTH_SEEDS)
            data = json.dumps(j) if mut < 0.2 else (json.dumps(mutate_json(rng, j)) if mut < 0.8 else mutate_bytes(rng, json.dumps(j)))
            cases.append({"kind": rng.choice(["ffi_authorize", "ffi_misc"]), "data": data})
        elif c < 19:
            j = rng.choice(FFI_VALIDATE_SEEDS)
            data = json.dumps(j) if mut < 0.2 else json.dumps(mutate_json(rng, j))
            cases.append({"kind": "ffi_validate", "data": data})
        else:
            cases.append({"kind": rng.choice(["proto_policyset", "proto_entities"]),
                          "data": [rng.randint(0, 255) for _ in range(rng.randint(0, 40))] if mut < 0.5 else
                          mutate_bytes(rng, bytes([10, 12, 10, 2, 112, 48, 18, 6, 8, 0, 16, 0, 24, 0]))})
    return cases


# ------------------------------------------------------------------ proof part: site correspondence
# The checked (explicit-panic) transcriptions of coq/model/NoPanic.v are run against the implementation.
ALPHA = [ord("a"), ord("b"), ord("c"), ord("A"), 0xE9, 0x4E2D, 0x1F600, ord(":"), ord("_")]
IDENTS = ["principal", "Principal", "resource", "action", "context", "User", "Users", "user", "Group", "Photo", "Album",
          "owner", "ownr", "owners", "naïve", "größe", "café", "名前", "名", "😀x", "ns::User", "NS::Usr", "a", "ab", "ba", ""]
IP_STRS = ["0.0.0.0/0", "10.1.2.3", "10.0.0.0/8", "255.255.255.255/32", "127.0.0.1/31", "192.168.0.1/33", "1.2.3.4/032",
           "::/0", "::1", "::1/128", "ff00::/8", "1:2:3:4::", "1:2:3:4::/64", "ffff:ffff:ffff:ffff:ffff:ffff:ffff:ffff/127",
           "::/129", "::ffff:1.2.3.4", "1.2.3.4/", "/8", "1.2.3/8", "10.1.2.3/1", "128.0.0.0/1", "fe80::1/10",
           # multi-byte characters around ':' and '.' (byte offsets of the slicing in contains_at_least_two)
           "\u00e9:\u00e9:1.2.3", "1.2.3.4:\u00e9", "::\u4e2d::1.1", "\U0001F600.\U0001F600.:", ":\U0001F600:", ".\u00e9.", "\u00e9:", ":\u00e9",
           "1:2::3.4\u00e9", "\u4e2d\u4e2d\u4e2d\u4e2d\u4e2d\u4e2d\u4e2d\u4e2d\u4e2d\u4e2d\u4e2d\u4e2d\u4e2d\u4e2d:.:."]
EXTN_FNS = ["decimal", "ip", "datetime", "duration", "isIpv4", "isIpv6", "isLoopback", "isMulticast", "isInRange", "lessThan",
            "lessThanOrEqual", "greaterThan", "greaterThanOrEqual", "offset", "durationSince", "toDate", "toTime",
            "toMilliseconds", "toSeconds", "toMinutes", "toHours", "toDays", "nosuchfn", "isipv4"]


def rand_word(rng, maxlen=7):
    return [rng.choice(ALPHA) for _ in range(rng.randint(0, maxlen))]


def site_cases(rng, tier):
    """(model command as S-expression, harness command) pairs"""
    out = []
    n = 1 if tier == "quick" else 12
    words = [[ord(c) for c in w] for w in IDENTS]
    # fuzzy search: every identifier as key against rotating candidate lists, three thresholds; random words
    for k in words:
        for _ in range(2 * n):
            lst = rng.sample(words, rng.randint(0, 5)) + [rand_word(rng) for _ in range(rng.randint(0, 2))]
            rng.shuffle(lst)
            mx = rng.choice([None, None, 0, 1, 2, 3, 10])
            out.append(([Sym("np_fuzzy"), Str(k), [Str(w) for w in lst], Sym("none") if mx is None else mx],
                        {"cmd": "np_fuzzy", "key": k, "words": lst, "max": mx}))
    for _ in range(300 * n):
        a, b = rand_word(rng, 9), rand_word(rng, 9)
        if rng.random() < 0.4 and a:      # near misses: edit a copy
            b = list(a)
            for _e in range(rng.randint(0, 3)):
                r = rng.random()
                pos = rng.randint(0, len(b))
                if r < 0.35:
                    b.insert(pos, rng.choice(ALPHA))
                elif r < 0.7 and b:
                    b.pop(min(pos, len(b) - 1))
                elif b:
                    b[min(pos, len(b) - 1)] = rng.choice(ALPHA)
        out.append(([Sym("np_lev"), Str(a), Str(b)], {"cmd": "np_lev", "a": a, "b": b}))
    # wildcard: patterns over {a, b, *} with multi-byte text
    pal = [ord("a"), ord("b"), 0x1F600, "star", "star"]
    for _ in range(400 * n):
        pat = [rng.choice(pal) for _ in range(rng.randint(0, 6))]
        text = [rng.choice([ord("a"), ord("b"), 0x1F600]) for _ in range(rng.randint(0, 7))]
        out.append(([Sym("np_like"), [Sym("star") if e == "star" else e for e in pat], Str(text)],
                    {"cmd": "np_like", "pattern": pat, "text": text}))
    # isInRange: all pairs of the address table (prefix 0, full prefix, out-of-range prefixes, both families)
    for a in IP_STRS:
        for b in IP_STRS:
            out.append(([Sym("np_inrange"), Str(a), Str(b)], {"cmd": "np_inrange", "a": [ord(c) for c in a], "b": [ord(c) for c in b]}))
    # display of {"__extn": {"fn", "args"}} for every function name x arity 0..3
    for f in EXTN_FNS:
        for k in range(4):
            args = [rng.randint(0, 99) for _ in range(k)]
            out.append(([Sym("np_display_extn"), Str(f), [Str(str(a)) for a in args]],
                        {"cmd": "np_display_extn", "fn": [ord(c) for c in f], "args": args}))
    return out


def norm_model(m):
    """model answer -> comparable python value"""
    if isinstance(m, list) and m and m[0] == "panic":
        return ("panic",)
    if isinstance(m, list) and m and m[0] == "ok":
        v = m[1]
        if isinstance(v, list) and v and v[0] == "some":
            return ("ok", list(v[1]))
        if v == "none":
            return ("ok", None)
        if v == "true" or v == "false":
            return ("ok", v == "true")
        if isinstance(v, (Str, tuple)):
            return ("ok", list(v))
        return ("ok", v)
    if isinstance(m, list) and m:
        return (str(m[0]),)
    return ("?", repr(m))


def norm_rust(r):
    if "panic" in r or "abort" in r:
        return ("panic",)
    if "noparse" in r:
        return ("noparse",)
    if "ok" in r:
        return ("ok", r["ok"])
    return ("?", json.dumps(r)[:200])


def run_sites(rep, rng, tier, harness):
    driver = fw.build_model_driver()
    cases = site_cases(rng, tier)
    mcmds = [c[0] for c in cases]
    mres = fw.run_model(driver, mcmds)
    rres = fw.run_rust(harness, [c[1] for c in cases])
    stats = {"cases": len(cases), "per_site": {}, "model_panics": 0, "impl_panics": 0, "differences": 0}
    for (mc, rc), m, r in zip(cases, mres, rres):
        site = rc["cmd"]
        stats["per_site"][site] = stats["per_site"].get(site, 0) + 1
        nm, nr = norm_model(m), norm_rust(r)
        if site == "np_lev" and nr == ("ok", None):
            continue        # empty key: the implementation offers no way to observe the distance
        if nm == ("panic",):
            stats["model_panics"] += 1
        if nr == ("panic",):
            stats["impl_panics"] += 1
            rep.violation({"property": PROP, "kind": "panic", "site": site, "message": r.get("panic") or r.get("abort"),
                           "input": rc, "model": repr(m), "rust": r,
                           "replay": "echo '<input>' | harness/target/debug/cedar-verif-harness"})
        elif nm != nr:
            stats["differences"] += 1
            rep.violation({"property": PROP, "kind": "correspondence", "site": site, "input": rc, "model": repr(m), "rust": r,
                           "lost": "the no-panic theorem of this site in props/C20_NoPanic.v is about a model that no longer matches the code"},
                          no_failing_input=True)
    pick = list(range(0, len(cases), max(1, len(cases) // 64)))[:64]
    stats["vm_compute_crosschecked"] = fw.coq_crosscheck([mcmds[i] for i in pick], [mres[i] for i in pick], PROP)
    stats["samples"] = [cases[i][1] for i in pick[:3]]
    return stats


def known_key(case, msg):
    return None


def run(rep, tier, seed):
    ob, dis, details, failures = (0, 0, {}, [])
    if os.path.exists(os.path.join(fw.COQ, "props", PROP_FILE + ".v")):
        ob, dis, details, failures = fw.check_props(PROP_FILE, THEOREMS)
    harness = fw.build_harness()
    rng = random.Random(seed)
    n = 6000 if tier == "quick" else 300000
    corpus = []
    cpath = os.path.join(fw.VERIF, "corpus", "C20.jsonl")
    if os.path.exists(cpath):
        corpus = [json.loads(l) for l in open(cpath) if l.strip()]
    extsys = ext_systematic()
    if tier == "quick":
        extsys = rng.sample(extsys, min(len(extsys), 6000))
    cases = corpus + extsys + generate(rng, n)
    res = fw.run_rust(harness, [dict(c, cmd="pipeline") for c in cases])
    kinds, accepted, panics = {}, {}, 0
    distinct = set()
    for c, r in zip(cases, res):
        kinds[c["kind"]] = kinds.get(c["kind"], 0) + 1
        if "done" in r:
            if "accepted" in r["done"]:
                accepted[c["kind"]] = accepted.get(c["kind"], 0) + 1
                distinct.add(fw.case_hash(c))
        elif "panic" in r or "abort" in r:
            panics += 1
            what = r.get("panic") or r.get("abort")
            rep.violation({"property": PROP, "kind": "panic" if "panic" in r else "abort", "message": what,
                           "input": c, "replay": "echo '<input with cmd=pipeline>' | harness/target/debug/cedar-verif-harness"},
                          key=panic_key(c, what))
        elif "harness_error" in r and "not run" in str(r["harness_error"]):
            pass
    for f in failures:
        rep.violation({"property": PROP, "kind": "proof obligation no longer checks", "detail": f}, no_failing_input=True)
    sites = run_sites(rep, random.Random(seed + 1), tier, harness)
    rep.coverage = {
        "explanation": "proof part: %d site-invariant theorems (props/%s.v) of which %d discharged, the checked index-level transcriptions run against fuzzy_search_limited / wildcard_match / isInRange / display of __extn on generated inputs (site_correspondence); exploration part: %d documents over %d entry-point kinds driven through parse -> print/to_json/format/validate/authorize/link/encode with all diagnostics rendered, under catch_unwind in subprocesses" % (ob, PROP_FILE, dis, len(cases), len(kinds)),
        "obligations": ob, "discharged": dis, "theorems": details, "site_correspondence": sites,
        "checker_cmd": "make -C coq props/C20_NoPanic.vo (coqc 8.16.1, Print Assumptions per theorem; coqchk in the thorough tier)",
        "evaluations": len(cases), "distinct_nontrivial": len(distinct),
        "rule": "documents: generated valid forms, structure-aware JSON mutations (drop/retype/duplicate subtree, escape objects with arities off by one), byte-level mutations, nesting up to 48; non-trivial = accepted by its entry point (so the downstream pipeline ran), distinct by hash",
        "per_kind": kinds, "accepted_per_kind": accepted, "panics": panics,
        "samples": cases[:3],
        "trusted_base": fw.TRUSTED_BASE,
    }
    rep.assumptions = ["nesting depth <= 48", "exploration is not a proof"]


def panic_key(case, msg):
    return "C20:%s:%s" % (case["kind"], str(msg)[:60])


def replay(rep, path):
    payload = json.load(open(path))
    harness = fw.build_harness()
    if "detail" in payload and "input" not in payload:
        print(json.dumps(payload, indent=1))
        return
    if "site" in payload:           # site correspondence: re-run the np_* command as recorded and compare with the model
        r = fw.run_rust(harness, [payload["input"]])
        print("implementation now: " + json.dumps(r[0]))
        print("model (recorded):   " + str(payload.get("model")))
        if "panic" in r[0] or "abort" in r[0] or json.dumps(r[0], sort_keys=True) == json.dumps(payload.get("rust"), sort_keys=True):
            rep.violation(payload, no_failing_input=(payload.get("kind") == "correspondence"))
        return
    r = fw.run_rust(harness, [dict(payload["input"], cmd="pipeline")])
    print(json.dumps(r))
    if "panic" in r[0] or "abort" in r[0]:
        rep.violation(payload)
