"""C19 — JSON/FFI, stateful-cache and CLI front ends give exactly the API answers.
   Proof: props/C19_Ffi.v (cache state machine, id assignment, exit-code table).
   Oracle on the implementation (harness family `ffi`, one fresh thread per history):
     * every FFI entry point next to the plain Rust API on the same documents;
     * the same policies/schema in every accepted shape give the same answer;
     * every stateful call == the stateless call on the sources last successfully registered
       under the names it uses (second pass), "not found" otherwise;
     * CLI (prebuilt `cedar` binary): exit status and printed decision vs. the FFI answer.
   Correspondence: model `trace` (Ffi.v) on the same history with the parse bits reported by the
   implementation; model id assignment; model exit-code table."""
import copy
import json
import os
import random
import re
import shutil
import subprocess

import clibuild
import framework as fw
from sx import Str, Sym

PROP = "C19"
PROP_FILE = "C19_Ffi"
THEOREMS = ["c19_stateful", "c19_stateful_final", "c19_stateful_depends_only", "c19_failed_preparse_noop",
            "c19_auth_readonly", "c19_names_independent", "c19_assembly_ids", "c19_assembly_text_ok",
            "c19_assembly_set_fails", "c19_assembly_set_refuted", "c19_exit_code", "c19_exit_code_validate"]

# finding: `staticPolicies` as a JSON array ("Multiple policies as a set") of two policies of the same
# kind is always rejected (every element gets the default id)
KEY_ARRAY = "C19-ffi-static-policies-array-default-id-collision"

MANIFEST = {
    "text": "The stateful FFI cache as a state machine over arbitrary parser/authorizer oracles: every stateful call of every history answers as the stateless call on the sources last successfully registered under its names (invariant over fold_left step), failed pre-parses and authorization calls leave the state unchanged, names do not interfere; ids assigned to policies given as one text are policy<i> by position, pairwise distinct (assembly cannot fail), while an array of >= 2 policies always collides on policy0; CLI exit-code table. Tied to /repo by differential execution of every ffi entry point against the plain Rust API on the same documents in every accepted shape, by replaying generated call histories (re-registration, failing registrations, unknown names, interleaved names) on one thread and comparing each stateful answer with the stateless answer on the registered sources, and by running the cedar CLI binary.",
    "technique": "proof (Coq, invariant over call histories; parser and authorizer are Section variables) + differential execution FFI vs API + metamorphic shape equivalence + CLI runs",
    "note": "thread-local storage across threads and the wasm bindings are outside the model; the CLI binary is rebuilt from the current source (harness/target-cli)",
}

# ------------------------------------------------------------------ vocabulary

SCHEMA_CEDAR = {
    "v1": 'entity Group;\nentity User in [Group] { age: Long, name?: String };\nentity Doc { owner: User, public: Bool };\n'
          'action view, edit appliesTo { principal: [User], resource: [Doc], context: { n: Long, ip?: ipaddr } };\n',
    # n is a String here: the same request validates under v1 and not under v2 (and vice versa)
    "v2": 'entity Group;\nentity User in [Group] { age: Long, name?: String };\nentity Doc { owner: User, public: Bool };\n'
          'action view, edit appliesTo { principal: [User], resource: [Doc], context: { n: String, ip?: ipaddr } };\n',
    # no `edit`, Doc has no owner
    "v3": 'entity Group;\nentity User in [Group] { age: Long, name?: String };\nentity Doc { public: Bool };\n'
          'action view appliesTo { principal: [User, Group], resource: [Doc], context: { n: Long, ip?: ipaddr } };\n',
}


def schema_json(v):
    ctx_n = {"v1": "Long", "v2": "String", "v3": "Long"}[v]
    doc_attrs = {"public": {"type": "Boolean"}}
    if v != "v3":
        doc_attrs["owner"] = {"type": "Entity", "name": "User"}
    applies = {"principalTypes": ["User"] if v != "v3" else ["User", "Group"], "resourceTypes": ["Doc"],
               "context": {"type": "Record", "attributes": {"n": {"type": ctx_n},
                                                            "ip": {"type": "Extension", "name": "ipaddr", "required": False}}}}
    actions = {"view": {"appliesTo": applies}}
    if v != "v3":
        actions["edit"] = {"appliesTo": copy.deepcopy(applies)}
    return {"": {"entityTypes": {
        "Group": {},
        "User": {"memberOfTypes": ["Group"], "shape": {"type": "Record", "attributes": {
            "age": {"type": "Long"}, "name": {"type": "String", "required": False}}}},
        "Doc": {"shape": {"type": "Record", "attributes": doc_attrs}}},
        "actions": actions}}


BAD_SCHEMAS = ['entity User in [Nope];', 'entity User {', {"": {"entityTypes": {"User": {"memberOfTypes": ["Ghost"]}}, "actions": {}}},
               {"": {"entityTypes": 3}}, 'action view appliesTo { principal: [User], resource: [Doc] };', 17]

USERS = ["alice", "bob", "carol"]
GROUPS = ["g1", "g2"]
DOCS = ["d1", "d2"]


def uidj(t, i):
    return {"type": t, "id": i}


def uidt(t, i):
    return '%s::"%s"' % (t, i)


# policy bodies (Cedar text); all static
BODIES = [
    'permit(principal, action, resource);',
    'permit(principal == User::"alice", action == Action::"view", resource);',
    'permit(principal == User::"bob", action, resource);',
    'forbid(principal, action, resource) when { context.n > 5 };',
    'permit(principal in Group::"g1", action, resource);',
    'permit(principal, action, resource) when { resource.owner == principal };',
    'forbid(principal, action, resource) when { resource.public };',
    'permit(principal, action, resource) when { context.ip.isLoopback() };',
    'permit(principal, action in [Action::"view", Action::"edit"], resource) when { principal.age >= 18 };',
    'forbid(principal, action, resource) unless { context has n };',
    'permit(principal, action == Action::"edit", resource is Doc) when { principal has name && principal.name like "a*" };',
    'forbid(principal == User::"carol", action, resource in Doc::"d1");',
    'permit(principal, action, resource) when { context.n == "seven" };',
    'forbid(principal, action, resource) when { principal.age + 9223372036854775807 > 0 };',
    '@reason("x")\npermit(principal is User, action, resource) unless { resource.owner.age < 3 };',
]
TEMPLATES = [
    ('permit(principal == ?principal, action, resource);', ["?principal"]),
    ('forbid(principal, action, resource in ?resource) when { context.n < 0 };', ["?resource"]),
    ('permit(principal in ?principal, action, resource == ?resource);', ["?principal", "?resource"]),
    ('forbid(principal == ?principal, action, resource) unless { context.n < 100 };', ["?principal"]),
]
BAD_BODIES = ['permit(principal, action, resource)', 'permit(principal, action);', 'permit(principal,action,resource) when { 1 + };',
              'allow(principal, action, resource);', 'permit(principal == ?principal, action, resource);', '']


class Gen:
    def __init__(self, rng, body_json, tmpl_json):
        self.rng = rng
        self.body_json = body_json     # body text -> EST JSON (obtained from the implementation, pass 0)
        self.tmpl_json = tmpl_json

    # ---- requests / entities / contexts
    def entities(self, with_parents=True, owner=True):
        rng = self.rng
        es = []
        for g in GROUPS:
            if rng.random() < 0.8:
                es.append({"uid": uidj("Group", g), "attrs": {}, "parents": []})
        for u in USERS:
            if rng.random() < 0.85:
                attrs = {"age": rng.choice([2, 17, 18, 40])}
                if rng.random() < 0.5:
                    attrs["name"] = rng.choice(["alice", "al", "bob"])
                ps = [uidj("Group", g) for g in GROUPS if rng.random() < 0.4] if with_parents else []
                es.append({"uid": uidj("User", u), "attrs": attrs, "parents": ps})
        for d in DOCS:
            if rng.random() < 0.85:
                owner_ = rng.choice(USERS)
                attrs = {"public": rng.random() < 0.3}
                if owner:
                    attrs["owner"] = rng.choice([uidj("User", owner_), {"__entity": uidj("User", owner_)}])
                es.append({"uid": uidj("Doc", d), "attrs": attrs, "parents": []})
        rng.shuffle(es)
        return es

    def context(self, sv=None):
        rng = self.rng
        c = {}
        r = rng.random()
        p_long = 0.1 if sv == "v2" else 0.85
        if r < 0.93:
            if rng.random() < p_long:
                c["n"] = rng.choice([0, 3, 6, 7, -1, 200])
            else:
                c["n"] = rng.choice(["seven", "x"])
        if rng.random() < 0.4:
            c["ip"] = rng.choice(["127.0.0.1", "10.0.0.1", {"__extn": {"fn": "ip", "arg": "127.0.0.1"}}, "::1"])
        return c

    def request(self, sv=None):
        rng = self.rng
        return {"principal": uidj("User", rng.choice(USERS)) if rng.random() < 0.93 else uidj("Group", "g1"),
                "action": uidj("Action", rng.choice(["view", "view", "view", "edit"] if sv != "v3" else ["view"] * 9 + ["edit"])),
                "resource": uidj("Doc", rng.choice(DOCS)),
                "context": self.context(sv)}

    # ---- policy sets: abstract = list of (id, body) + templates + links, rendered in a shape
    def abstract_pset(self, nmax=5, templates=True):
        rng = self.rng
        n = rng.choice([0, 1, 1, 2, 2, 3, 3, 4, nmax])
        bodies = [rng.choice(BODIES) for _ in range(n)]
        tm, links = {}, []
        if templates and rng.random() < 0.4:
            for k in range(rng.randint(1, 2)):
                t, slots = rng.choice(TEMPLATES)
                tid = "T%d" % k
                tm[tid] = (t, slots)
                for j in range(rng.randint(0, 2)):
                    vals = {}
                    for s in slots:
                        if s == "?principal":
                            vals[s] = rng.choice([uidj("User", rng.choice(USERS)), uidj("Group", rng.choice(GROUPS))])
                        else:
                            vals[s] = uidj("Doc", rng.choice(DOCS))
                    links.append({"templateId": tid, "newId": "L%d_%d" % (k, j), "values": vals})
        return {"bodies": bodies, "templates": tm, "links": links}

    def render_pset(self, ab, shape, tshape=None):
        """shape: text | map_text | map_json | map_mixed | set (array)"""
        rng = self.rng
        out = {}
        bodies = ab["bodies"]
        if shape == "text":
            out["staticPolicies"] = "\n".join(bodies)
        elif shape == "set":
            out["staticPolicies"] = [b if rng.random() < 0.5 else self.body_json[b] for b in bodies]
        else:
            m = {}
            for i, b in enumerate(bodies):
                j = shape == "map_json" or (shape == "map_mixed" and rng.random() < 0.5)
                m["policy%d" % i] = self.body_json[b] if j else b
            # JSON objects are unordered: shuffle the key order
            items = list(m.items())
            rng.shuffle(items)
            out["staticPolicies"] = dict(items)
        if ab["templates"]:
            out["templates"] = {tid: (self.tmpl_json[t] if (tshape or shape) in ("map_json",) else t)
                                for tid, (t, _) in ab["templates"].items()}
        if ab["links"]:
            out["templateLinks"] = copy.deepcopy(ab["links"])
        if not bodies and rng.random() < 0.3:
            out.pop("staticPolicies", None)
        return out

    def bad_pset(self):
        rng = self.rng
        ab = self.abstract_pset(3)
        k = rng.randrange(9)
        ps = self.render_pset(ab, rng.choice(["text", "map_text"]))
        if k == 0:
            ps["staticPolicies"] = "\n".join(ab["bodies"] + [rng.choice(BAD_BODIES[:4])])
        elif k == 1:
            ps["staticPolicies"] = {"a": rng.choice(BAD_BODIES), "b": BODIES[0], "c": rng.choice(BAD_BODIES)}
        elif k == 2:
            ps["staticPolicies"] = ab["bodies"] + [BODIES[0], BODIES[1]]          # array of >= 2: policy0 twice
        elif k == 3:
            ps["templateLinks"] = [{"templateId": "nope", "newId": "x", "values": {}}]
        elif k == 4:
            ps["templates"] = {"T0": TEMPLATES[0][0]}
            ps["templateLinks"] = [{"templateId": "T0", "newId": "dup", "values": {"?principal": uidj("User", "alice")}},
                                   {"templateId": "T0", "newId": "dup", "values": {"?principal": uidj("User", "bob")}}]
        elif k == 5:
            ps["templates"] = {"T0": TEMPLATES[0][0]}
            ps["templateLinks"] = [{"templateId": "T0", "newId": "l", "values": {"?resource": uidj("Doc", "d1")}}]
        elif k == 6:
            ps["templates"] = {"policy0": TEMPLATES[0][0]}                          # template id == static id
            ps["staticPolicies"] = BODIES[0]
        elif k == 7:
            ps["templates"] = {"T0": BODIES[0][:-1]}                                 # template does not parse
        else:
            ps["staticPolicies"] = TEMPLATES[0][0]                                   # a template as static text
        return ps

    def pset_source(self, p_bad=0.25):
        if self.rng.random() < p_bad:
            return self.bad_pset()
        return self.render_pset(self.abstract_pset(), self.rng.choice(["text", "text", "map_text", "map_json", "map_mixed"]))

    def schema_source(self, p_bad=0.25):
        rng = self.rng
        if rng.random() < p_bad:
            return rng.choice(BAD_SCHEMAS)
        v = rng.choice(["v1", "v1", "v1", "v1", "v2", "v2", "v3"])
        return SCHEMA_CEDAR[v] if rng.random() < 0.5 else schema_json(v)

    def auth_call(self, policies, schema=None, malformed=False, sv=None):
        rng = self.rng
        q = self.request(sv)
        call = {"principal": q["principal"], "action": q["action"], "resource": q["resource"], "context": q["context"],
                "policies": policies, "entities": self.entities(owner=(sv != "v3"))}
        if schema is not None:
            call["schema"] = schema
        r = rng.random()
        if r < 0.3:
            call["validateRequest"] = False
        elif r < 0.5:
            call["validateRequest"] = True
        if malformed:
            k = rng.randrange(8)
            if k == 0:
                call["principal"] = {"type": "User"}
            elif k == 1:
                call["action"] = {"type": "Act ion", "id": "view"}
            elif k == 2:
                call["resource"] = "Doc::\"d1\""
            elif k == 3:
                call["context"] = [1, 2]
            elif k == 4:
                call["entities"] = [{"uid": uidj("User", "alice"), "attrs": {}, "parents": []}] * 2
            elif k == 5:
                call["entities"] = {"no": "list"}
            elif k == 6:
                call["extraField"] = 1                      # rejected by deny_unknown_fields
            else:
                call["context"] = {"n": {"__extn": {"fn": "ip", "arg": "not an ip"}}}
        return call


# ------------------------------------------------------------------ comparison of one FFI answer with the API answer

def cmp_auth(ans):
    """ffi vs api for a stateless authorization; returns a reason string or None"""
    f, a = ans["ffi"], ans["api"]
    for k in ("ffi_str", "ffi_typed"):
        if canon(ans[k]) != canon(f):
            return "entry points disagree: is_authorized_json vs %s" % k
    if "bad_call" in f:
        return None
    if a is None:
        return "no API answer"
    if ("ok" in f) != ("ok" in a):
        return "FFI %s but the API %s on the same inputs" % ("answers" if "ok" in f else "fails", "answers" if "ok" in a else "fails")
    if "ok" in f:
        fo, ao = f["ok"], a["ok"]
        if fo["decision"] != ao["decision"]:
            return "decision differs"
        if fo["reasons"] != ao["reasons"]:
            return "determining policies differ"
        if [e[0] for e in fo["errors"]] != [e[0] for e in ao["errors"]]:
            return "erroring policy ids differ"
        for (i, fm), (_, am) in zip(fo["errors"], ao["errors"]):
            if not am.endswith(fm):
                return "error text for policy %s differs" % i
        if f["warnings"] != a["warnings"]:
            return "number of schema warnings differs"
        return None
    # both fail: one error per failed stage, policies contribute one per failed part
    stages = a["fail"]
    want = len([s for s in stages if s != "policies"]) + (a.get("policy_errors", 0) if "policies" in stages else 0)
    if len(f["fail"]) != want:
        return "number of reported errors differs (FFI %d, API stages %r)" % (len(f["fail"]), stages)
    for s in ("principal", "action", "resource"):
        has = any(m.startswith("failed to parse " + s) for m in f["fail"])
        if has != (s in stages):
            return "failing stage %s not reported alike" % s
    return None


def cmp_generic(op, ans):
    f, a = ans["ffi"], ans["api"]
    if "ffi_str" in ans and canon(ans["ffi_str"]) != canon(f):
        return "entry points disagree (_json vs _json_str)"
    if "bad_call" in f:
        return None
    if a is None:
        return "no API answer"
    if ("ok" in f) != ("ok" in a):
        return "FFI %s but the API %s" % ("succeeds" if "ok" in f else "fails", "succeeds" if "ok" in a else "fails")
    if "ok" in f:
        if op in ("format", "policy_to_json", "template_to_json", "policy_to_text", "template_to_text",
                  "policy_set_text_to_parts"):
            if f["ok"] != a["ok"]:
                return "converted/formatted document differs"
        elif op in ("schema_to_text", "schema_to_json"):
            if f["ok"] != a["ok"] or f["warnings"] != a["warnings"]:
                return "converted schema differs"
        elif op == "validate":
            if f["ok"] != a["ok"]:
                return "validation errors/warnings differ"
            if f["other_warnings"] != a["other_warnings"]:
                return "schema warnings differ"
    else:
        if op == "validate" and len(f["fail"]) != a["nerrors"]:
            return "number of reported errors differs"
        if op in ("preparse_pset", "check_parse_policy_set") and len(f["fail"]) != a["fail"]:
            return "number of reported errors differs"
    return None


def strip_warn(a):
    return canon({k: v for k, v in a.items() if k != "warnings"})


def canon(a):
    """error lists are collected while iterating HashMaps: their order is not part of the answer"""
    if isinstance(a, dict) and "bad_call" in a:
        return {"bad_call": True}      # serde's message carries line/column for the string entry point
    if isinstance(a, dict) and isinstance(a.get("fail"), list):
        a = dict(a)
        # which entity / policy of several offending ones is named first also depends on hash order
        a["fail"] = sorted((re.sub(r"`[^`]*`", "`_`", m) if isinstance(m, str) else repr(m)) for m in a["fail"])
    return a


# ------------------------------------------------------------------ CLI

def find_cli():
    """the CLI built from the current working tree of the repository under check"""
    return clibuild.build_cli()


def run_cli(args, cwd):
    env = dict(os.environ)
    env["NO_COLOR"] = "1"
    p = subprocess.run(args, cwd=cwd, stdout=subprocess.PIPE, stderr=subprocess.PIPE, text=True, timeout=120, env=env)
    return p.returncode, p.stdout, p.stderr


MODEL_EXIT = {"allow": 0, "deny": 2, "error": 1}


# ------------------------------------------------------------------ the check

def run(rep, tier, seed):
    ob, dis, details, failures = fw.check_props(PROP_FILE, THEOREMS)
    for f in failures:
        rep.violation({"property": PROP, "kind": "proof obligation no longer checks", "detail": f}, no_failing_input=True)
    harness = fw.build_harness()
    driver = fw.build_model_driver()
    rng = random.Random(seed)
    quick = tier == "quick"

    def viol(kind, payload, **kw):
        d = {"property": PROP, "kind": kind}
        d.update(payload)
        rep.violation(d, **kw)

    # ---------- pass 0: JSON forms of the policy bodies, produced by the implementation itself
    p0 = [{"op": "policy_to_json", "policy": b} for b in BODIES] + [{"op": "template_to_json", "policy": t} for t, _ in TEMPLATES]
    r0 = fw.run_rust(harness, [{"cmd": "ffi_history", "calls": p0}])[0]["answers"]
    body_json, tmpl_json = {}, {}
    for c, a in zip(p0, r0):
        if "ok" not in a.get("api", {}) or a["ffi"] != {"ok": a["api"]["ok"]}:
            viol("policy_to_json: FFI and API differ on a pool policy", {"call": c, "answer": a})
            return
        (body_json if c["op"] == "policy_to_json" else tmpl_json)[c["policy"]] = a["api"]["ok"]
    g = Gen(rng, body_json, tmpl_json)

    hist = {"ops": {}, "fail_stages": {}, "shapes": {}, "decisions": {"allow": 0, "deny": 0, "fail": 0, "bad_call": 0}}

    def count(d, k):
        d[k] = d.get(k, 0) + 1

    # ---------- stream 1: stateless calls, every entry point, FFI vs API; shape families
    n_fam = 350 if quick else 6000
    stateless_cmds, fam_index = [], []
    for fi in range(n_fam):
        ab = g.abstract_pset()
        sv = rng.choice([None, None, "v1", "v1", "v1", "v1", "v1", "v2", "v2", "v3"])
        base = g.auth_call(None, None, sv=sv)
        variants = []
        for shape in ("text", "map_text", "map_json", "map_mixed"):
            for sshape in (("cedar", "json") if sv else (None,)):
                c = copy.deepcopy(base)
                c["policies"] = g.render_pset(ab, shape)
                if sv:
                    c["schema"] = SCHEMA_CEDAR[sv] if sshape == "cedar" else schema_json(sv)
                variants.append((shape + "/" + str(sshape), c))
        if quick:
            variants = rng.sample(variants, min(len(variants), 4))
        for tag, c in variants:
            stateless_cmds.append({"op": "auth", "call": c})
            fam_index.append((fi, tag))
            count(hist["shapes"], tag)
    # malformed / near-miss stream
    n_bad = 300 if quick else 5000
    for _ in range(n_bad):
        r = rng.random()
        if r < 0.4:
            c = g.auth_call(g.bad_pset(), rng.choice([None, SCHEMA_CEDAR["v1"], schema_json("v2")]))
        elif r < 0.7:
            c = g.auth_call(g.pset_source(0.1), rng.choice(BAD_SCHEMAS + [SCHEMA_CEDAR["v1"]]), malformed=rng.random() < 0.5)
        else:
            c = g.auth_call(g.pset_source(0.2), g.schema_source(0.2) if rng.random() < 0.6 else None, malformed=True)
        stateless_cmds.append({"op": "auth", "call": c})
        fam_index.append((None, "malformed"))
    # array shape: every combination of text (t) / JSON (j) elements up to length 3
    set_kinds = [()] + [k for n in (1, 2, 3) for k in __import__("itertools").product("tj", repeat=n)]
    for kinds in set_kinds:
        for _ in range(2):
            bs = [rng.choice(BODIES) for _ in kinds]
            c = g.auth_call({"staticPolicies": [b if k == "t" else body_json[b] for k, b in zip(kinds, bs)]})
            stateless_cmds.append({"op": "auth", "call": c})
            fam_index.append((None, "set:" + "".join(kinds)))

    # ---------- stream 2: the other entry points
    other = []
    n_other = 60 if quick else 800
    for _ in range(n_other):
        other.append({"op": "validate", "call": {
            "schema": g.schema_source(0.15), "policies": g.pset_source(0.15),
            **({"validationSettings": {"mode": rng.choice(["strict", "permissive", "partial"])}} if rng.random() < 0.5 else {})}})
        txt = "\n".join(rng.choice(BODIES + BAD_BODIES[:3]) for _ in range(rng.randint(0, 3)))
        fc = {"policyText": txt}
        if rng.random() < 0.5:
            fc["lineWidth"] = rng.choice([0, 1, 20, 40, 80, 120])
        if rng.random() < 0.5:
            fc["indentWidth"] = rng.choice([0, 1, 2, 4, 8])
        other.append({"op": "format", "call": fc})
        other.append({"op": "check_parse_policy_set", "policies": g.pset_source(0.3)})
        other.append({"op": "check_parse_schema", "schema": g.schema_source(0.3)})
        ec = {"entities": g.entities()}
        if rng.random() < 0.6:
            ec["schema"] = g.schema_source(0.1)
        other.append({"op": "check_parse_entities", "call": ec})
        cc = {"context": g.context()}
        if rng.random() < 0.7:
            cc["schema"] = g.schema_source(0.1)
        if rng.random() < 0.7:
            cc["action"] = uidj("Action", rng.choice(["view", "edit", "nope"]))
        other.append({"op": "check_parse_context", "call": cc})
        b = rng.choice(BODIES + BAD_BODIES)
        other.append({"op": rng.choice(["policy_to_json", "policy_to_text"]), "policy": rng.choice([b, body_json.get(b, b)])})
        t = rng.choice(TEMPLATES)[0]
        other.append({"op": rng.choice(["template_to_json", "template_to_text"]), "policy": rng.choice([t, tmpl_json[t], BODIES[0], "x"])})
        other.append({"op": rng.choice(["schema_to_text", "schema_to_json"]), "schema": g.schema_source(0.25)})
        other.append({"op": "policy_set_text_to_parts",
                      "text": "\n".join(rng.choice(BODIES + [x[0] for x in TEMPLATES] + BAD_BODIES[:2]) for _ in range(rng.randint(0, 4)))})

    def batches(calls, size):
        return [{"cmd": "ffi_history", "calls": calls[i:i + size]} for i in range(0, len(calls), size)]

    def flat(res, calls, size):
        out = []
        for bi, r in enumerate(res):
            if not isinstance(r, dict) or "answers" not in r:
                viol("harness failure", {"answer": repr(r)[:2000], "calls": calls[bi * size:(bi + 1) * size][:3]}, no_failing_input=True)
                out.extend([None] * len(calls[bi * size:(bi + 1) * size]))
            else:
                out.extend(r["answers"])
        return out

    B = 20
    res1 = flat(fw.run_rust(harness, batches(stateless_cmds, B)), stateless_cmds, B)
    res2 = flat(fw.run_rust(harness, batches(other, B)), other, B)

    distinct = set()
    set_seen = {}
    fam_answers = {}
    n_eval = 0
    for c, a, (fi, tag) in zip(stateless_cmds, res1, fam_index):
        if a is None:
            continue
        n_eval += 1
        if "panic" in a or "harness_error" in a:
            viol("panic / harness error in an FFI call", {"call": c, "answer": a})
            continue
        why = cmp_auth(a)
        if why:
            viol("stateless FFI authorization differs from the Rust API: " + why, {"history": [c], "answer": a})
        f = a["ffi"]
        cls = "bad_call" if "bad_call" in f else ("fail" if "fail" in f else f["ok"]["decision"])
        count(hist["decisions"], cls)
        if "fail" in f and a["api"]:
            for s in a["api"].get("fail", []):
                count(hist["fail_stages"], s)
        if fi is not None:
            fam_answers.setdefault(fi, []).append((tag, c, f))
        if "ok" in f and (f["ok"]["reasons"] or f["ok"]["errors"]):
            distinct.add(fw.case_hash(c))
        if tag.startswith("set:") and "bad_call" not in f:
            kinds = tag[4:]
            set_seen.setdefault(kinds, []).append((c, a))
    # the same policies / schema in every accepted shape: same answer
    n_fam_cmp = 0
    for fi, lst in fam_answers.items():
        t0, c0, f0 = lst[0]
        for t, c, f in lst[1:]:
            n_fam_cmp += 1
            if strip_warn(f) != strip_warn(f0):
                viol("the same policies/schema given in two accepted shapes (%s vs %s) give different answers" % (t0, t),
                     {"history": [c0, c], "answers": [f0, f]})
                break
    for c, a in zip(other, res2):
        if a is None:
            continue
        n_eval += 1
        count(hist["ops"], c["op"])
        if "panic" in a or "harness_error" in a:
            viol("panic / harness error in an FFI call", {"call": c, "answer": a})
            continue
        why = cmp_generic(c["op"], a)
        if why:
            viol("FFI %s differs from the Rust API: %s" % (c["op"], why), {"history": [c], "answer": a})
        if "ok" in a["ffi"]:
            distinct.add(fw.case_hash(c))

    # ---------- stream 3: histories over the cache
    n_hist = 250 if quick else 5000
    histories = []
    PN = ["A", "B", "", "α β"]
    SN = ["S", "T", "A"]
    for hi in range(n_hist):
        ops = []
        L = rng.randint(4, 16)
        seenp, seens = [], []       # names a registration was attempted under so far
        for _ in range(L):
            r = rng.random()
            if r < 0.3 or not seenp:
                n = rng.choice(PN[:2] if rng.random() < 0.75 else PN)
                seenp.append(n)
                ops.append({"op": "preparse_pset", "name": n, "policies": g.pset_source(0.25)})
            elif r < 0.42:
                n = rng.choice(SN[:2] if rng.random() < 0.8 else SN)
                seens.append(n)
                ops.append({"op": "preparse_schema", "name": n, "schema": g.schema_source(0.25)})
            elif r < 0.54:
                # stateless entry points in between (both schema syntaxes): they neither see nor
                # disturb the cache
                v = rng.choice(["v1", "v2", "v3"])
                sch = rng.choice([SCHEMA_CEDAR[v], schema_json(v), g.schema_source(0.5)])
                k = rng.randrange(5)
                if k == 0:
                    ops.append({"op": "validate", "call": {"schema": sch, "policies": g.pset_source(0.2)}})
                elif k == 1:
                    ops.append({"op": "check_parse_schema", "schema": sch})
                elif k == 2:
                    ops.append({"op": "check_parse_policy_set", "policies": g.pset_source(0.3)})
                elif k == 3:
                    ops.append({"op": "check_parse_entities", "call": {"entities": g.entities(owner=(v != "v3")), "schema": sch}})
                else:
                    ops.append({"op": "auth", "call": g.auth_call(g.pset_source(0.2), sch, sv=v)})
            else:
                q = g.auth_call(None, None, malformed=rng.random() < 0.06)
                q.pop("policies")
                q["preparsedPolicySetId"] = rng.choice(seenp) if rng.random() < 0.85 else rng.choice(PN + ["Z"])
                if rng.random() < 0.5:
                    q["preparsedSchemaName"] = rng.choice(seens) if (seens and rng.random() < 0.85) else rng.choice(SN + ["Y"])
                ops.append({"op": "stateful_auth", "call": q})
        histories.append(ops)
    resh = fw.run_rust(harness, [{"cmd": "ffi_history", "calls": h} for h in histories])

    # second pass: the stateless call on the sources last successfully registered (per the
    # implementation's own success bits)
    pass2, pass2_ref, model_cmds = [], [], []
    stats = {"stateful_calls": 0, "stateful_ok": 0, "notfound": 0, "reregistered_used": 0, "failed_preparse": 0,
             "ok_preparse": 0, "discriminating": 0, "failed_after_ok_same_name": 0}
    for hi, (ops, r) in enumerate(zip(histories, resh)):
        if not isinstance(r, dict) or "answers" not in r:
            viol("harness failure", {"history": ops, "answer": repr(r)[:2000]}, no_failing_input=True)
            model_cmds.append(None)
            continue
        ans = r["answers"]
        regp, regs = {}, {}        # name -> (op index, source)
        prevp = {}
        mops = []
        srcid = 0
        for oi, (o, a) in enumerate(zip(ops, ans)):
            n_eval += 1
            if "panic" in a or "harness_error" in a:
                viol("panic / harness error in an FFI call", {"history": ops[:oi + 1], "answer": a})
                mops = None
                break
            f = a["ffi"]
            if o["op"] in ("preparse_pset", "preparse_schema"):
                why = cmp_generic(o["op"], a)
                if why:
                    viol("FFI %s differs from the Rust API: %s" % (o["op"], why), {"history": [o], "answer": a})
                ok = "ok" in f
                key = "policies" if o["op"] == "preparse_pset" else "schema"
                reg = regp if key == "policies" else regs
                if ok:
                    stats["ok_preparse"] += 1
                    if key == "policies" and o["name"] in reg:
                        prevp[o["name"]] = reg[o["name"]]
                    reg[o["name"]] = (oi, o[key])
                else:
                    stats["failed_preparse"] += 1
                    if o["name"] in reg:
                        stats["failed_after_ok_same_name"] += 1
                mops.append([Sym("pset" if key == "policies" else "schema"), Str(o["name"]), oi, bool(ok)])
            elif o["op"] != "stateful_auth":
                # a stateless entry point inside the history: FFI vs API as usual; not an op of the model
                stats["interleaved_stateless"] = stats.get("interleaved_stateless", 0) + 1
                why = cmp_auth(a) if o["op"] == "auth" else cmp_generic(o["op"], a)
                if why:
                    viol("FFI %s (inside a cache history) differs from the Rust API: %s" % (o["op"], why),
                         {"history": ops[:oi + 1], "answer": a})
                mops.append(None)
            else:
                stats["stateful_calls"] += 1
                q = o["call"]
                if "bad_call" in f:
                    # rejected before the cache is consulted; not an op of the model
                    mops.append(None)
                    continue
                pn = q["preparsedPolicySetId"]
                sn = q.get("preparsedSchemaName")
                mops.append([Sym("auth"), [Sym("some"), Str(sn)] if sn is not None else Sym("none"), Str(pn)])
                pm, sm = pn not in regp, (sn is not None and sn not in regs)
                if pm or sm:
                    stats["notfound"] += 1
                    got_pm = any(m == "preparsed policy set '%s' not found" % pn for m in f.get("fail", []))
                    got_sm = any(m == "preparsed schema '%s' not found" % sn for m in f.get("fail", []))
                    if "fail" not in f or got_pm != pm or got_sm != sm:
                        viol("stateful call on a name with no successful registration must report exactly that name as not found",
                             {"history": ops[:oi + 1], "answer": a, "missing_pset": pm, "missing_schema": sm})
                    continue
                c2 = {k: v for k, v in q.items() if k not in ("preparsedPolicySetId", "preparsedSchemaName")}
                c2["policies"] = regp[pn][1]
                if sn is not None:
                    c2["schema"] = regs[sn][1]
                pass2.append({"op": "auth", "call": c2})
                alt = None
                if pn in prevp:
                    c3 = copy.deepcopy(c2)
                    c3["policies"] = prevp[pn][1]
                    alt = len(pass2)
                    pass2.append({"op": "auth", "call": c3})
                pass2_ref.append((hi, oi, len(pass2) - (2 if alt is not None else 1), alt, regp[pn][0], regs[sn][0] if sn is not None else None))
        model_cmds.append(mops)
    res3 = flat(fw.run_rust(harness, batches(pass2, B)), pass2, B)
    used = {}
    for hi, oi, i2, alt, pidx, sidx in pass2_ref:
        a2 = res3[i2]
        f = resh[hi]["answers"][oi]["ffi"]
        used[(hi, oi)] = (pidx, sidx)
        if a2 is None:
            continue
        if strip_warn(a2["ffi"]) != strip_warn(f):
            viol("stateful_is_authorized differs from is_authorized on the policy set/schema last successfully registered under the names used",
                 {"history": histories[hi][:oi + 1], "stateful_answer": f, "stateless_call": pass2[i2], "stateless_answer": a2["ffi"],
                  "registered_at_op": {"policies": pidx, "schema": sidx}})
        if "ok" in f:
            stats["stateful_ok"] += 1
        if alt is not None:
            stats["reregistered_used"] += 1
            if res3[alt] is not None and strip_warn(res3[alt]["ffi"]) != strip_warn(a2["ffi"]):
                stats["discriminating"] += 1
                distinct.add(fw.case_hash(histories[hi][:oi + 1]))

    # ---------- correspondence with the model: the cache trace, ids, exit codes
    msx, mref = [], []
    for hi, mops in enumerate(model_cmds):
        if mops is None:
            continue
        keep = [(oi, m) for oi, m in enumerate(mops) if m is not None]
        msx.append([Sym("ffi_history"), [m for _, m in keep]])
        mref.append((hi, [oi for oi, _ in keep]))
    ids_ns = list(range(0, 13)) + [100, 101]
    for n in ids_ns:
        msx.append([Sym("ffi_ids"), Sym("text"), n])
    for kinds in set_kinds:
        msx.append([Sym("ffi_ids"), Sym("set"), [k == "j" for k in kinds]])
    for o in ("allow", "deny", "error"):
        msx.append([Sym("ffi_exit"), Sym("authorize"), Sym(o)])
    mres = fw.run_model(driver, msx)
    n_corr = 0
    for (hi, ois), mr in zip(mref, mres):
        ans = resh[hi]["answers"]
        if not isinstance(mr, list) or len(mr) != len(ois):
            viol("model trace malformed", {"history": histories[hi], "model": repr(mr)[:500]}, no_failing_input=True)
            continue
        for oi, m in zip(ois, mr):
            n_corr += 1
            f = ans[oi]["ffi"]
            tag = str(m[0])
            bad = None
            if tag == "parse":
                pass        # the bit was the oracle instantiation
            elif tag == "used":
                p = int(m[1])
                s = None if str(m[2]) == "none" else int(m[2][1])
                if used.get((hi, oi)) != (p, s):
                    bad = "model uses registrations %r, the comparison above used %r" % ((p, s), used.get((hi, oi)))
            elif tag == "notfound":
                sm, pm = str(m[1]) == "true", str(m[2]) == "true"
                fm = f.get("fail", [])
                if "fail" not in f or pm != any(x.startswith("preparsed policy set '") for x in fm) or sm != any(x.startswith("preparsed schema '") for x in fm):
                    bad = "model: not found (schema %s, policy set %s); implementation: %r" % (sm, pm, f)
            else:
                bad = "unexpected model answer %r" % (m,)
            if bad:
                viol("cache model and implementation disagree: " + bad,
                     {"history": histories[hi][:oi + 1], "model": "Ffi.step / Ffi.stateful", "rust": "ffi::stateful_is_authorized / preparse_*",
                      "theorem": "c19_stateful"}, no_failing_input=True)
    # ids by position: model vs API ids vs FFI reasons
    k = len(mref)
    idcalls = []
    for n in ids_ns:
        text = "\n".join('permit(principal, action, resource) when { %d == %d };' % (i, i) for i in range(n))
        idcalls.append({"op": "check_parse_policy_set", "policies": {"staticPolicies": text}})
        idcalls.append({"op": "auth", "call": {"principal": uidj("User", "a"), "action": uidj("Action", "view"), "resource": uidj("Doc", "d"),
                                               "context": {}, "entities": [], "policies": {"staticPolicies": text}}})
    rid = flat(fw.run_rust(harness, batches(idcalls, 40)), idcalls, 40)
    for j, n in enumerate(ids_ns):
        mr = mres[k + j]
        mids = sorted(x.text() for x in mr[0])
        aok = str(mr[1]) == "true"
        a1, a2 = rid[2 * j], rid[2 * j + 1]
        n_corr += 1
        if a1 is None or a2 is None:
            continue
        api_ids = a1["api"].get("ids", {}).get("policies")
        ffi_ids = a2["ffi"].get("ok", {}).get("reasons")
        if not aok or api_ids != mids or ffi_ids != mids:
            viol("ids assigned to %d policies given as one text" % n,
                 {"model_ids": mids, "api_ids": api_ids, "ffi_reasons": ffi_ids, "history": [idcalls[2 * j + 1]],
                  "model": "Ffi.assign_ids (Concatenated ..)", "rust": "PolicySet::from_str via ffi::StaticPolicySet::parse",
                  "theorem": "c19_assembly_ids"}, no_failing_input=(api_ids == ffi_ids))
    array_finding = None
    for j, kinds in enumerate(set_kinds):
        mr = mres[k + len(ids_ns) + j]
        m_ok = str(mr[1]) == "true"
        kk = "".join(kinds)
        for c, a in set_seen.get(kk, []):
            n_corr += 1
            f = a["ffi"]
            if ("ok" in f) != m_ok:
                viol("array of static policies (%s): the model says assembly %s" % (kk or "empty", "succeeds" if m_ok else "fails"),
                     {"history": [c], "answer": a, "model": "Ffi.assemble (SetOf ..)", "rust": "ffi::StaticPolicySet::parse",
                      "theorem": "c19_assembly_set_fails"}, no_failing_input=True)
            elif "ok" in f and sorted(x.text() for x in mr[0]) != a["api"]["ids"]["policies"]:
                viol("array of static policies (%s): ids differ from the model" % kk,
                     {"history": [c], "answer": a, "model_ids": [x.text() for x in mr[0]], "theorem": "c19_assembly_set_fails"},
                     no_failing_input=True)
            if "fail" in f and kk in ("tt", "jj") and array_finding is None:
                array_finding = (c, a)
    model_exit = {}
    for j, o in enumerate(("allow", "deny", "error")):
        model_exit[o] = int(mres[k + len(ids_ns) + len(set_kinds) + j])
    # FINDING (witness of c19_assembly_set_refuted replayed on the implementation): the documented
    # array shape rejects two well-formed policies, and the library's own conversion
    # StaticPolicySet::from(&PolicySet) produces such arrays
    two = "permit(principal,action,resource);forbid(principal,action,resource);"
    rt = fw.run_rust(harness, [{"cmd": "ffi_history", "calls": [
        {"op": "static_from_api", "text": two},
        {"op": "check_parse_policy_set", "policies": {"staticPolicies": two}},
        {"op": "check_parse_policy_set", "policies": {"staticPolicies": ["permit(principal,action,resource);", "forbid(principal,action,resource);"]}}]}])[0]["answers"]
    if "ok" in rt[1]["ffi"] and ("fail" in rt[2]["ffi"] or "fail" in rt[0]["ffi"]):
        viol("two well-formed static policies are accepted as one text but rejected as a JSON array (documented: 'Multiple policies as a set'); ffi::StaticPolicySet::from(&PolicySet) itself produces such an array",
             {"history": [{"op": "check_parse_policy_set", "policies": {"staticPolicies": ["permit(principal,action,resource);", "forbid(principal,action,resource);"]}}],
              "as_array": rt[2]["ffi"], "as_text": rt[1]["ffi"], "library_conversion_document": rt[0].get("document"),
              "library_conversion_fed_back": rt[0]["ffi"], "theorem": "c19_assembly_set_refuted",
              "location": "cedar-policy/src/ffi/utils.rs StaticPolicySet::parse, Self::Set: policy.parse(None)"},
             key=KEY_ARRAY)
    if model_exit != MODEL_EXIT:
        viol("model exit-code table changed", {"model": model_exit}, no_failing_input=True)

    # ---------- CLI
    cli = find_cli()
    cli_stats = {"binary": cli, "built_from": fw.REPO, "authorize": 0, "validate": 0, "translate": 0, "exit_codes": {}}
    if cli:
        d = os.path.join(fw.WORK, "c19_cli_%d" % seed)
        shutil.rmtree(d, ignore_errors=True)
        os.makedirs(d)
        n_cli = 40 if quick else 400
        cli_cases, cli_calls = [], []
        for i in range(n_cli):
            ab = g.abstract_pset(templates=False)
            bad = rng.random() < 0.15
            text = "\n".join(ab["bodies"]) + ("\npermit(principal, action" if bad else "")
            sv = rng.choice([None, "v1", "v1", "v1", "v2", "v3"])
            sfmt = rng.choice(["cedar", "json"])
            q = g.request(sv)
            ents = g.entities(owner=(sv != "v3"))
            call = {"principal": q["principal"], "action": q["action"], "resource": q["resource"], "context": q["context"],
                    "policies": {"staticPolicies": text}, "entities": ents}
            if sv:
                call["schema"] = SCHEMA_CEDAR[sv] if sfmt == "cedar" else schema_json(sv)
            cli_cases.append((i, text, sv, sfmt, q, ents))
            cli_calls.append({"op": "auth", "call": call})
        nv = 15 if quick else 150
        val_cases = []
        for i in range(nv):
            ab = g.abstract_pset(templates=False)
            text = "\n".join(ab["bodies"])
            sv = rng.choice(["v1", "v2", "v3"])
            sfmt = rng.choice(["cedar", "json"])
            val_cases.append((i, text, sv, sfmt))
            cli_calls.append({"op": "validate", "call": {"policies": {"staticPolicies": text},
                                                          "schema": SCHEMA_CEDAR[sv] if sfmt == "cedar" else schema_json(sv)}})
        rc = flat(fw.run_rust(harness, batches(cli_calls, B)), cli_calls, B)
        for (i, text, sv, sfmt, q, ents), call, a in zip(cli_cases, cli_calls, rc):
            if a is None:
                continue
            pf, ef, cf = os.path.join(d, "p%d.cedar" % i), os.path.join(d, "e%d.json" % i), os.path.join(d, "c%d.json" % i)
            open(pf, "w").write(text)
            json.dump(ents, open(ef, "w"))
            json.dump(q["context"], open(cf, "w"))
            args = [cli, "authorize", "--policies", pf, "--entities", ef, "--context", cf, "-v",
                    "--principal", uidt(q["principal"]["type"], q["principal"]["id"]),
                    "--action", uidt("Action", q["action"]["id"]), "--resource", uidt("Doc", q["resource"]["id"])]
            if sv:
                sf = os.path.join(d, "s%d.%s" % (i, "cedarschema" if sfmt == "cedar" else "json"))
                if sfmt == "cedar":
                    open(sf, "w").write(SCHEMA_CEDAR[sv])
                else:
                    json.dump(schema_json(sv), open(sf, "w"))
                args += ["--schema", sf, "--schema-format", sfmt]
            code, out, err = run_cli(args, d)
            cli_stats["authorize"] += 1
            count(cli_stats["exit_codes"], str(code))
            f = a["ffi"]
            cls = f["ok"]["decision"] if "ok" in f else "error"
            lines = [l.strip() for l in out.split("\n")]
            printed = "allow" if "ALLOW" in lines else ("deny" if "DENY" in lines else "error")
            bad = None
            if code != model_exit[cls]:
                bad = "exit status %d, the FFI/API response is %s (expected status %d)" % (code, cls, model_exit[cls])
            elif printed != cls:
                bad = "printed decision %s, response is %s" % (printed, cls)
            elif "ok" in f and f["ok"]["reasons"] and not all(r in lines for r in f["ok"]["reasons"]):
                bad = "determining policies printed by -v differ from %r" % (f["ok"]["reasons"],)
            if bad:
                viol("cedar authorize: " + bad, {"argv": args, "stdout": out[-3000:], "stderr": err[-1500:], "history": [call], "ffi": f})
        off = len(cli_cases)
        for (i, text, sv, sfmt), call, a in zip(val_cases, cli_calls[off:], rc[off:]):
            if a is None:
                continue
            pf = os.path.join(d, "vp%d.cedar" % i)
            open(pf, "w").write(text)
            sf = os.path.join(d, "vs%d.%s" % (i, "cedarschema" if sfmt == "cedar" else "json"))
            if sfmt == "cedar":
                open(sf, "w").write(SCHEMA_CEDAR[sv])
            else:
                json.dump(schema_json(sv), open(sf, "w"))
            args = [cli, "validate", "--policies", pf, "--schema", sf, "--schema-format", sfmt]
            code, out, err = run_cli(args, d)
            cli_stats["validate"] += 1
            count(cli_stats["exit_codes"], str(code))
            f = a["ffi"]
            want = 1 if "ok" not in f else (3 if f["ok"]["errors"] else 0)
            if code != want:
                viol("cedar validate: exit status %d, the FFI validation answer implies %d" % (code, want),
                     {"argv": args, "stdout": out[-3000:], "stderr": err[-1500:], "history": [call], "ffi": f})
        # translate-policy / translate-schema vs the FFI conversions
        for i in range(6 if quick else 40):
            b = rng.choice(BODIES)
            pf = os.path.join(d, "t%d.cedar" % i)
            open(pf, "w").write(b)
            code, out, err = run_cli([cli, "translate-policy", "--direction", "cedar-to-json", "--policies", pf], d)
            cli_stats["translate"] += 1
            try:
                doc = json.loads(out)
                got = doc.get("staticPolicies", {}).get("policy0")
            except Exception:
                got = None
            if code != 0 or got != body_json[b]:
                viol("cedar translate-policy cedar-to-json differs from ffi::policy_to_json",
                     {"argv": [cli, "translate-policy", "--direction", "cedar-to-json", "--policies", pf], "policy": b,
                      "stdout": out[-2000:], "ffi_json": body_json[b], "exit": code})
        shutil.rmtree(d, ignore_errors=True)

    nx = fw.coq_crosscheck(msx[:40], mres[:40], PROP)
    sample_h = next((h for h in histories if any(o["op"] == "stateful_auth" for o in h)), histories[0])
    rep.coverage = {
        "obligations": ob, "discharged": dis,
        "checker_cmd": "make -C coq props/%s.vo (coqc 8.16.1) + Print Assumptions" % PROP_FILE,
        "trusted_base": fw.TRUSTED_BASE, "theorems": details,
        "evaluations": n_eval + len(pass2), "distinct_nontrivial": len(distinct),
        "rule": "%d shape families (text | map of text | map of JSON | mixed, schema Cedar | JSON) + %d malformed/near-miss stateless calls, each through is_authorized_json, _json_str and the typed entry point and next to the plain API; %d calls of the other entry points (validate, format, check_parse_*, conversions); %d cache histories of 4-16 ops over 4 policy-set names and 3 schema names (30%% of the registrations fail, 8%% malformed calls, unknown names) with a second pass of stateless calls on the registered sources; non-trivial = stateless answer with a non-empty reason/error set, successful non-authorization call, or stateful call whose answer differs between the current and the previous registration of its name" % (n_fam, n_bad, len(other), n_hist),
        "traces_validated_against_impl": n_corr, "vm_compute_crosscheck_cases": nx,
        "shape_pairs_compared": n_fam_cmp,
        "decision_histogram": hist["decisions"], "fail_stage_histogram": hist["fail_stages"],
        "shape_histogram": hist["shapes"], "op_histogram": hist["ops"],
        "cache": stats, "cli": cli_stats,
        "samples": [{"history": sample_h[:6]}],
    }
    rep.assumptions = [
        "one thread per history (thread-local cache); behaviour across threads and the wasm bindings are outside the model",
        "error messages compared only by count / stage / not-found text; warnings produced by schema parsing are not part of the stateful answer (stateful_is_authorized never reports them) and are excluded from the stateful-vs-stateless comparison",
        "the model abstracts everything after the two cache look-ups as one function shared with the stateless path; that the two Rust code paths (AuthorizationCall::parse / StatefulAuthorizationCall::parse) agree is checked by the oracle only",
        "CLI: %s, rebuilt by cargo from the current working tree of %s before the runs" % (cli, fw.REPO),
    ]


def replay(rep, path):
    payload = json.load(open(path))
    print(json.dumps(payload, indent=1)[:6000])
    h = payload.get("history")
    if h:
        harness = fw.build_harness()
        r = fw.run_rust(harness, [{"cmd": "ffi_history", "calls": h}])
        print(json.dumps(r, indent=1)[:6000])
