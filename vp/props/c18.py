"""C18 — symbolic compilation against a literal symbolic environment agrees with concrete evaluation.

   Implementation-level oracle (harness command `symcc_lit`, no SMT solver): for a strictly valid policy and a
   conformant, referentially closed (request, store), the assertion lists of never_errors / always_matches /
   never_matches / matches_{equivalent,implies,disjoint} / always_allows / always_denies / implies / equivalent /
   disjoint built over `SymEnv::from_concrete_env` are lists of Boolean constants and are unsatisfiable (contain
   `false`) exactly when the concrete evaluator / authorizer says the stated relation holds; the un-optimised
   pipeline (deprecated `check_*` with a solver that is never consulted) gives the same verdict.
   Correspondence: Gallina `compile_lit` + `verify_*` (coq/model/SymLit.v) vs. the verdict triple of the Rust
   pipeline on the covered fragment (core-fragment stream)."""
import random

import cedar
import framework as fw
import tgen
from cedar import U
from sx import Sym, Str

PROP = "C18"
PROP_FILE = "C18_SymLit"
THEOREMS = ["c18_bv_arith", "c18_bv_cmp", "c18_verify", "c18_verify_pair", "c18_verify_authz",
            "c18_compile_eval_partial"]

MANIFEST = {
    "text": "Literal-term model of the SymCC term factory and compiler (coq/model/SymLit.v): 64-bit bit-vectors as Z mod 2^64 with the signed-overflow predicates the factory computes, option-lifted errors, ite folding, compile_lit for the core constructs and the verify_* assertion shapes; proved: the overflow predicates are exactly the evaluator's i64 range tests and wrapped arithmetic is exact when they are false (c18_bv_arith, c18_bv_cmp), each assertion shape reduces to [false] exactly in the case the property names (c18_verify*), and compile_lit agrees with the concrete evaluator on the covered fragment (c18_compile_eval_partial).  Tied to /repo by differential execution: `symcc_lit` compiles schema-directed strictly valid policies against SymEnv::from_concrete_env of conformant closed stores and the constant assertion lists are compared with the concrete Evaluator/Authorizer (oracle) and with the model (correspondence); both the optimised (symccopt) and the deprecated un-optimised pipeline are exercised; no solver is involved.",
    "technique": "proof (Coq) + implementation-level differential oracle + correspondence by differential execution",
    "note": "extension-type encodings, sets, records, entity attributes, `in`, tags are compared by the oracle only (not in the Gallina fragment)",
}

DANGLING_KEY = "C18:dangling-entity-reference-defaults"   # reserved (see notes/C18.md); the dangling stream is measured, not judged


# ====================================================================== tgen stream
def store_refs(rs, q, es, hints):
    out = []

    def refs(v):
        if v[0] == "prim" and v[1][0] == "entity":
            out.append(v[1][1])
        elif v[0] == "set":
            for x in v[1]:
                refs(x)
        elif v[0] == "record":
            for _, x in v[1]:
                refs(x)
    out += [q["principal"], q["resource"]]
    for _, v in q["context"]:
        refs(v)
    for e in es:
        for _, v in e["attrs"] + e.get("tags", []):
            refs(v)
        out += list(e["parents"])
    out += list(hints)
    return [u for u in out if u[1] in rs["etypes"] and rs["etypes"][u[1]]["enum"] is None]


def close_store(rng, rs, q, es, hints, rounds=8):
    """add an entity for every referenced uid that the store lacks; returns (entities, closed?)"""
    dg = tgen.DataGen(rs, rng)
    es = list(es)
    for _ in range(rounds):
        have = {e["uid"] for e in es}
        missing = [u for u in tgen.dedup(store_refs(rs, q, es, hints)) if u not in have]
        if not missing:
            return es, True
        for u in missing:
            e = dg.entity(u[1], u[2], parents=[])
            e["uid"] = u
            es.append(e)
    have = {e["uid"] for e in es}
    return es, all(u in have for u in store_refs(rs, q, es, hints))


def tgen_case(rng, sg, closed=True, npol=3):
    rs = sg.rs
    env = rng.choice(tgen.request_envs(rs))
    pols = []
    for i in range(npol):
        pols.append(tgen.gen_policy(rng, rs, well_typed=True, env=env, depth=rng.choice([2, 3, 3, 4]),
                                    allow_slots=False, pid="p%d" % i))
    hints = []
    for p in pols:
        hints += tgen.policy_uids(p)
    hints = tgen.dedup(hints)
    q, es = tgen.gen_env(rng, rs, env, hints, p_present=1.0 if closed else 0.6, with_actions=True)
    is_closed = False
    if closed:
        es, is_closed = close_store(rng, rs, q, es, hints)
    ids = [p.policy["id"] for p in pols]
    psets = [[i] for i in ids] + [ids[:2], ids]
    pairs = [[a, b] for a in range(len(psets)) for b in range(len(psets)) if a != b and rng.random() < 0.35]
    ppairs = [[a, b] for a in ids for b in ids if a != b]
    feats = sorted({f for p in pols for f in p.features})
    cmd = {"cmd": "symcc_lit", "schema": sg.js,
           "policies": [{"id": p.policy["id"], "text": tgen.policy_text(p)} for p in pols],
           "psets": psets, "pset_pairs": pairs, "policy_pairs": ppairs,
           "request": cedar.request_json(q), "entities": cedar.entities_json(es)}
    return {"stream": "tgen" if closed else "dangling", "closed": is_closed, "cmd": cmd, "features": feats, "core": None}


# ====================================================================== core-fragment stream (also sent to the model)
CORE_SCHEMA = {"": {
    "entityTypes": {"User": {"memberOfTypes": ["Group"], "shape": {"type": "Record", "attributes": {}}},
                    "Group": {"shape": {"type": "Record", "attributes": {}}},
                    "Doc": {"shape": {"type": "Record", "attributes": {}}}},
    "actions": {"view": {"appliesTo": {"principalTypes": ["User"], "resourceTypes": ["Doc"],
                                       "context": {"type": "Record", "attributes": {}}}}}}}
I64_MAX, I64_MIN = cedar.I64_MAX, cedar.I64_MIN
BOUNDARY = [0, 1, -1, 2, -2, 3, 7, I64_MAX, I64_MIN, I64_MAX - 1, I64_MIN + 1, 2 ** 31, 2 ** 32, -2 ** 32,
            3037000499, 3037000500, -3037000500, 4611686018427387904, -4611686018427387904, 2 ** 62 - 1]
CORE_IDS = ["alice", "bob", ""]
CORE_STRS = ["", "a", "ab", "a*b", "héllo", "x y"]


def L(kind, v):
    return ("lit", (kind, v))


class CoreGen:
    """typed expressions of the Gallina fragment: bool / long / string / entity literals, principal / action /
       resource, ! neg, == < <= + - *, && || if, like, is"""

    def __init__(self, rng):
        self.r = rng

    def long(self, d):
        r = self.r
        c = r.random()
        if d <= 0 or c < 0.3:
            return L("long", r.choice(BOUNDARY) if r.random() < 0.8 else r.randint(-100, 100))
        if c < 0.8:
            return ("binop", r.choice(["add", "sub", "mul"]), self.long(d - 1), self.long(d - 1))
        if c < 0.9:
            return ("unop", "neg", self.long(d - 1))
        return ("if", self.bool(d - 1), self.long(d - 1), self.long(d - 1))

    def string(self, d):
        r = self.r
        if d <= 0 or r.random() < 0.8:
            return L("string", r.choice(CORE_STRS))
        return ("if", self.bool(d - 1), self.string(d - 1), self.string(d - 1))

    def entity(self, d, ty=None):
        r = self.r
        ty = ty or r.choice(["User", "Doc"])
        c = r.random()
        if c < 0.4:
            return ("var", "principal") if ty == "User" else ("var", "resource")
        if d > 0 and c < 0.5:
            return ("if", self.bool(d - 1), self.entity(d - 1, ty), self.entity(d - 1, ty))
        return L("entity", U(ty, r.choice(CORE_IDS)))

    def bool(self, d):
        r = self.r
        c = r.random()
        if d <= 0 or c < 0.08:
            return L("bool", r.random() < 0.5)
        if c < 0.38:
            return ("binop", r.choice(["less", "lesseq", "eq"]), self.long(d - 1), self.long(d - 1))
        if c < 0.46:
            ty = r.choice(["User", "Doc"])
            return ("binop", "eq", self.entity(d - 1, ty), self.entity(d - 1, ty))
        if c < 0.5:
            return ("binop", "eq", self.string(d - 1), self.string(d - 1))
        if c < 0.54:
            return ("binop", "eq", self.bool(d - 1), self.bool(d - 1))
        if c < 0.6:
            return ("like", self.string(d - 1), r.choice(tgen.PATTERNS))
        if c < 0.64:
            return ("is", self.entity(d - 1), r.choice([("User",), ("Doc",), ("Group",)]))
        if c < 0.74:
            return ("unop", "not", self.bool(d - 1))
        if c < 0.84:
            return ("and", self.bool(d - 1), self.bool(d - 1))
        if c < 0.94:
            return ("or", self.bool(d - 1), self.bool(d - 1))
        return ("if", self.bool(d - 1), self.bool(d - 1), self.bool(d - 1))


def core_policy(pid, effect, body):
    return {"id": pid, "effect": effect, "principal": ("any",), "action": ("any",), "resource": ("any",),
            "conds": [("when", body)], "annotations": []}


def core_request(rng):
    return {"principal": U("User", rng.choice(CORE_IDS)), "action": U("Action", "view"),
            "resource": U("Doc", rng.choice(CORE_IDS)), "context": []}


def core_store(q):
    es = [{"uid": U(t, i), "attrs": [], "tags": [], "parents": []} for t in ("User", "Doc") for i in CORE_IDS]
    es.append({"uid": U("Action", "view"), "attrs": [], "tags": [], "parents": []})
    return es


def core_case(rng, bodies=None, depth=3):
    g = CoreGen(rng)
    bodies = bodies or [g.bool(depth) for _ in range(3)]
    effects = [rng.choice(["permit", "permit", "forbid"]) for _ in bodies]
    pols = [core_policy("p%d" % i, ef, b) for i, (ef, b) in enumerate(zip(effects, bodies))]
    q = core_request(rng)
    ids = [p["id"] for p in pols]
    psets = [[i] for i in ids] + ([ids[:2], ids] if len(ids) > 2 else [ids])
    pairs = [[a, b] for a in range(len(psets)) for b in range(len(psets)) if a != b and rng.random() < 0.5]
    ppairs = [[a, b] for a in ids for b in ids if a != b]
    cmd = {"cmd": "symcc_lit", "schema": CORE_SCHEMA,
           "policies": [{"id": p["id"], "text": cedar.policy_text(p)} for p in pols],
           "psets": psets, "pset_pairs": pairs, "policy_pairs": ppairs,
           "request": cedar.request_json(q), "entities": cedar.entities_json(core_store(q))}
    return {"stream": "core", "closed": True, "cmd": cmd, "features": [],
            "core": {"q": q, "bodies": bodies, "effects": effects, "psets": psets, "pairs": pairs, "ppairs": ppairs}}


def systematic_core(rng):
    """boundary arithmetic: every operator on every pair of boundary constants, compared with the exact result when
       it is representable and with a neighbour otherwise; errors in evaluated / skipped positions"""
    bodies = []
    for op in ("add", "sub", "mul"):
        for a in BOUNDARY:
            for b in BOUNDARY:
                z = {"add": a + b, "sub": a - b, "mul": a * b}[op]
                rhs = z if I64_MIN <= z <= I64_MAX else rng.choice(BOUNDARY)
                cmpop = rng.choice(["eq", "eq", "less", "lesseq"])
                bodies.append(("binop", cmpop, ("binop", op, L("long", a), L("long", b)), L("long", rhs)))
    for a in BOUNDARY:
        bodies.append(("binop", "eq", ("unop", "neg", L("long", a)), L("long", -a if a != I64_MIN else 0)))
        for b in BOUNDARY:
            bodies.append(("binop", rng.choice(["less", "lesseq"]), L("long", a), L("long", b)))
    ovf = ("binop", "less", ("binop", "add", L("long", I64_MAX), L("long", 1)), L("long", 0))
    t, f = L("bool", True), L("bool", False)
    for x in (t, f, ovf):
        for y in (t, f, ovf):
            bodies += [("and", x, y), ("or", x, y), ("unop", "not", ("and", x, y))]
            for z in (t, f, ovf):
                bodies.append(("if", x, y, z))
    # (cross-type `==` is rejected by strict validation, so it never reaches the compiler: not generated)
    cases = []
    for k in range(0, len(bodies), 3):
        cases.append(core_case(rng, bodies[k:k + 3]))
    return cases


# ---- extension-function boundary stream (oracle only: the extension encodings are outside the Gallina fragment)
EXT_DT = ["1969-12-31", "1969-12-31T23:59:59.999Z", "1969-12-30T12:00:00Z", "1970-01-01", "1970-01-02", "1970-01-01T00:00:00.001Z",
          "1600-02-29", "0000-01-01", "9999-12-31T23:59:59.999Z", "1968-01-01T00:00:00.000+0000", "1969-12-31T00:00:00.000-0100"]
EXT_DUR = ["0ms", "1ms", "-1ms", "1d", "-1d", "86399999ms", "-86400000ms", "1h", "-1h30m", "23h59m59s999ms"]
EXT_DEC = ["0.0", "-0.0001", "0.0001", "1.5", "-1.5", "922337203685477.5807", "-922337203685477.5808"]
EXT_IP = ["10.1.2.3", "10.0.0.0/8", "0.0.0.0/0", "10.0.0.0/0", "127.0.0.1", "127.0.0.0/7", "224.0.0.0/4", "::1", "::/0", "ff00::/8",
          "1:2:3:4::/64", "255.255.255.255/32"]


def ext_bodies(rng):
    dt = lambda s: 'datetime("%s")' % s  # noqa: E731
    du = lambda s: 'duration("%s")' % s  # noqa: E731
    out = []
    for a in EXT_DT:
        for d in ("0ms", "1d", "86399999ms", "12h"):
            out.append("%s.toTime() == %s" % (dt(a), du(d)))
        out += ["%s.toTime() < %s" % (dt(a), du("1d")), "%s.toTime() >= %s" % (dt(a), du("0ms")),
                "%s.toDate() <= %s" % (dt(a), dt(a)), "%s.toDate().offset(%s.toTime()) == %s" % (dt(a), dt(a), dt(a))]
        for b in rng.sample(EXT_DT, 3):
            out += ["%s.toDate() == %s" % (dt(a), dt(b)), "%s < %s" % (dt(a), dt(b)),
                    "%s.durationSince(%s) %s %s" % (dt(a), dt(b), rng.choice(["==", "<", "<="]), du(rng.choice(EXT_DUR)))]
        for d in rng.sample(EXT_DUR, 3):
            out += ["%s.offset(%s).toTime() == %s" % (dt(a), du(d), du(rng.choice(["0ms", "1d", "23h", "1ms"]))),
                    "%s.offset(%s) %s %s" % (dt(a), du(d), rng.choice(["==", "<", "<="]), dt(rng.choice(EXT_DT)))]
    for d in EXT_DUR:
        for f, ns in (("toDays", [0, 1, -1]), ("toHours", [0, 1, -1, -2, 24, 23]), ("toMinutes", [0, 60, -90, -91]),
                      ("toSeconds", [0, 86399, -86400]), ("toMilliseconds", [0, 1, -1, 86399999])):
            out.append("%s.%s() %s %d" % (du(d), f, rng.choice(["==", "<", "<="]), rng.choice(ns)))
        out.append("%s < %s" % (du(d), du(rng.choice(EXT_DUR))))
    for a in EXT_DEC:
        for b in rng.sample(EXT_DEC, 3):
            out.append('decimal("%s").%s(decimal("%s"))' % (a, rng.choice(["lessThan", "lessThanOrEqual", "greaterThan", "greaterThanOrEqual"]), b))
    for a in EXT_IP:
        out += ['ip("%s").isIpv4()' % a, 'ip("%s").isLoopback()' % a, 'ip("%s").isMulticast()' % a]
        for b in rng.sample(EXT_IP, 4):
            out.append('ip("%s").isInRange(ip("%s"))' % (a, b))
    return out


def ext_cases(rng):
    bodies = ext_bodies(rng)
    cases = []
    for k in range(0, len(bodies), 3):
        bs = bodies[k:k + 3]
        q = core_request(rng)
        ids = ["p%d" % i for i in range(len(bs))]
        pols = [{"id": i, "text": "%s(principal, action, resource) when { %s };" % (rng.choice(["permit", "permit", "forbid"]), b)}
                for i, b in zip(ids, bs)]
        psets = [[i] for i in ids] + [ids]
        pairs = [[a, b] for a in range(len(psets)) for b in range(len(psets)) if a != b and rng.random() < 0.4]
        ppairs = [[a, b] for a in ids for b in ids if a != b]
        cmd = {"cmd": "symcc_lit", "schema": CORE_SCHEMA, "policies": pols, "psets": psets, "pset_pairs": pairs,
               "policy_pairs": ppairs, "request": cedar.request_json(q), "entities": cedar.entities_json(core_store(q))}
        cases.append({"stream": "ext", "closed": True, "cmd": cmd, "features": ["ext-boundary"], "core": None})
    return cases


# ---- model side
def model_cmd(case):
    c = case["core"]
    pols = [[Sym(ef), cedar.expr_sx(b)] for ef, b in zip(c["effects"], c["bodies"])]
    q = c["q"]
    return [Sym("symlit"), cedar.uid_sx(q["principal"]), cedar.uid_sx(q["action"]), cedar.uid_sx(q["resource"]), pols,
            [[int(i[1:]) for i in ps] for ps in c["psets"]], [list(p) for p in c["pairs"]],
            [[int(a[1:]), int(b[1:])] for a, b in c["ppairs"]]]


# ====================================================================== oracle
def status(asserts):
    if asserts is None:
        return "absent"
    if any(a.startswith("nl:") for a in asserts):
        return "not_literal"
    return "unsat" if "false" in asserts else "sat"


def expect(b):
    return "unsat" if b else "sat"


def oracle(case, r, stats):
    """returns a list of (kind, detail) disagreements between the symbolic verdicts and the concrete results"""
    bad = []
    if "symenv" not in r or r["symenv"] != "ok":
        stats["symenv_err"][str(r.get("symenv", r))[:60]] = stats["symenv_err"].get(str(r.get("symenv", r))[:60], 0) + 1
        return [("symenv", r.get("symenv", r))]

    def chk(name, got_asserts, old, want_holds, where):
        st = status(got_asserts)
        stats["verdicts"][name + ":" + st] = stats["verdicts"].get(name + ":" + st, 0) + 1
        if st == "not_literal":
            bad.append(("not_literal", {"query": name, "at": where, "asserts": got_asserts}))
        elif st != expect(want_holds):
            bad.append(("verdict", {"query": name, "at": where, "asserts": got_asserts, "concrete_holds": want_holds}))
        if old is not None:
            if old is not True and old is not False:
                bad.append(("unoptimised:" + str(old), {"query": name, "at": where}))
            elif old != want_holds:
                bad.append(("unoptimised_verdict", {"query": name, "at": where, "check_returned": old,
                                                    "concrete_holds": want_holds}))

    sat, err = {}, {}
    for pid, o in r["policies"].items():
        sat[pid], err[pid] = o["eval"]["sat"], o["eval"]["err"]
        stats["eval"]["error:" + err[pid] if err[pid] else ("sat" if sat[pid] else "unsat")] = \
            stats["eval"].get("error:" + err[pid] if err[pid] else ("sat" if sat[pid] else "unsat"), 0) + 1
        if o["compile"] != "ok" or o.get("welltyped") != "ok":
            k = "%s/%s" % (o["compile"], o.get("welltyped"))
            stats["compile_err"][k] = stats["compile_err"].get(k, 0) + 1
            bad.append(("compile", {"policy": pid, "compile": o["compile"], "welltyped": o.get("welltyped")}))
            continue
        old = o.get("old", {})
        chk("never_errors", o["ne"], old.get("ne"), err[pid] is None, pid)
        chk("always_matches", o["am"], old.get("am"), sat[pid], pid)
        chk("never_matches", o["nm"], old.get("nm"), not sat[pid], pid)
    for pr, o in zip(case["cmd"]["policy_pairs"], r["policy_pairs"]):
        if "m_equivalent" not in o:
            continue
        a, b = sat[pr[0]], sat[pr[1]]
        old = o.get("old", {})
        chk("matches_equivalent", o["m_equivalent"], old.get("m_equivalent"), a == b, pr)
        chk("matches_implies", o["m_implies"], old.get("m_implies"), (not a) or b, pr)
        chk("matches_disjoint", o["m_disjoint"], old.get("m_disjoint"), not (a and b), pr)
    dec = []
    for ids, o in zip(case["cmd"]["psets"], r["psets"]):
        d = o["decision"] == "Allow"
        dec.append(d)
        stats["decisions"][o["decision"]] = stats["decisions"].get(o["decision"], 0) + 1
        if o["compile"] != "ok":
            continue
        old = o.get("old", {})
        chk("always_allows", o["aa"], old.get("aa"), d, ids)
        chk("always_denies", o["ad"], old.get("ad"), not d, ids)
    for pr, o in zip(case["cmd"]["pset_pairs"], r["pset_pairs"]):
        if "implies" not in o:
            continue
        a, b = dec[pr[0]], dec[pr[1]]
        old = o.get("old", {})
        chk("implies", o["implies"], old.get("implies"), (not a) or b, pr)
        chk("equivalent", o["equivalent"], old.get("equivalent"), a == b, pr)
        chk("disjoint", o["disjoint"], old.get("disjoint"), not (a and b), pr)
    return bad


def rust_verdicts(case, r):
    """canonical verdict structure compared with the model (core stream)"""
    out = {"pol": [], "ppairs": [], "psets": [], "pairs": []}
    if r.get("symenv") != "ok":
        return None
    for pid in sorted(r["policies"], key=lambda s: int(s[1:])):
        o = r["policies"][pid]
        if o["compile"] != "ok":
            out["pol"].append("compile_error")
        else:
            out["pol"].append((status(o["ne"]), status(o["am"]), status(o["nm"])))
    for o in r["policy_pairs"]:
        out["ppairs"].append((status(o.get("m_equivalent")), status(o.get("m_implies")), status(o.get("m_disjoint"))))
    for o in r["psets"]:
        out["psets"].append((status(o.get("aa")), status(o.get("ad"))))
    for o in r["pset_pairs"]:
        out["pairs"].append((status(o.get("implies")), status(o.get("equivalent")), status(o.get("disjoint"))))
    return out


def model_verdicts(m):
    """(ok (pols ..) (ppairs ..) (psets ..) (pairs ..)) -> same structure; verdict symbols unsat / sat"""
    if not isinstance(m, list) or not m or str(m[0]) != "ok":
        return None

    def tup(x):
        return tuple(str(y) for y in x) if isinstance(x, list) else str(x)
    return {"pol": [tup(x) for x in m[1]], "ppairs": [tup(x) for x in m[2]], "psets": [tup(x) for x in m[3]],
            "pairs": [tup(x) for x in m[4]]}


# ====================================================================== run
def describe(case, r=None):
    d = {"stream": case["stream"], "closed": case["closed"], "command": case["cmd"]}
    if r is not None:
        d["rust"] = r
    return d


def run(rep, tier, seed):
    ob, dis, details, failures = fw.check_props(PROP_FILE, THEOREMS) if THEOREMS else (0, 0, {}, [])
    harness = fw.build_harness()
    driver = fw.build_model_driver()
    rng = random.Random(seed)
    quick = tier == "quick"
    n_tgen, n_core, n_dang = (700, 500, 120) if quick else (9000, 8000, 1200)
    cases = systematic_core(rng)
    n_sys = len(cases)
    cases += [core_case(rng, depth=rng.choice([2, 3, 4])) for _ in range(n_core)]
    cases += ext_cases(rng)
    sg = None
    for i in range(n_tgen + n_dang):
        if i % 12 == 0:
            sg = tgen.gen_schema(rng, open_entities=False)
        cases.append(tgen_case(rng, sg, closed=i < n_tgen))
    res = fw.run_rust(harness, [c["cmd"] for c in cases])
    core = [i for i, c in enumerate(cases) if c["core"] is not None]
    mcmds = [model_cmd(cases[i]) for i in core]
    mres = dict(zip(core, fw.run_model(driver, mcmds)))

    stats = {"verdicts": {}, "eval": {}, "compile_err": {}, "symenv_err": {}, "decisions": {},
             "streams": {}, "nonconformant": 0, "unclosed": 0, "dangling_disagreements": 0, "dangling_cases": 0,
             "harness_error": 0, "model_compared": 0, "model_unsupported": 0}
    distinct, features = set(), {}
    dangling_reported = False
    for i, (c, r) in enumerate(zip(cases, res)):
        stats["streams"][c["stream"]] = stats["streams"].get(c["stream"], 0) + 1
        for f in c["features"]:
            features[f] = features.get(f, 0) + 1
        if "harness_error" in r or "panic" in r or "schema_error" in r:
            stats["harness_error"] += 1
            rep.violation({"property": PROP, "kind": "harness error / panic on a generated case", "case": describe(c, r)},
                          no_failing_input="panic" not in r)
            continue
        if r.get("request_valid") is not True or r.get("entities_valid") is not True:
            stats["nonconformant"] += 1          # outside the quantifier (generator slack); not judged
            continue
        distinct.add(fw.case_hash(c["cmd"]))
        if c["stream"] == "dangling" or not c["closed"]:
            st2 = {"verdicts": {}, "eval": {}, "compile_err": {}, "symenv_err": {}, "decisions": {}}
            bad = oracle(c, r, st2)
            stats["dangling_cases"] += 1
            if bad:
                stats["dangling_disagreements"] += 1
                if not dangling_reported:
                    dangling_reported = True
                    stats["dangling_sample"] = {"case": describe(c, r), "disagreements": bad[:3]}
                    # the recorded finding (known_findings.json): printed as KNOWN-FINDING, never a VIOLATION
                    rep.violation({"property": PROP, "kind": "dangling entity reference", "case": describe(c, r)}, key=DANGLING_KEY)
            continue
        bad = oracle(c, r, stats)
        for kind, detail in bad[:1]:
            rep.violation({"property": PROP,
                           "kind": "symbolic verdict over the literal environment differs from concrete evaluation: " + kind,
                           "detail": detail, "all": bad[:6], "case": describe(c, r),
                           "replay": "./check C18 --replay <this file>"})
        if c["core"] is not None:
            rv, mv = rust_verdicts(c, r), model_verdicts(mres[i])
            if mv is None:
                stats["model_unsupported"] += 1
            else:
                stats["model_compared"] += 1
                if rv != mv:
                    rep.violation({"property": PROP, "kind": "model compile_lit/verify_* differs from the Rust pipeline",
                                   "model_function": "SymLit.compile_lit / verify_*", "rust_entry": "CompiledPolicy::compile_with_custom_symenv + *_asserts",
                                   "rust": rv, "model": mv, "case": describe(c, r),
                                   "theorem_or_correspondence": "c18_compile_eval_partial / c18_verify* transfer to the code only through this correspondence"},
                                  no_failing_input=not bad)
    nx = fw.coq_crosscheck(mcmds[:40], [mres[i] for i in core[:40]], PROP) if core else 0
    for f in failures:
        rep.violation({"property": PROP, "kind": "proof obligation no longer checks", "detail": f}, no_failing_input=True)
    rep.coverage = {
        "obligations": ob, "discharged": dis,
        "checker_cmd": "make -C coq props/%s.vo (coqc 8.16.1) + Print Assumptions" % PROP_FILE,
        "trusted_base": fw.TRUSTED_BASE, "theorems": details,
        "evaluations": len(cases), "distinct_nontrivial": len(distinct),
        "rule": "distinct by hash of the whole command (schema, policies, request, entities); non-trivial = data accepted by Cedar's own schema-based request and entity validation; each case carries 2-3 policies, 4-5 policy sets, pairs of both; every verdict is obtained from the optimised pipeline (assert lists) and from the un-optimised one (check_* with an unused solver)",
        "traces_validated_against_impl": sum(stats["verdicts"].values()),
        "vm_compute_crosscheck_cases": nx,
        "systematic_cases": n_sys,
        "stream_histogram": stats["streams"], "verdict_histogram": stats["verdicts"],
        "concrete_outcome_histogram": stats["eval"], "decision_histogram": stats["decisions"],
        "compile_errors": stats["compile_err"], "symenv_errors": stats["symenv_err"],
        "nonconformant_skipped": stats["nonconformant"],
        "dangling_stream": {"cases": stats["dangling_cases"], "with_disagreement": stats["dangling_disagreements"],
                            "sample": stats.get("dangling_sample"),
                            "note": "stores with references to absent entities: the symbolizer answers absent entities with default attribute records / empty ancestor sets, the evaluator with EntityDoesNotExist / false; measured, not judged (outside the domain where the literal environment is faithful: see notes/C18.md)"},
        "model_compared": stats["model_compared"], "model_unsupported": stats["model_unsupported"],
        "policy_feature_histogram": features,
        "samples": [describe(cases[0]), describe(cases[-1])],
    }
    rep.assumptions = ["stores are referentially closed (every entity uid reachable from request, policy and store is present) and contain the schema's action entities with their declared ancestors",
                       "templates are not compiled by SymCC (static policies only); schemas without open (additional-attribute) entity shapes",
                       "error kinds are not compared (SymCC has a single `none`)"]


def replay(rep, path):
    import json
    payload = json.load(open(path))
    harness = fw.build_harness()
    cmd = payload["case"]["command"]
    r = fw.run_rust(harness, [cmd])[0]
    print(json.dumps({"policies": cmd["policies"], "request": cmd["request"]}, indent=1)[:3000])
    print(json.dumps(r, indent=1)[:4000])
    st = {"verdicts": {}, "eval": {}, "compile_err": {}, "symenv_err": {}, "decisions": {}}
    bad = oracle({"cmd": cmd}, r, st)
    if bad:
        rep.violation({"property": PROP, "kind": "replayed disagreement", "all": bad[:6], "case": payload["case"]})
