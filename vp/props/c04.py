"""C04 — hierarchy membership equals parent-reachability after any store history.
   Proof: props/C04_TC.v (closure = reachability, invariant after every successful operation and over
   every history, rejection iff cycle, queries, enforce => closed and acyclic).
   Correspondence: model (TC.v, incremental layer = the code as written, spec layer = recompute) vs
   cedar_policy::Entities::{from_entities, add_entities, upsert_entities, remove_entities} (ComputeNow,
   public API) and the core API with EnforceAlreadyComputed, on generated operation histories.
   Oracle on the implementation: after every operation the reachability relation is recomputed by an
   independent BFS from the dumped direct parents and compared with ancestors(), is_ancestor_of and
   `e in a` for all pairs over the universe (absent uids included); the direct parents are compared
   with the edit the operation must perform; accept/reject is compared with cyclicity of that edit."""
import collections
import itertools
import json
import random

import framework as fw
from sx import Sym

PROP = "C04"
PROP_FILE = "C04_TC"
KEY_REFLEXIVE = "C04:is_ancestor_of_not_reflexive_for_present_entity"
THEOREMS = ["c04_closure_correct", "c04_closure_fuel", "c04_recompute_inv", "c04_recompute_reject",
            "c04_spec_op_inv", "c04_spec_op_reject", "c04_spec_op_cycle_rejected", "c04_history",
            "c04_queries", "c04_enforce", "c04_enforce_closed", "c04_inc_edit_parents_partial",
            "c04_repair_correct", "c04_repair_sound", "c04_inc_refines_add_partial", "c04_inc_refines_remove_partial", "c04_inc_refines_upsert_partial",
            "c04_upsert_latest"]

MANIFEST = {
    "text": "Closure = reachability through direct parents (fuel proved sufficient); every successful ComputeNow operation of the spec layer and every history (fold_left) yields a store whose cached ancestors are exactly parent-reachability, acyclic, parents/indirect disjoint; rejection iff the edited parent graph has a cycle; is_ancestor_of / `e in a` / ancestor listing characterised under the invariant; enforce_tc_and_dag = Ok implies closed and acyclic (props/C04_TC.v). Tied to /repo by correspondence on operation histories (public API ComputeNow + core EnforceAlreadyComputed) against both model layers, plus an implementation-level oracle (independent BFS over the dumped direct parents, expected parent-graph edit, accept iff acyclic).",
    "technique": "proof (Coq, invariant over fold_left of store operations, saturation with measure) + correspondence by differential execution of histories",
    "note": "incremental layer (strip + repair_tc as coded): only the edit phase is proved to produce the spec edit's direct parents (c04_inc_edit_parents_partial); that repair over the touched set recomputes the closure is compared by correspondence only; SCC-based compute_tc is modelled by its contract",
}


# ------------------------------------------------------------------ independent reference (oracle side)
def bfs(parents, u):
    """nodes reachable from u by one or more parent steps; a parent without a record is a leaf"""
    out, todo = set(), list(parents.get(u, ()))
    while todo:
        x = todo.pop()
        if x not in out:
            out.add(x)
            todo.extend(parents.get(x, ()))
    return out


def cyclic(parents):
    return any(u in bfs(parents, u) for u in parents)


def expected_edit(prev_parents, prev_anc, op):
    """the parent graph the operation must produce (or the reason it must be rejected), computed from
       the store dumped before the operation.  returns (parents dict | None, reject_reason | None)"""
    kind = op["op"]
    if kind == "remove":
        p = {u: set(ps) for u, ps in prev_parents.items()}
        for r in op["uids"]:
            if r in p:
                del p[r]
                for u in p:
                    p[u].discard(r)
        return p, None
    if kind == "upsert":
        p = {u: set(ps) for u, ps in prev_parents.items()}
        for e in op["entities"]:
            p[e["uid"]] = set(e["parents"])
        return p, None
    # from / add: duplicates must be identical (same ancestor set) else rejected; first one stays
    p = {} if kind == "from" else {u: set(ps) for u, ps in prev_parents.items()}
    anc = {} if kind == "from" else {u: set(a) for u, a in prev_anc.items()}
    for e in op["entities"]:
        u, ps = e["uid"], set(e["parents"])
        if u in p:
            if anc[u] != ps:
                return None, "duplicate"
        else:
            p[u] = ps
            anc[u] = ps
    return p, None


# ------------------------------------------------------------------ generators
def closed(parents):
    return {u: set(bfs(parents, u)) for u in parents}


def rand_dag(rng, uids, density, dangling):
    order = list(uids)
    rng.shuffle(order)
    k = rng.randint(1, len(order))
    present = order[:k]
    parents = {}
    for i, u in enumerate(present):
        cands = present[i + 1:] + (order[k:] if dangling else [])
        parents[u] = {c for c in cands if rng.random() < density}
    return parents


def shape(rng, uids):
    """a parent graph over a subset of the universe"""
    c = rng.random()
    us = list(uids)
    rng.shuffle(us)
    if c < 0.15:       # chain
        k = rng.randint(2, len(us))
        return {us[i]: ({us[i + 1]} if i + 1 < k else set()) for i in range(k - (0 if rng.random() < 0.5 else 1))}
    if c < 0.3 and len(us) >= 4:      # diamond (+ tail)
        a, b, c2, d = us[:4]
        g = {a: {b, c2}, b: {d}, c2: {d}, d: set()}
        if len(us) > 4 and rng.random() < 0.5:
            g[d] = {us[4]}
        if rng.random() < 0.3:
            del g[d]                  # dangling join point
        return g
    return rand_dag(rng, us, rng.choice([0.15, 0.3, 0.5]), rng.random() < 0.5)


def add_cycle(rng, g, uids):
    n = rng.randint(1, min(5, len(uids)))
    cyc = rng.sample(list(uids), n)
    for i, u in enumerate(cyc):
        g.setdefault(u, set()).add(cyc[(i + 1) % n])


def ents_of(rng, g):
    es = [{"uid": u, "parents": sorted(ps)} for u, ps in g.items()]
    rng.shuffle(es)
    return es


def gen_history(rng, nuids, maxlen):
    uids = ["n%d" % i for i in range(nuids)]
    sim = {}          # steering only: the generator's guess of the current parent graph
    ops = []
    n = rng.randint(1, maxlen)
    for i in range(n):
        mode = "enforce" if rng.random() < 0.15 else "compute"
        r = rng.random()
        if i == 0 and r < 0.8 or r < 0.08:
            g = shape(rng, uids)
            if rng.random() < 0.12:
                add_cycle(rng, g, uids)
            if mode == "enforce" and rng.random() < 0.75:
                g = closed(g)
                if rng.random() < 0.25 and any(g.values()):
                    u = rng.choice([u for u in g if g[u]])
                    g[u].discard(rng.choice(sorted(g[u])))       # near miss: one edge dropped
            es = ents_of(rng, g)
            if es and rng.random() < 0.12:
                d = dict(rng.choice(es))
                if rng.random() < 0.5:
                    d["parents"] = sorted(set(d["parents"]) ^ {rng.choice(uids)})     # inconsistent duplicate
                es.insert(rng.randrange(len(es) + 1), d)
            ops.append({"op": "from", "mode": mode, "entities": es})
            newsim = {e["uid"]: set(e["parents"]) for e in es}
            if not cyclic(newsim):
                sim = newsim
            continue
        present = sorted(sim)
        absent = [u for u in uids if u not in sim]
        if r < 0.40:          # add
            es = []
            for _ in range(rng.choice([1, 1, 2, 3])):
                c = rng.random()
                if c < 0.15 and present:       # re-add an existing entity
                    u = rng.choice(present)
                    c2 = rng.random()
                    if c2 < 0.4:
                        ps = set(sim[u])                        # same direct parents
                    elif c2 < 0.8:
                        ps = bfs(sim, u)                        # same ancestor set: deep_eq-identical
                    else:
                        ps = set(sim[u]) ^ {rng.choice(uids)}   # conflicting
                elif absent:
                    dang = [a for a in absent if any(a in ps for ps in sim.values())]
                    u = rng.choice(dang) if dang and rng.random() < 0.5 else rng.choice(absent)
                    pool = uids if rng.random() < 0.35 else (present or uids)   # uids: may close a cycle / dangle
                    ps = {p for p in pool if rng.random() < 0.3}
                    if rng.random() < 0.9:
                        ps.discard(u)
                else:
                    continue
                if mode == "enforce" and rng.random() < 0.7:
                    tmp = dict(sim); tmp[u] = set(ps)
                    ps = bfs(tmp, u)
                es.append({"uid": u, "parents": sorted(ps)})
            if es and rng.random() < 0.08:
                es.append(dict(rng.choice(es)))
            ops.append({"op": "add", "mode": mode, "entities": es})
            new = dict(sim)
            for e in es:
                new.setdefault(e["uid"], set(e["parents"]))
            if not cyclic(new):
                sim = new
        elif r < 0.70:        # upsert
            es = []
            for _ in range(rng.choice([1, 1, 1, 2, 3])):
                u = rng.choice(present) if present and rng.random() < 0.8 else rng.choice(uids)
                c = rng.random()
                if c < 0.2:
                    ps = set()
                elif c < 0.4 and u in sim and sim[u]:
                    ps = set(sim[u]); ps.discard(rng.choice(sorted(ps)))       # drop one of the paths
                elif c < 0.6:
                    ps = {rng.choice(uids)}                                    # re-route the subtree
                else:
                    ps = {p for p in uids if rng.random() < 0.3}
                if rng.random() < 0.85:
                    ps.discard(u)
                if mode == "enforce" and rng.random() < 0.7:
                    tmp = dict(sim); tmp[u] = set(ps)
                    ps = bfs(tmp, u)
                es.append({"uid": u, "parents": sorted(ps)})
            ops.append({"op": "upsert", "mode": mode, "entities": es})
            new = dict(sim)
            for e in es:
                new[e["uid"]] = set(e["parents"])
            if not cyclic(new):
                sim = new
        else:                 # remove
            k = rng.choice([1, 1, 1, 2, 3])
            us = [rng.choice(present) if present and rng.random() < 0.8 else rng.choice(uids) for _ in range(k)]
            if rng.random() < 0.1:
                us.append(us[0])
            ops.append({"op": "remove", "mode": mode, "uids": us})
            new = {u: set(ps) for u, ps in sim.items()}
            for x in us:
                if x in new:
                    del new[x]
                    for ps in new.values():
                        ps.discard(x)
            sim = new
    return {"universe": uids, "ops": ops}


def exhaustive_small(n):
    """every from(ComputeNow) over all parent graphs on n nodes (all present), self-loops included"""
    uids = ["n%d" % i for i in range(n)]
    pairs = [(a, b) for a in uids for b in uids]
    for mask in range(1 << len(pairs)):
        g = {u: set() for u in uids}
        for i, (a, b) in enumerate(pairs):
            if mask >> i & 1:
                g[a].add(b)
        yield {"universe": uids + ["zz"], "ops": [{"op": "from", "mode": "compute",
                                                      "entities": [{"uid": u, "parents": sorted(g[u])} for u in uids]}]}


# ------------------------------------------------------------------ commands
def rust_cmd(h):
    return {"cmd": "store_history", "universe": h["universe"], "ops": h["ops"]}


def model_cmd(h, layer):
    ix = {u: i for i, u in enumerate(h["universe"])}
    ops = []
    for o in h["ops"]:
        if o["op"] == "remove":
            ops.append([Sym("remove"), Sym(o["mode"]), [ix[u] for u in o["uids"]]])
        else:
            ops.append([Sym(o["op"]), Sym(o["mode"]), [[ix[e["uid"]], [ix[p] for p in e["parents"]]] for e in o["entities"]]])
    return [Sym("store_history"), Sym(layer), list(range(len(h["universe"]))), ops]


def canon_rust(h, r):
    if "steps" not in r:
        return ("bad", json.dumps(r)[:300])
    out = []
    for st in r["steps"]:
        tag = st["res"] if st["res"] in ("ok", "cycle", "duplicate", "missing_edge") else "other"
        ents = tuple((u, tuple(ps), tuple(an)) for u, ps, an in st["ents"])
        out.append((tag, ents, tuple(st["is_ancestor_of"]), tuple(st["in"])))
    return tuple(out)


def canon_model(h, s):
    if not (isinstance(s, list) and s and s[0] == "steps"):
        return ("bad", repr(s)[:300])
    U = h["universe"]
    out = []
    for st in s[1:]:
        tag = str(st[1])
        ents = tuple(sorted((U[e[0]], tuple(sorted(U[p] for p in e[1])), tuple(sorted(U[a] for a in e[2]))) for e in st[2]))
        out.append((tag, ents, tuple("".join(str(b) for b in row) for row in st[3]),
                    tuple("".join(str(b) for b in row) for row in st[4])))
    return tuple(out)


# ------------------------------------------------------------------ implementation-level oracle
def oracle(h, r, obs=None):
    """the property stated on the Rust results; returns a description of the first failure or None"""
    if "steps" not in r:
        return "no result: %s" % json.dumps(r)[:300]
    U = h["universe"]
    prev_parents, prev_anc = {}, {}
    for i, (op, st) in enumerate(zip(h["ops"], r["steps"])):
        where = "step %d (%s/%s): " % (i, op["op"], op["mode"])
        parents = {u: set(ps) for u, ps, _ in st["ents"]}
        anc = {u: an for u, _, an in st["ents"]}
        if len(parents) != len(st["ents"]):
            return where + "an entity is listed twice"
        reach = {u: bfs(parents, u) for u in parents}
        for u in parents:
            if len(set(anc[u])) != len(anc[u]):
                return where + "parents and indirect ancestors of %s overlap: %r" % (u, anc[u])
            if u in anc[u]:
                return where + "accepted store in which %s is its own ancestor" % u
            if set(anc[u]) != reach[u]:
                stale = sorted(set(anc[u]) - reach[u])
                missing = sorted(reach[u] - set(anc[u]))
                return where + "ancestors(%s)=%r but reachable through direct parents=%r (stale %r, missing %r)" % (
                    u, sorted(anc[u]), sorted(reach[u]), stale, missing)
        for k, u in enumerate(U):
            want = sorted(reach[u]) if u in parents else None
            if st["listing"][k] != want:
                return where + "Entities::ancestors(%s) = %r, expected %r" % (u, st["listing"][k], want)
        for ai, a in enumerate(U):
            for ei, e in enumerate(U):
                want = a == e or (e in parents and a in reach[e])
                got_in = st["in"][ai][ei]
                if got_in != ("1" if want else "0"):
                    return where + "`%s in %s` evaluates to %s, reachability says %s" % (e, a, got_in, want)
                got = st["is_ancestor_of"][ai][ei]
                if got != ("1" if want else "0"):
                    if a == e and e in parents:
                        return where + "REFLEXIVE: is_ancestor_of(%s, %s) = %s for an entity present in the store; `%s in %s` is true" % (a, e, got, e, a)
                    return where + "is_ancestor_of(%s, %s) = %s, reachability says %s" % (a, e, got, want)
                if a == e and obs is not None:
                    obs["is_ancestor_of(x,x) present=%s -> %s" % (e in parents, got)] += 1
        ok = st["res"] == "ok"
        if ok and op["mode"] == "enforce":
            for u in parents:
                for p in anc[u]:
                    if p in parents and not set(anc[p]) <= set(anc[u]):
                        return where + "EnforceAlreadyComputed accepted a store that is not transitively closed at %s -> %s" % (u, p)
        # the edit: direct parents after the operation, accept iff acyclic (ComputeNow)
        exp, why = expected_edit(prev_parents, prev_anc, op)
        if ok:
            if exp is None:
                return where + "accepted although the batch contains a conflicting duplicate"
            if exp != parents:
                return where + "direct parents after the operation are %r, the operation must produce %r" % (
                    {u: sorted(v) for u, v in sorted(parents.items())}, {u: sorted(v) for u, v in sorted(exp.items())})
        else:
            if parents != prev_parents or {u: sorted(a) for u, a in anc.items()} != {u: sorted(a) for u, a in prev_anc.items()}:
                return where + "harness continued from a different store after a failed operation"
            if st["res"] == "duplicate":
                if exp is not None:
                    return where + "rejected as duplicate but no conflicting duplicate exists"
            elif st["res"] == "cycle":
                if exp is None or not cyclic(exp):
                    return where + "rejected with a cycle error but the resulting parent graph %r is acyclic" % (
                        None if exp is None else {u: sorted(v) for u, v in sorted(exp.items())})
            elif st["res"] == "missing_edge":
                if op["mode"] != "enforce":
                    return where + "missing-edge error outside EnforceAlreadyComputed"
            else:
                return where + "unexpected error %r" % st["res"]
        if op["mode"] == "compute" and exp is not None:
            if cyclic(exp) and ok:
                return where + "accepted a cyclic parent graph"
            if not cyclic(exp) and not ok:
                return where + "rejected (%s) an acyclic parent graph without conflicting duplicates" % st["res"]
        prev_parents, prev_anc = parents, {u: set(a) for u, a in anc.items()}
    if len(r["steps"]) != len(h["ops"]):
        return "number of steps differs"
    return None


def shrink(harness, h, fails):
    """drop operations / entities / parents while `fails` still holds"""
    cur = h
    budget = 150
    changed = True
    while changed and budget > 0:
        changed = False
        cands = []
        for i in range(len(cur["ops"])):
            cands.append(dict(cur, ops=cur["ops"][:i] + cur["ops"][i + 1:]))
        for i, o in enumerate(cur["ops"]):
            key = "uids" if o["op"] == "remove" else "entities"
            for j in range(len(o[key])):
                o2 = dict(o); o2[key] = o[key][:j] + o[key][j + 1:]
                cands.append(dict(cur, ops=cur["ops"][:i] + [o2] + cur["ops"][i + 1:]))
            if key == "entities":
                for j, e in enumerate(o[key]):
                    for k in range(len(e["parents"])):
                        e2 = dict(e, parents=e["parents"][:k] + e["parents"][k + 1:])
                        o2 = dict(o); o2[key] = o[key][:j] + [e2] + o[key][j + 1:]
                        cands.append(dict(cur, ops=cur["ops"][:i] + [o2] + cur["ops"][i + 1:]))
        for c in cands:
            if budget <= 0:
                break
            if not c["ops"]:
                continue
            budget -= 1
            if fails(c):
                cur = c
                changed = True
                break
    return cur


def run(rep, tier, seed):
    ob, dis, details, failures = fw.check_props(PROP_FILE, THEOREMS)
    harness = fw.build_harness()
    driver = fw.build_model_driver()
    rng = random.Random(seed)
    hs = []
    nrand = 3000 if tier == "quick" else 60000
    maxlen = 8 if tier == "quick" else 14
    for _ in range(nrand):
        hs.append(gen_history(rng, rng.choice([6, 7, 8]), maxlen))
    nex = 2 if tier == "quick" else 3
    ex = []
    for n in range(1, nex + 1):
        ex.extend(exhaustive_small(n))
    if tier != "quick":
        # all single operations after a 3-node DAG prefix: every upsert / remove of one node
        pass
    hs.extend(ex)
    # de-duplicate
    seen, uniq = set(), []
    for h in hs:
        k = fw.case_hash(h)
        if k not in seen:
            seen.add(k)
            uniq.append(h)
    hs = uniq
    rres = fw.run_rust(harness, [rust_cmd(h) for h in hs])
    mcmds_inc = [model_cmd(h, "inc") for h in hs]
    mres_inc = fw.run_model(driver, mcmds_inc)
    mres_spec = fw.run_model(driver, [model_cmd(h, "spec") for h in hs])

    obs = collections.Counter()
    stats = collections.Counter()
    opmix = collections.Counter()
    lens = collections.Counter()
    nontrivial = 0
    nviol = 0
    for h, rr, mi, ms in zip(hs, rres, mres_inc, mres_spec):
        bad = oracle(h, rr, obs)
        cr = canon_rust(h, rr)
        if bad is not None:
            nviol += 1
            if nviol <= 3:
                def fails(c):
                    return oracle(c, fw.run_rust(harness, [rust_cmd(c)])[0]) is not None
                small = shrink(harness, h, fails)
                r2 = fw.run_rust(harness, [rust_cmd(small)])[0]
                f2 = oracle(small, r2)
                rep.violation({"property": PROP, "kind": "implementation violates the property (oracle: independent BFS over dumped direct parents)",
                               "failure": f2, "history": small, "rust": r2, "rust_cmd": rust_cmd(small),
                               "original_failure": bad},
                              key=(KEY_REFLEXIVE if f2 and "REFLEXIVE:" in f2 else None))
            continue
        for layer, m, thm in (("inc", mi, "c04_inc_refines (unproved; correspondence only)"), ("spec", ms, "c04_history / c04_spec_op_inv")):
            cm = canon_model(h, m)
            if cm != cr:
                nviol += 1
                if nviol <= 3:
                    def differs(c, layer=layer):
                        a = canon_rust(c, fw.run_rust(harness, [rust_cmd(c)])[0])
                        b = canon_model(c, fw.run_model(driver, [model_cmd(c, layer)])[0])
                        return a != b
                    small = shrink(harness, h, differs)
                    a = fw.run_rust(harness, [rust_cmd(small)])[0]
                    b = canon_model(small, fw.run_model(driver, [model_cmd(small, layer)])[0])
                    rep.violation({"property": PROP, "kind": "implementation differs from the model (%s layer)" % layer,
                                   "model_function": "TC.%s_op / run_steps" % ("i" if layer == "inc" else "s"),
                                   "rust_entry": "Entities::{from_entities,add_entities,upsert_entities,remove_entities}",
                                   "theorem_transfer_lost": thm, "history": small, "rust": a, "model": repr(b)},
                                  no_failing_input=True)
                break
        if cr and cr[0] != "bad":
            lens[len(h["ops"])] += 1
            tags = [s[0] for s in cr]
            for o, t in zip(h["ops"], tags):
                opmix["%s/%s/%s" % (o["op"], o["mode"], t)] += 1
            sizes = [len(s[1]) for s in cr]
            indirect = any(len(an) > len(ps) for s in cr for (_, ps, an) in s[1])
            if indirect and len(h["ops"]) >= 2:
                nontrivial += 1
            stats["max_store_%d" % max(sizes)] += 1
    nx = fw.coq_crosscheck(mcmds_inc[:40], mres_inc[:40], PROP)
    for f in failures:
        rep.violation({"property": PROP, "kind": "proof obligation no longer checks", "detail": f}, no_failing_input=True)
    nsteps = sum(len(h["ops"]) for h in hs)
    rep.coverage = {
        "obligations": ob, "discharged": dis,
        "checker_cmd": "make -C coq props/%s.vo (coqc 8.16.1) + Print Assumptions" % PROP_FILE,
        "trusted_base": fw.TRUSTED_BASE, "theorems": details,
        "evaluations": nsteps, "histories": len(hs), "distinct_nontrivial": nontrivial,
        "rule": "%d random histories (length <= %d over 6-8 uids: chains, diamonds, random DAGs, dangling parents, cycles of length 1-5, consistent/inconsistent duplicates, re-added identical entities, removal of absent uids, upserts that re-route or cut subtrees, 15%% EnforceAlreadyComputed ops with closed / near-miss inputs) + every from_entities over all parent graphs on <= %d nodes; distinct by hash of the history; non-trivial = >= 2 operations and some state with an indirect ancestor" % (nrand, maxlen, nex),
        "exhaustive": True, "traces_validated_against_impl": len(hs), "vm_compute_crosscheck_cases": nx,
        "history_length_histogram": dict(sorted(lens.items())),
        "op_mode_result_histogram": dict(sorted(opmix.items())),
        "max_store_size_histogram": dict(sorted(stats.items())),
        "observations": dict(obs),
        "samples": [{"history": hs[0], "rust": rres[0]}],
    }
    rep.assumptions = [
        "entities of every operation are built fresh (direct parents only, no cached indirect ancestors), the public way",
        "store operations take the store by value: after a failed operation the history continues from a clone taken before the call, so 'a failed operation leaves the store unchanged' is not observable",
        "HashMap/HashSet iteration order is not modelled; results compared as sorted sets; error class only",
        "is_ancestor_of(a, b) is judged for all pairs including a == b (present and absent): it must equal a == b or a reachable from b",
    ]


def replay(rep, path):
    d = json.load(open(path))
    h = d.get("history")
    if not h:
        print(json.dumps(d)[:4000])
        return
    harness = fw.build_harness()
    driver = fw.build_model_driver()
    r = fw.run_rust(harness, [rust_cmd(h)])[0]
    bad = oracle(h, r)
    print("history:", json.dumps(h))
    print("rust:", json.dumps(r))
    print("oracle:", bad)
    for layer in ("inc", "spec"):
        m = canon_model(h, fw.run_model(driver, [model_cmd(h, layer)])[0])
        print("model(%s) agrees:" % layer, m == canon_rust(h, r))
        if m != canon_rust(h, r) and bad is None:
            rep.violation(dict(d, replayed=True), no_failing_input=True)
    if bad is not None:
        rep.violation(dict(d, replayed=True, failure=bad))
