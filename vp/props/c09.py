"""C09 — the JSON and the Cedar schema syntaxes denote the same schema.

   Proof: props/C09_SchemaSyn.v (model coq/model/SchemaSyn.v: fragments with the three reference forms,
   `resolve`, the JSON-tree codec, the Cedar-syntax view).
   Correspondence: model `resolve` on the fragment (sent as an S-expression) vs the dump of Rust's
   ValidatorSchema obtained from the fragment's JSON text (and, when expressible, its Cedar text written by
   an independent Python printer): accept/reject, error class on single-fault near misses, and the resolved
   schema.  Text-level parsing/printing (grammar.lalrpop, fmt.rs layout, serde) is correspondence-only.
   Oracle on the implementation: for every accepted schema in either syntax, translate -> load -> dump
   equals the dump of the original (both directions, and translated twice), ValidatorSchema == agrees, and
   policies / requests / entity sets derived from the schema get identical verdicts under both."""
import json
import random

import framework as fw
import schema_syn as SS
from cedar import U
from sx import Sym, Str

PROP = "C09"
PROP_FILE = "C09_SchemaSyn"
THEOREMS = ["c09_json_roundtrip", "c09_reference_form_insensitive_partial", "c09_reference_form_types_partial",
            "c09_resolve_order_independent_partial", "c09_validation_same",
            "c09_cedar_roundtrip_refuted", "c09_cedar_roundtrip_types_partial", "c09_cedar_roundtrip_refuted_action"]

MANIFEST = {
    "text": "Schema fragments with the three reference forms (Entity / CommonRef / EntityOrCommon), `resolve` transcribed from "
            "schema.rs / namespace_def.rs / raw_name.rs (RFC 70 checks, builtin aliases, conditional name resolution in priority "
            "order, common-type inlining with cycle detection, descendants closure, action hierarchy), the JSON-tree codec and the "
            "Cedar-syntax view (props/C09_SchemaSyn.v); tied to /repo by differential execution (model resolve vs the ValidatorSchema "
            "dump on generated fragments written in both syntaxes, shadowing catalogue, single-fault near misses) plus an "
            "implementation-level round-trip oracle: translate -> load -> dump equal, both directions and twice, and identical "
            "validation verdicts.",
    "technique": "proof (Coq) + correspondence by differential execution + round-trip / metamorphic oracle on the implementation",
    "note": "findings: to_cedarschema ignores entity/common-type name collisions in the EMPTY namespace (key C09:empty-ns-collision) "
            "and between a common type `Action` and the implicit action entity type (key C09:action-type-collision); "
            "drops additionalAttributes (key C09:open-record-dropped, experimental partial-validate only); drops resourceTypes/context "
            "of an action whose principalTypes (or resourceTypes) list is empty (key C09:appliesTo-empty-list).",
}

KEY_COLLISION = "C09:empty-ns-collision"
KEY_OPEN = "C09:open-record-dropped"
KEY_APPLIES = "C09:appliesTo-empty-list"
KEY_ACTION_COLLISION = "C09:action-type-collision"


# ------------------------------------------------------------------ canonical forms
def _cp(s):
    return "".join(chr(c) for c in s)


def _name(j):
    return tuple(_cp(c) for c in j)


def _ty(j):
    if j == "long":
        return ("long",)
    if j == "string":
        return ("string",)
    if j == "never":
        return ("never",)
    if "bool" in j:
        return ("bool",) if j["bool"] == "any" else ("bool", j["bool"])
    if "set" in j:
        return ("set", None if j["set"] is None else _ty(j["set"]))
    if "entity" in j:
        if j["entity"] == "any":
            return ("anyentity",)
        return ("entity", _name(j["entity"][0]))
    if "ext" in j:
        return ("ext", "::".join(_name(j["ext"])))
    if "record" in j:
        return ("record", [(_cp(a[0]), _ty(a[1]), a[2]) for a in j["record"]], j["open"])
    return ("unreadable", repr(j))


def _uid(j):
    return U(_name(j["type"]), _cp(j["id"]))


def canon_dump(d):
    ets = {}
    for e in d["entity_types"]:
        ets[_name(e["name"])] = {"attrs": [(_cp(a[0]), _ty(a[1]), a[2]) for a in e["attrs"]], "open": e["open"],
                                 "tags": None if e["tags"] is None else _ty(e["tags"]),
                                 "descendants": sorted(_name(x) for x in e["descendants"]),
                                 "enum": None if e["enum"] is None else [_cp(x) for x in e["enum"]]}
    acts = {}
    for a in d["actions"]:
        acts[_uid(a["uid"])] = {"principals": sorted(_name(x) for x in a["principals"]),
                                "resources": sorted(_name(x) for x in a["resources"]),
                                "context": _ty(a["context"]),
                                "descendants": sorted(_uid(x) for x in a["descendants"])}
    aes = {}
    if isinstance(d["action_entities"], list):
        for a in d["action_entities"]:
            aes[_uid(a["uid"])] = (sorted(_uid(x) for x in a["ancestors"]), a["nattrs"], a["ntags"])
    else:
        aes = {"error": repr(d["action_entities"])}
    return {"etypes": ets, "actions": acts, "action_entities": aes}


def outcome(r):
    """harness schema_load answer -> ('ok', canon) | ('reject', class, stage) | ('bad', repr)"""
    if "ok" in r:
        return ("ok", canon_dump(r["ok"]))
    if "error" in r:
        return ("reject", r["error"], r.get("stage"))
    return ("bad", json.dumps(r)[:400])


def diff(a, b, path=""):
    if isinstance(a, dict) and isinstance(b, dict):
        for k in sorted(set(a) | set(b), key=repr):
            if k not in a or k not in b:
                return "%s: key %r only on one side" % (path, k)
            d = diff(a[k], b[k], path + "/" + repr(k))
            if d:
                return d
        return None
    if isinstance(a, (list, tuple)) and isinstance(b, (list, tuple)):
        if len(a) != len(b):
            return "%s: %r vs %r" % (path, a, b)
        for i, (x, y) in enumerate(zip(a, b)):
            d = diff(x, y, path + "[%d]" % i)
            if d:
                return d
        return None
    return None if a == b else "%s: %r vs %r" % (path, a, b)


# ---- the model's answer
def _m_str(s):
    return s.text()


def _m_name(s):
    return tuple(x.text() for x in s)


def _m_ty(s):
    if isinstance(s, Sym) or (isinstance(s, str) and not isinstance(s, list)):
        k = str(s)
        return {"long": ("long",), "string": ("string",), "never": ("never",)}.get(k, ("unreadable", k))
    h = str(s[0])
    if h == "bool":
        return ("bool",) if str(s[1]) == "any" else ("bool", str(s[1]))
    if h == "set":
        return ("set", None if str(s[1]) == "none" else _m_ty(s[1][1]))
    if h == "entity":
        if str(s[1]) == "any":
            return ("anyentity",)
        names = s[1][1]
        return ("entity", _m_name(names[0])) if len(names) == 1 else ("entitylub", [_m_name(n) for n in names])
    if h == "ext":
        return ("ext", "::".join(_m_name(s[1])))
    if h == "record":
        return ("record", [(a[0].text(), _m_ty(a[1]), str(a[2]) == "true") for a in s[1]], str(s[2]) == "true")
    return ("unreadable", repr(s))


def _m_uid(s):
    return U(_m_name(s[1]), s[2].text())


def canon_model(s):
    """(ok (schema ets acts)) | (err Class)"""
    if not isinstance(s, list) or not s:
        return ("bad", repr(s))
    if str(s[0]) == "err":
        return ("reject", str(s[1]))
    if str(s[0]) != "ok":
        return ("bad", repr(s)[:300])
    sch = s[1]
    ets, acts, aes = {}, {}, {}
    for e in sch[1]:
        n, attrs, op, tags, desc, en = e
        ets[_m_name(n)] = {"attrs": sorted(((a[0].text(), _m_ty(a[1]), str(a[2]) == "true") for a in attrs), key=lambda x: [ord(c) for c in x[0]]),
                           "open": str(op) == "true", "tags": None if str(tags) == "none" else _m_ty(tags[1]),
                           "descendants": sorted(_m_name(d) for d in desc),
                           "enum": None if str(en) == "none" else [x.text() for x in en[1]]}
    for a in sch[2]:
        u, ps, rs, ctx, desc = a
        acts[_m_uid(u)] = {"principals": sorted(_m_name(x) for x in ps), "resources": sorted(_m_name(x) for x in rs),
                           "context": _sort_rec(_m_ty(ctx)), "descendants": sorted(_m_uid(x) for x in desc)}
    for u in acts:
        aes[u] = (sorted(v for v in acts if u in acts[v]["descendants"]), 0, 0)
    for n in ets:
        ets[n]["attrs"] = [(a, _sort_rec(t), r) for a, t, r in ets[n]["attrs"]]
        if ets[n]["tags"] is not None:
            ets[n]["tags"] = _sort_rec(ets[n]["tags"])
    return ("ok", {"etypes": ets, "actions": acts, "action_entities": aes})


def _sort_rec(t):
    if t[0] == "record":
        return ("record", sorted(((a, _sort_rec(x), r) for a, x, r in t[1]), key=lambda x: [ord(c) for c in x[0]]), t[2])
    if t[0] == "set" and t[1] is not None:
        return ("set", _sort_rec(t[1]))
    return t


def _sort_canon(c):
    """sort record attributes by scalar values on the Rust side too (Rust sorts by UTF-8 bytes: same order)"""
    return c


# model class -> acceptable implementation classes
CLASS_MAP = {
    "TypeNotDefined": {"TypeNotDefined"},
    "ActionNotDefined": {"ActionNotDefined"},
    "CycleInCommonTypeReferences": {"CycleInCommonTypeReferences"},
    "CycleInActionHierarchy": {"CycleInActionHierarchy"},
    "ActionEntityTypeDeclared": {"ActionEntityTypeDeclared"},
    "TypeShadowing": {"TypeShadowing"},
    "ActionShadowing": {"ActionShadowing"},
    "ContextOrShapeNotRecord": {"ContextOrShapeNotRecord"},
    "UndeclaredEntityTypes": {"UndeclaredEntityTypes"},
    "UnknownExtensionType": {"UnknownExtensionType"},
    "ParseReject": {"JsonDeserialization", "CedarParse"},          # reserved common-type ids, duplicate declarations
    "Duplicate": {"JsonDeserialization", "CedarParse", "DuplicateEntityType", "DuplicateCommonType", "DuplicateAction"},
    "UnsupportedFeature": {"UnsupportedFeature"},
}


# ------------------------------------------------------------------ cases
class Case:
    def __init__(self, label, frag, kind, expect=None, flavour=None):
        self.label, self.frag, self.kind, self.expect, self.flavour = label, frag, kind, expect, flavour
        self.jtext = json.dumps(SS.frag_json(frag), ensure_ascii=False)
        self.ctext = None
        self.res = {}

    def describe(self):
        return {"label": self.label, "kind": self.kind, "expected_class": self.expect,
                "json_text": self.jtext, "cedar_text": self.ctext,
                "replay": [{"cmd": "schema_load", "syntax": "json", "text": self.jtext},
                           {"cmd": "schema_translate", "from": "json", "text": self.jtext}] +
                          ([{"cmd": "schema_load", "syntax": "cedar", "text": self.ctext},
                            {"cmd": "schema_translate", "from": "cedar", "text": self.ctext}] if self.ctext else [])}


def has_empty_ns_collision(frag):
    for ns in frag:
        if ns["ns"] == ():
            if {c[0] for c in ns["commons"]} & {e[0] for e in ns["entities"]}:
                return True
    return False


def _ty_open(t):
    if t is None:
        return False
    if t[0] == "record":
        return t[2] or any(_ty_open(a[1]) for a in t[1])
    if t[0] == "set":
        return _ty_open(t[1])
    return False


def has_open_record(frag):
    for ns in frag:
        if any(_ty_open(c[1]) for c in ns["commons"]):
            return True
        for e in ns["entities"]:
            if e[1][0] == "std" and (_ty_open(e[1][2]) or _ty_open(e[1][3])):
                return True
        for a in ns["actions"]:
            if a[1]["appliesTo"] is not None and _ty_open(a[1]["appliesTo"][2]):
                return True
    return False


def has_partial_applies(frag):
    for ns in frag:
        for a in ns["actions"]:
            ap = a[1]["appliesTo"]
            if ap is not None and (not ap[0] or not ap[1]) and (ap[0] or ap[1] or ap[2] not in (None, ("record", [], False))):
                return True
    return False


def has_action_type_collision(frag):
    """a common type named `Action` in a namespace that declares actions (the implicit entity type NS::Action)"""
    return any(ns["actions"] and any(c[0] == "Action" for c in ns["commons"]) for ns in frag)


def finding_key(frag):
    if has_empty_ns_collision(frag):
        return KEY_COLLISION
    if has_action_type_collision(frag):
        return KEY_ACTION_COLLISION
    if has_open_record(frag):
        return KEY_OPEN
    if has_partial_applies(frag):
        return KEY_APPLIES
    return None


def probes():
    """minimal inputs of the three findings (kept in every run so that they stay visible / keyed)"""
    P = lambda k: ("prim", k)
    out = []
    out.append(Case("finding-empty-ns-collision",
                    [SS._ns((), commons=[("Foo", P("Long"))],
                            entities=[("Foo", SS._std()), ("Bar", SS._std(shape=SS._rec(("a", ("entity", ("Foo",))))))])], "probe"))
    out.append(Case("finding-open-record",
                    [SS._ns((), entities=[("U", ("std", [], ("record", [("a", P("Long"), True, [])], True), None))])], "probe"))
    out.append(Case("finding-appliesTo-empty-principals",
                    [SS._ns((), entities=[("U", SS._std())],
                            actions=[("a", {"memberOf": None, "appliesTo": ([], [("U",)], SS._rec(("x", P("Long"))))})])], "probe"))
    out.append(Case("finding-action-type-collision",
                    [SS._ns(("NS",), commons=[("Action", P("Long"))],
                            entities=[("U", SS._std(shape=SS._rec(("a", ("entity", ("Action",))))))],
                            actions=[("act", {"memberOf": None, "appliesTo": None})])], "probe"))
    return out


def build_cases(rng, tier):
    cases = []
    for label, f in SS.catalogue():
        cases.append(Case("catalogue:" + label, f, "valid", flavour="cedar"))
    for label, f in SS.catalogue_json_only():
        cases.append(Case("catalogue:" + label, f, "valid", flavour="json"))
    n = 260 if tier == "quick" else 6000
    for i in range(n):
        flavour = "cedar" if i % 2 == 0 else "json"
        f = SS.gen_fragment(rng, flavour)
        cases.append(Case("random-%s-%d" % (flavour, i), f, "valid", flavour=flavour))
        if i % 3 == 0:
            nm = SS.near_misses(rng, f)
            if flavour == "json":
                nm.append(SS.unknown_extension_json(f, rng))
            k = 3 if tier == "quick" else 6
            for label, g, cls in rng.sample(nm, min(k, len(nm))):
                cases.append(Case("nearmiss:%s-%d" % (label, i), g, "nearmiss", expect=cls, flavour=flavour))
    for c in cases:
        if SS.cedar_expressible(c.frag):
            try:
                c.ctext = SS.frag_cedar(c.frag, rng)
            except ValueError:
                c.ctext = None
    return cases


DUP_TEXTS = [
    ("cedar", "entity A; entity A;"),
    ("cedar", "entity A, A;"),
    ("cedar", "namespace N { type T = Long; type T = String; entity E; }"),
    ("cedar", "action a; action \"a\";"),
    ("cedar", "namespace N { entity A; } namespace N { entity B; }"),
    ("json", '{"": {"entityTypes": {"A": {}, "A": {}}, "actions": {}}}'),
    ("json", '{"N": {"entityTypes": {}, "actions": {"a": {}, "a": {}}}}'),
    ("json", '{"N": {"entityTypes": {}, "actions": {}}, "N": {"entityTypes": {}, "actions": {}}}'),
    ("json", '{"": {"commonTypes": {"T": {"type": "Long"}, "T": {"type": "Long"}}, "entityTypes": {}, "actions": {}}}'),
    ("json", '{"": {"entityTypes": {"A": {"shape": {"type": "Record", "attributes": {"a": {"type": "Long"}, "a": {"type": "Long"}}}}}, "actions": {}}}'),
    ("cedar", "namespace __cedar { entity A; }"),
    ("cedar", "entity __cedar;"),
    ("cedar", "entity A in [if];"),
    ("cedar", "action a appliesTo { principal: [A] };"),
    ("cedar", "entity A; action a appliesTo { principal: [A], resource: [A], context: {}, context: {} };"),
    ("cedar", "entity A; action a appliesTo { principal: [], resource: [A] };"),
]


def run(rep, tier, seed):
    ob, dis, details, failures = fw.check_props(PROP_FILE, THEOREMS)
    harness = fw.build_harness()
    driver = fw.build_model_driver()
    rng = random.Random(seed)
    cases = probes() + build_cases(rng, tier)

    # ---- round 1: load the original texts, translate them
    cmds, meta = [], []
    for ci, c in enumerate(cases):
        cmds.append({"cmd": "schema_load", "syntax": "json", "text": c.jtext}); meta.append((ci, "loadJ"))
        cmds.append({"cmd": "schema_translate", "from": "json", "text": c.jtext}); meta.append((ci, "J2C"))
        if c.ctext is not None:
            cmds.append({"cmd": "schema_load", "syntax": "cedar", "text": c.ctext}); meta.append((ci, "loadC"))
            cmds.append({"cmd": "schema_translate", "from": "cedar", "text": c.ctext}); meta.append((ci, "C2J"))
    for i, (syn, text) in enumerate(DUP_TEXTS):
        cmds.append({"cmd": "schema_load", "syntax": syn, "text": text}); meta.append((-1 - i, "dup"))
    res = fw.run_rust(harness, cmds)
    dup_results = []
    for (ci, what), r in zip(meta, res):
        if ci < 0:
            dup_results.append((DUP_TEXTS[-1 - ci], r))
        else:
            cases[ci].res[what] = r
    n_eval = len(cmds)

    # ---- round 2: load the translations, translate them back
    cmds, meta = [], []
    for ci, c in enumerate(cases):
        t = c.res["J2C"].get("ok")
        if t is not None:
            cmds.append({"cmd": "schema_load", "syntax": "cedar", "text": t}); meta.append((ci, "load(J2C)"))
            cmds.append({"cmd": "schema_translate", "from": "cedar", "text": t}); meta.append((ci, "J2C2J"))
        t = c.res.get("C2J", {}).get("ok")
        if t is not None:
            cmds.append({"cmd": "schema_load", "syntax": "json", "text": t}); meta.append((ci, "load(C2J)"))
            cmds.append({"cmd": "schema_translate", "from": "json", "text": t}); meta.append((ci, "C2J2C"))
    res = fw.run_rust(harness, cmds)
    for (ci, what), r in zip(meta, res):
        cases[ci].res[what] = r
    n_eval += len(cmds)

    # ---- round 3: load the double translations; verdicts under original and translation
    cmds, meta = [], []
    nver = 0
    for ci, c in enumerate(cases):
        for what, syn in (("J2C2J", "json"), ("C2J2C", "cedar")):
            t = c.res.get(what, {}).get("ok")
            if t is not None:
                cmds.append({"cmd": "schema_load", "syntax": syn, "text": t}); meta.append((ci, "load(%s)" % what))
        oj = outcome(c.res["loadJ"])
        if oj[0] == "ok":
            dg = SS.DataGen9(oj[1], rng)
            data = {"policies": dg.policies(10), "requests": dg.requests(10), "entities": dg.entity_sets(6)}
            c.data = data
            t = c.res["J2C"].get("ok")
            if t is not None:
                cmds.append(dict({"cmd": "schema_verdicts", "a": {"syntax": "json", "text": c.jtext}, "b": {"syntax": "cedar", "text": t}}, **data))
                meta.append((ci, "verdicts(J,J2C)")); nver += 1
            t = c.res.get("C2J", {}).get("ok")
            if t is not None and c.ctext is not None:
                cmds.append(dict({"cmd": "schema_verdicts", "a": {"syntax": "cedar", "text": c.ctext}, "b": {"syntax": "json", "text": t}}, **data))
                meta.append((ci, "verdicts(C,C2J)")); nver += 1
    res = fw.run_rust(harness, cmds)
    for (ci, what), r in zip(meta, res):
        cases[ci].res[what] = r
    n_eval += len(cmds)

    # ---- the model
    mcmds = [[Sym("schema_resolve"), SS.frag_sx(c.frag)] for c in cases]
    mres = fw.run_model(driver, mcmds)

    mcmds2 = [[Sym("schema_cedar_roundtrip"), SS.frag_sx(c.frag)] for c in cases]
    mres2 = fw.run_model(driver, mcmds2)

    # ---- oracle + correspondence
    stats = {"accepted": 0, "rejected": 0, "cedar_expressible": 0, "translate_J2C_ok": 0, "translate_J2C_fail": {},
             "reject_classes": {}, "nearmiss_checked": 0, "verdict_pairs": 0, "policy_pass": 0, "policy_fail": 0,
             "request_ok": 0, "request_rejected": 0, "entities_ok": 0, "entities_rejected": 0, "labels": {},
             "model_agree": 0, "roundtrip_model_agree": 0, "second_translation_refused": {}}
    distinct = set()
    samples = []
    for ci, c in enumerate(cases):
        key = finding_key(c.frag)
        oj = outcome(c.res["loadJ"])
        lab = c.label.split(":")[0].split("-")[0]
        stats["labels"][lab] = stats["labels"].get(lab, 0) + 1
        bad = []

        def viol(kind, **kw):
            bad.append(dict({"kind": kind}, **kw))

        for what, r in c.res.items():
            if "panic" in r or "abort" in r or "harness_error" in r:
                viol("harness command failed", what=what, answer=r)
        if oj[0] == "ok":
            stats["accepted"] += 1
        elif oj[0] == "reject":
            stats["rejected"] += 1
            stats["reject_classes"][oj[1]] = stats["reject_classes"].get(oj[1], 0) + 1
        # (1) both texts of one fragment (written by the independent Python printers) load alike
        if c.ctext is not None:
            stats["cedar_expressible"] += 1
            oc = outcome(c.res["loadC"])
            if oj[0] != oc[0]:
                viol("the JSON text and the Cedar text of one fragment: one is accepted, the other rejected", json=oj[:2] if oj[0] != "ok" else "ok", cedar=oc[:2] if oc[0] != "ok" else "ok")
            elif oj[0] == "ok":
                d = diff(oj[1], oc[1])
                if d:
                    viol("the JSON text and the Cedar text of one fragment resolve to different schemas", difference=d)
        # (2) round trips from every accepted original
        origins = [("J", oj, "J2C", "J2C2J")]
        if c.ctext is not None:
            origins.append(("C", outcome(c.res["loadC"]), "C2J", "C2J2C"))
        for tag, o, t1, t2 in origins:
            if o[0] != "ok":
                # a rejected original: a successful translation must not load either
                if o[0] == "reject" and "ok" in c.res[t1]:
                    o1 = outcome(c.res["load(%s)" % t1])
                    if o1[0] == "ok":
                        viol("original (%s) is rejected but its translation loads" % tag, original=o[:3])
                continue
            tr = c.res[t1]
            if "ok" not in tr:
                if tag == "J":
                    cls = tr.get("translate_error", "?")
                    stats["translate_J2C_fail"][cls] = stats["translate_J2C_fail"].get(cls, 0) + 1
                if "translate_error" not in tr:
                    viol("translation of an accepted schema neither succeeded nor failed cleanly", step=t1, answer=tr)
                elif tag == "C":
                    viol("Cedar -> JSON translation of an accepted schema failed", answer=tr)
                continue
            if tag == "J":
                stats["translate_J2C_ok"] += 1
            o1 = outcome(c.res["load(%s)" % t1])
            if o1[0] != "ok":
                viol("translation %s of an accepted schema does not load" % t1, translated=tr["ok"], answer=o1[:3])
                continue
            d = diff(o[1], o1[1])
            if d:
                viol("translate -> load differs from the original (%s)" % t1, difference=d, translated=tr["ok"])
            tr2 = c.res.get(t2, {})
            if "ok" not in tr2:
                # the way back may legitimately be refused (e.g. NameCollisions for a Cedar schema in which a common
                # type shadows an entity type of the same namespace)
                if "translate_error" in tr2:
                    stats["second_translation_refused"][tr2["translate_error"]] = stats["second_translation_refused"].get(tr2["translate_error"], 0) + 1
                else:
                    viol("second translation neither succeeded nor failed cleanly", step=t2, answer=tr2)
            else:
                o2 = outcome(c.res["load(%s)" % t2])
                if o2[0] != "ok":
                    viol("double translation %s does not load" % t2, answer=o2[:3], translated=tr2["ok"])
                else:
                    d = diff(o[1], o2[1])
                    if d:
                        viol("double translation differs from the original (%s)" % t2, difference=d, translated=tr2["ok"])
            v = c.res.get("verdicts(%s,%s)" % (tag, t1))
            if v is not None:
                if "a" not in v:
                    viol("verdict run could not load both schemas", answer=v)
                else:
                    stats["verdict_pairs"] += 1
                    if not v["equal"]:
                        viol("ValidatorSchema == says original and translation differ", step=t1)
                    if v["a"] != v["b"]:
                        viol("validation verdicts differ between original and translation", step=t1,
                             difference=diff(v["a"], v["b"]), data=c.data)
                    if tag == "J":
                        for p in v["a"]["policies"]:
                            stats["policy_pass" if p.get("pass") else "policy_fail"] += 1
                        for q in v["a"]["requests"]:
                            stats["request_ok" if q["request_new"] == "ok" else "request_rejected"] += 1
                        for e in v["a"]["entities"]:
                            stats["entities_ok" if "ok" in e else "entities_rejected"] += 1
        if bad:
            # one replay per failing input, listing every check it fails
            rep.violation({"property": PROP, "kind": bad[0]["kind"], "failed_checks": bad, "case": c.describe()}, key=key)
        # (3) correspondence with the model
        m = canon_model(mres[ci])
        cbad = None
        if m[0] == "bad":
            cbad = "model did not answer: %r" % (m,)
        elif oj[0] == "ok":
            if m[0] != "ok":
                cbad = "implementation accepts, model rejects with %s" % m[1]
            else:
                d = diff(oj[1], m[1])
                if d:
                    cbad = "resolved schemas differ: " + d
        elif oj[0] == "reject":
            if m[0] == "ok":
                cbad = "implementation rejects (%s), model accepts" % oj[1]
            elif c.kind == "nearmiss":
                stats["nearmiss_checked"] += 1
                if oj[1] not in CLASS_MAP.get(m[1], {m[1]}):
                    cbad = "error class: implementation %s, model %s" % (oj[1], m[1])
        else:
            cbad = "implementation did not answer: %r" % (oj,)
        if c.kind == "nearmiss" and oj[0] == "ok":
            cbad = (cbad or "") + " near-miss (%s) accepted by the implementation" % c.expect
        if c.kind == "nearmiss" and m[0] == "reject" and c.expect and m[1] != c.expect:
            cbad = (cbad or "") + " near-miss class: model %s, generator expected %s" % (m[1], c.expect)
        if cbad and not bad:
            rep.violation({"property": PROP, "kind": "correspondence: model SchemaSyn.resolve vs ValidatorSchema::from_schema_fragments "
                           "(through SchemaFragment::from_json_str): " + cbad,
                           "lost_transfer": "c09_reference_form_insensitive_partial, c09_resolve_order_independent_partial",
                           "case": c.describe(), "model": repr(mres[ci])[:1500]}, no_failing_input=True, key=key)
        elif not cbad:
            stats["model_agree"] += 1
        # (4) correspondence of the modelled trip through the Cedar syntax (SchemaSyn.cedar_roundtrip = fmt.rs printer
        #     followed by parser + to_json_schema.rs) with translate -> load on the implementation
        if oj[0] == "ok" and not bad and not cbad:
            m2 = mres2[ci]
            tr = c.res["J2C"]
            rbad = None
            if isinstance(m2, list) and m2 and str(m2[0]) == "refused":
                if "translate_error" not in tr:
                    rbad = "model: printer refuses; implementation translated"
                else:
                    stats["roundtrip_model_agree"] += 1
            else:
                m2c = canon_model(m2)
                if "ok" not in tr:
                    # the model follows the code as pinned; on the inputs of a keyed finding a refusing printer is the FIXED
                    # behaviour and is accepted as well
                    if key is None:
                        rbad = "implementation: printer refuses (%s); model translated" % tr.get("translate_error")
                else:
                    o1 = outcome(c.res["load(J2C)"])
                    if m2c[0] != o1[0]:
                        rbad = "translated schema: implementation %s, model %s" % (o1[0], m2c[:2] if m2c[0] != "ok" else "ok")
                    elif m2c[0] == "ok":
                        d = diff(o1[1], m2c[1])
                        if d:
                            rbad = "translated schemas differ: " + d
                    if not rbad:
                        stats["roundtrip_model_agree"] += 1
            if rbad:
                rep.violation({"property": PROP, "kind": "correspondence: model SchemaSyn.cedar_roundtrip + resolve vs to_cedarschema + "
                               "from_cedarschema_str: " + rbad, "lost_transfer": "c09_cedar_roundtrip_refuted (the model of the printer/parser pair)",
                               "case": c.describe(), "model": repr(m2)[:1500]}, no_failing_input=True)
        if oj[0] == "ok" and len(oj[1]["etypes"]) >= 2 and oj[1]["actions"]:
            distinct.add(fw.case_hash(c.jtext))
        if len(samples) < 2 and c.label.startswith("random-cedar") and oj[0] == "ok":
            samples.append(c.describe())

    # ---- duplicate declarations / grammar-level rejects: both syntaxes must reject
    for (syn, text), r in dup_results:
        if "error" not in r:
            rep.violation({"property": PROP, "kind": "text-level near miss accepted", "syntax": syn, "text": text, "answer": r})

    nx = fw.coq_crosscheck(mcmds[:40], mres[:40], PROP)
    for f in failures:
        rep.violation({"property": PROP, "kind": "proof obligation no longer checks", "detail": f}, no_failing_input=True)
    rep.coverage = {
        "obligations": ob, "discharged": dis,
        "checker_cmd": "make -C coq props/%s.vo (coqc 8.16.1) + Print Assumptions" % PROP_FILE,
        "trusted_base": fw.TRUSTED_BASE + ["text level (grammar.lalrpop, logos lexer, serde deserialisers, fmt.rs layout) is compared by correspondence only"],
        "theorems": details,
        "evaluations": n_eval, "distinct_nontrivial": len(distinct),
        "rule": "fragments: hand-written shadowing catalogue + seeded random fragments (half in the Cedar-expressible reference forms, written "
                "in BOTH syntaxes by independent Python printers; half with all JSON reference forms) + single-fault near misses + text-level "
                "duplicate/grammar rejects + the three finding probes; each original is loaded, translated, the translation loaded and "
                "translated back and loaded again; 10 policies / 10 requests / 6 entity sets derived from the resolved schema are judged under "
                "original and translation; non-trivial = accepted, >= 2 entity types and >= 1 action, distinct by hash of the JSON text",
        "traces_validated_against_impl": len(cases), "vm_compute_crosscheck_cases": nx,
        "cases": len(cases), "histogram": stats,
        "samples": samples[:1] or [cases[3].describe()],
    }
    rep.assumptions = ["error classes compared only on single-fault near misses (several simultaneous faults: hash-map order decides in Rust)",
                       "annotations are carried through the oracle only (not part of the resolved schema, not modelled)",
                       "harness built with partial-validate (open records accepted by the loader)"]


def replay(rep, path):
    harness = fw.build_harness()
    j = json.load(open(path))
    cmds = j.get("case", {}).get("replay", [])
    for c, r in zip(cmds, fw.run_rust(harness, cmds)):
        print(json.dumps(c)[:2000])
        print("  ->", json.dumps(r)[:3000])
