"""C02 — expression evaluation follows the language semantics.
   Correspondence: model `eval` (extracted from Coq) vs Evaluator::interpret on /repo, same
   expression sent as Cedar text and as JSON (EST); value or error class must agree."""
import random

import cedar
import framework as fw
import gen
from sx import Sym

PROP = "C02"
PROP_FILE = "C02_Eval"
THEOREMS = ['c02_and_short_circuit', 'c02_or_short_circuit', 'c02_and_evaluated_operands', 'c02_or_evaluated_operands', 'c02_if', 'c02_binary_left_to_right', 'c02_eq_total', 'c02_arith_exact', 'c02_neg_exact', 'c02_arith_type_error', 'c02_in_entity', 'c02_in_entity_set', 'c02_in_set_with_nonentity', 'c02_has_absent_entity', 'c02_has_iff_access_succeeds', 'c02_is', 'c02_like', 'c02_eq_equivalence', 'c02_set_eq_same_members', 'c02_set_order_insensitive', 'c02_set_duplicate_insensitive', 'c02_set_operations', 'c02_set_mem_respects_eq']


MANIFEST = {
    "text": "Executable Gallina evaluator transcribed arm by arm from evaluator.rs; per-construct laws (short-circuiting, strict left-to-right operators, total ==, exact checked arithmetic, in/has/is/like) proved in Coq for all expressions, requests and stores (props/C02_Eval.v); tied to /repo by differential execution of the extracted model against Evaluator::interpret on type-directed random expressions sent as Cedar text and as JSON.",
    "technique": "proof (Coq, structural induction) + correspondence by differential execution",
}


def make_case(w, e, slots=()):
    return {"world": w, "expr": e, "slots": list(slots)}


def rust_cmds(case):
    w, e = case["world"], case["expr"]
    base = {"cmd": "eval", "request": cedar.request_json(w.request), "entities": cedar.entities_json(w.entities),
            "slots": {"?" + k: cedar.uid_json(u) for k, u in case["slots"]}}
    cmds = []
    try:
        cmds.append(dict(base, route="text", expr=cedar.expr_text(e)))
    except cedar.NotExpressible:
        pass
    cmds.append(dict(base, route="est", expr=cedar.expr_est(e)))
    return cmds


def model_cmd(case):
    w, e = case["world"], case["expr"]
    return [Sym("eval"), cedar.slots_sx(case["slots"]), cedar.request_sx(w.request),
            cedar.entities_sx(w.entities), cedar.expr_sx(e)]


def generate(rng, n, depth):
    cases = []
    w = None
    for i in range(n):
        if i % 5 == 0:
            w = gen.World(rng)
        g = gen.ExprGen(w, rng, allow_slots=True)
        e = g.gen(None, rng.randint(1, depth))
        slots = []
        if rng.random() < 0.8:
            slots = [("principal", w.any_uid()), ("resource", w.any_uid())]
        cases.append(make_case(w, e, slots))
    return cases


def describe(case):
    try:
        t = cedar.expr_text(case["expr"])
    except cedar.NotExpressible:
        t = None
    return {"expr_text": t, "expr_est": cedar.expr_est(case["expr"]),
            "request": cedar.request_json(case["world"].request),
            "entities": cedar.entities_json(case["world"].entities),
            "slots": {"?" + k: cedar.uid_json(u) for k, u in case["slots"]}}


def run_cases(rep, cases, harness, driver):
    rcmds, owner = [], []
    for i, c in enumerate(cases):
        for cmd in rust_cmds(c):
            rcmds.append(cmd)
            owner.append(i)
    rres = fw.run_rust(harness, rcmds)
    mres = fw.run_model(driver, [model_cmd(c) for c in cases])
    stats = {"ok": 0, "err": {}, "routes": {"text": 0, "est": 0}, "mismatch": 0, "parse_error": 0}
    distinct = set()
    nviol = 0
    for (cmd, i, rr) in zip(rcmds, owner, rres):
        m = cedar.canon_result_from_model(mres[i])
        r = cedar.canon_result_from_rust(rr)
        stats["routes"][cmd["route"]] += 1
        if r[0] == "parse_error":
            # the generator emitted something the front end refuses: only legal for known shapes
            stats["parse_error"] += 1
            if not tolerated_parse_error(cases[i]["expr"], cmd["route"], r[1]):
                nviol += 1
                rep.violation({"property": PROP, "kind": "front end rejects an expression the model evaluates",
                               "route": cmd["route"], "case": describe(cases[i]), "rust": rr, "model": repr(m),
                               "theorem_or_correspondence": "correspondence eval <-> Evaluator::interpret"},
                              no_failing_input=True)
            continue
        if r != m:
            stats["mismatch"] += 1
            nviol += 1
            rep.violation({"property": PROP, "kind": "evaluation result differs from the language semantics (model)",
                           "route": cmd["route"], "case": describe(cases[i]), "rust": rr, "model": repr(m),
                           "replay": "./check C02 --replay <this file>"})
        if m[0] == "ok":
            stats["ok"] += 1
        else:
            stats["err"][m[1]] = stats["err"].get(m[1], 0) + 1
        distinct.add(fw.case_hash(describe(cases[i])))
    return stats, distinct, nviol


def tolerated_parse_error(e, route, msg):
    return False


def run(rep, tier, seed):
    ob, dis, details, failures = fw.check_props(PROP_FILE, THEOREMS) if THEOREMS else (0, 0, {}, [])
    harness = fw.build_harness()
    driver = fw.build_model_driver()
    rng = random.Random(seed)
    n = 3000 if tier == "quick" else 60000
    depth = 5 if tier == "quick" else 7
    cases = generate(rng, n, depth)
    stats, distinct, nviol = run_cases(rep, cases, harness, driver)
    ops = {}
    for c in cases:
        gen.expr_ops(c["expr"], ops)
    nx = fw.coq_crosscheck([model_cmd(c) for c in cases[:48]],
                           fw.run_model(driver, [model_cmd(c) for c in cases[:48]]), PROP)
    for f in failures:
        rep.violation({"property": PROP, "kind": "proof obligation no longer checks", "detail": f},
                      no_failing_input=True)
    rep.coverage = {
        "obligations": ob, "discharged": dis, "checker_cmd": "make -C coq props/%s.vo (coqc 8.16.1) + Print Assumptions" % PROP_FILE,
        "trusted_base": fw.TRUSTED_BASE, "theorems": details,
        "evaluations": len(cases), "distinct_nontrivial": len(distinct),
        "rule": "type-directed random expressions (depth<=%d) over random worlds; distinct by hash of (expr, request, entities, slots); every case is sent to the implementation as Cedar text and as EST JSON" % depth,
        "traces_validated_against_impl": sum(stats["routes"].values()),
        "vm_compute_crosscheck_cases": nx,
        "outcome_histogram": {"ok": stats["ok"], "errors": stats["err"]},
        "operator_histogram": ops,
        "samples": [describe(c) for c in cases[:3]],
    }
    rep.assumptions = ["Unknown-free expressions; nesting depth <= 48", "error messages/locations not compared"]


def replay(rep, path):
    import json
    payload = json.load(open(path))
    print(json.dumps(payload, indent=1)[:4000])
