"""C02 — expression evaluation follows the language semantics.
   Correspondence: model `eval` (extracted from Coq) vs Evaluator::interpret on /repo, same
   expression sent as Cedar text and as JSON (EST); value or error class must agree."""
import random

import cedar
import framework as fw
import gen
from sx import Sym

PROP = "C02"
PROP_FILE = "C02_Eval"
THEOREMS = ['c02_and_short_circuit', 'c02_or_short_circuit', 'c02_and_evaluated_operands', 'c02_or_evaluated_operands', 'c02_if', 'c02_binary_left_to_right', 'c02_eq_total', 'c02_arith_exact', 'c02_neg_exact', 'c02_arith_type_error', 'c02_in_entity', 'c02_in_entity_set', 'c02_in_set_with_nonentity', 'c02_has_absent_entity', 'c02_has_iff_access_succeeds', 'c02_is', 'c02_like', 'c02_like_loop', 'c02_eq_equivalence', 'c02_set_eq_same_members', 'c02_set_order_insensitive', 'c02_set_duplicate_insensitive', 'c02_set_operations', 'c02_set_mem_respects_eq']


MANIFEST = {
    "text": "Executable Gallina evaluator transcribed arm by arm from evaluator.rs; per-construct laws (short-circuiting, strict left-to-right operators, total ==, exact checked arithmetic, in/has/is/like) proved in Coq for all expressions, requests and stores (props/C02_Eval.v); tied to /repo by differential execution of the extracted model against Evaluator::interpret on type-directed random expressions sent as Cedar text and as JSON.",
    "technique": "proof (Coq, structural induction) + correspondence by differential execution",
}


def make_case(w, e, slots=()):
    return {"world": w, "expr": e, "slots": list(slots)}


def world_cache(w):
    """renderings of a world are shared by all cases over it"""
    c = getattr(w, "_render_cache", None)
    if c is None:
        c = {"rq": cedar.request_json(w.request), "re": cedar.entities_json(w.entities),
             "mq": cedar.request_sx(w.request), "me": cedar.entities_sx(w.entities)}
        w._render_cache = c
    return c


def rust_cmds(case):
    w, e = case["world"], case["expr"]
    wc = world_cache(w)
    base = {"cmd": "eval", "request": wc["rq"], "entities": wc["re"],
            "slots": {"?" + k: cedar.uid_json(u) for k, u in case["slots"]}}
    cmds = []
    try:
        cmds.append(dict(base, route="text", expr=cedar.expr_text(e)))
    except cedar.NotExpressible:
        pass
    cmds.append(dict(base, route="est", expr=cedar.expr_est(e)))
    return cmds


def model_cmd(case):
    w, e = case["world"], case["expr"]
    wc = world_cache(w)
    return [Sym("eval"), cedar.slots_sx(case["slots"]), wc["mq"], wc["me"], cedar.expr_sx(e)]


def generate(rng, n, depth):
    cases = []
    w = None
    for i in range(n):
        if i % 5 == 0:
            w = gen.World(rng)
        g = gen.ExprGen(w, rng, allow_slots=True)
        e = g.gen(None, rng.randint(1, depth))
        slots = []
        if rng.random() < 0.8:
            slots = [("principal", w.any_uid()), ("resource", w.any_uid())]
        cases.append(make_case(w, e, slots))
    return cases


def L(z):
    return ("lit", ("long", z))


def S(x):
    return ("lit", ("string", x))


def B(b):
    return ("lit", ("bool", b))


def systematic(rng, tier):
    """exhaustive small-scope streams: operator x operand-kind table, short-circuit matrix,
       boundary arithmetic, like patterns, set algebra"""
    from cedar import U, I64_MAX, I64_MIN
    w = gen.World(rng, n_entities=6)
    present = [e["uid"] for e in w.entities]
    pu = present[0] if present else w.uids[0]
    absent = U(("User",), "ghost")
    dec = ("ext", "decimal", [S("1.5")])
    operands = {
        "bool": B(True), "long": L(3), "string": S("ab"), "entity": ("lit", ("entity", pu)),
        "absent": ("lit", ("entity", absent)), "set_lits": ("set", [L(1), L(3), L(1)]),
        "set_nonlit": ("set", [("record", [("a", L(1))]), dec, L(3)]), "empty": ("set", []),
        "set_ents": ("set", [("lit", ("entity", pu)), ("lit", ("entity", absent))]),
        "record": ("record", [("a", L(1)), ("n", S("x"))]), "ext": dec,
        "err": ("getattr", ("var", "context"), "missing"),
        "var": ("var", "principal"), "ctx": ("var", "context"),
    }
    out = []
    ks = list(operands)
    for op in ["eq", "less", "lesseq", "add", "sub", "mul", "in", "contains", "containsAll", "containsAny", "getTag", "hasTag"]:
        for a in ks:
            for b in ks:
                out.append(("binop", op, operands[a], operands[b]))
    for op in ["not", "neg", "isEmpty"]:
        for a in ks:
            out.append(("unop", op, operands[a]))
    for a in ks:
        for attr in ["a", "n", "zz", "if"]:
            out.append(("getattr", operands[a], attr))
            out.append(("hasattr", operands[a], attr))
        out.append(("like", operands[a], ["a", ("*",)]))
        out.append(("is", operands[a], ("User",)))
        for fn in ["decimal", "lessThan", "greaterThanOrEqual"]:
            out.append(("ext", fn, [operands[a]]))
            out.append(("ext", fn, [operands[a], dec]))
        out.append(("ext", "lessThan", [dec, operands[a]]))
    # short-circuit matrix
    outcomes = [B(True), B(False), L(1), S("x"), operands["err"],
                ("binop", "add", L(I64_MAX), L(1)), ("binop", "add", L(1), S("a")),
                ("getattr", operands["absent"], "n"), ("ext", "decimal", [S("x")])]
    for a in outcomes:
        for b in outcomes:
            out.append(("and", a, b))
            out.append(("or", a, b))
            for c in outcomes[:5]:
                out.append(("if", a, b, c))
    # boundary arithmetic and comparisons
    bl = gen.BOUNDARY_LONGS
    for x in bl:
        out.append(("unop", "neg", L(x)))
        for y in bl:
            for op in ["add", "sub", "mul", "less", "lesseq", "eq"]:
                out.append(("binop", op, L(x), L(y)))
    # like: all patterns over {a, b, wildcard, literal star} up to length 3 (4 thorough) x strings up to length 3 (4)
    import itertools
    alpha = ["a", "b", ("*",), "*"]
    pl, sl_ = (3, 3) if tier == "quick" else (4, 5)
    strings = ["".join(t) for n in range(sl_ + 1) for t in itertools.product("ab*", repeat=n)]
    if tier == "quick":
        strings = [x for x in strings if len(x) <= 3]
    for n in range(pl + 1):
        for pat in itertools.product(alpha, repeat=n):
            for st in (strings if tier != "quick" else rng.sample(strings, min(len(strings), 12))):
                out.append(("like", S(st), list(pat)))
    out.append(("like", S("\U0001F600x"), ["\U0001F600", ("*",)]))
    # set algebra over a mixed universe
    uni = [L(1), L(2), S("a"), ("lit", ("entity", pu)), ("record", [("a", L(1))]), ("record", [("a", L(2))]), dec,
           ("ext", "decimal", [S("1.50")]), ("set", [L(1)]), ("set", [])]
    subsets = [list(c) for n in range(0, 3) for c in itertools.combinations(uni, n)]
    pairs = [(a, b) for a in subsets for b in subsets]
    if tier == "quick":
        pairs = rng.sample(pairs, 500)
    for a, b in pairs:
        for op in ["eq", "containsAll", "containsAny"]:
            out.append(("binop", op, ("set", a), ("set", list(reversed(b)) + b[:1])))
    for a in subsets:
        for x in uni:
            out.append(("binop", "contains", ("set", a), x))
    # `in` against heterogeneous sets: the whole right-hand set must consist of entities (type error otherwise),
    # whichever element comes first in the set's internal order and whether or not an earlier element matches
    child = next((e for e in w.entities if e["parents"]), None)
    lhs = [("lit", ("entity", pu)), ("lit", ("entity", absent))]
    in_uni = [("lit", ("entity", pu)), ("lit", ("entity", absent)), L(1), S("a"), B(True), ("record", [("a", L(1))]),
              ("record", []), dec, ("set", [("lit", ("entity", pu))]), ("set", []), operands["err"]]
    if child is not None:
        lhs.append(("lit", ("entity", child["uid"])))
        in_uni.append(("lit", ("entity", child["parents"][0])))
    in_subsets = [list(c) for n in range(0, 4) for c in itertools.combinations(in_uni, n)]
    if tier == "quick":
        in_subsets = [s for s in in_subsets if len(s) <= 2] + rng.sample([s for s in in_subsets if len(s) == 3], 60)
    for x in lhs:
        for a in in_subsets:
            out.append(("binop", "in", x, ("set", a)))
            out.append(("binop", "in", x, ("set", list(reversed(a)))))
    return [make_case(w, e, [("principal", pu), ("resource", absent)]) for e in out]


def describe(case):
    try:
        t = cedar.expr_text(case["expr"])
    except cedar.NotExpressible:
        t = None
    return {"expr_text": t, "expr_est": cedar.expr_est(case["expr"]),
            "request": world_cache(case["world"])["rq"],
            "entities": world_cache(case["world"])["re"],
            "slots": {"?" + k: cedar.uid_json(u) for k, u in case["slots"]}}


def run_cases(rep, cases, harness, driver):
    rcmds, owner = [], []
    for i, c in enumerate(cases):
        for cmd in rust_cmds(c):
            rcmds.append(cmd)
            owner.append(i)
    rres = fw.run_rust(harness, rcmds)
    mcmds = [model_cmd(c) for c in cases]
    import sx as _sx
    mcmd_txt = [hash(_sx.dump(m[4])) ^ hash(_sx.dump(m[1])) for m in mcmds]
    mres = fw.run_model(driver, mcmds)
    # the transcription of the Rust two-pointer loop is run as well on every `like` of a literal
    from sx import Str
    like_idx = [i for i, c in enumerate(cases)
                if c["expr"][0] == "like" and c["expr"][1][0] == "lit" and c["expr"][1][1][0] == "string"]
    like_cmds = [[Sym("like_loop"), [Sym("star") if ch == ("*",) else ord(ch) for ch in cases[i]["expr"][2]],
                  Str(cases[i]["expr"][1][1][1])] for i in like_idx]
    like_res = dict(zip(like_idx, fw.run_model(driver, like_cmds)))
    stats = {"ok": 0, "err": {}, "routes": {"text": 0, "est": 0}, "mismatch": 0, "parse_error": 0,
             "like_loop_cases": len(like_idx)}
    distinct = set()
    nviol = 0
    for (cmd, i, rr) in zip(rcmds, owner, rres):
        m = cedar.canon_result_from_model(mres[i])
        r = cedar.canon_result_from_rust(rr)
        stats["routes"][cmd["route"]] += 1
        if r[0] == "parse_error":
            # the generator emitted something the front end refuses: only legal for known shapes
            stats["parse_error"] += 1
            if not tolerated_parse_error(cases[i]["expr"], cmd["route"], r[1]):
                nviol += 1
                rep.violation({"property": PROP, "kind": "front end rejects an expression the model evaluates",
                               "route": cmd["route"], "case": describe(cases[i]), "rust": rr, "model": repr(m),
                               "theorem_or_correspondence": "correspondence eval <-> Evaluator::interpret"},
                              no_failing_input=True)
            continue
        if i in like_res and r[0] == "ok" and r[1] != ("bool", str(like_res[i]) == "true"):
            nviol += 1
            rep.violation({"property": PROP, "kind": "wildcard loop (model transcription of Pattern::wildcard_match) differs from the implementation",
                           "route": cmd["route"], "case": describe(cases[i]), "rust": rr, "model_loop": str(like_res[i]),
                           "theorem_or_correspondence": "c02_like_loop transfers to the code only through this correspondence"},
                          no_failing_input=(r == m))
        if r != m:
            stats["mismatch"] += 1
            nviol += 1
            rep.violation({"property": PROP, "kind": "evaluation result differs from the language semantics (model)",
                           "route": cmd["route"], "case": describe(cases[i]), "rust": rr, "model": repr(m),
                           "replay": "./check C02 --replay <this file>"})
        if m[0] == "ok":
            stats["ok"] += 1
        else:
            stats["err"][m[1]] = stats["err"].get(m[1], 0) + 1
        distinct.add((id(cases[i]["world"]), mcmd_txt[i]))
    return stats, distinct, nviol


def tolerated_parse_error(e, route, msg):
    return False


def run(rep, tier, seed):
    ob, dis, details, failures = fw.check_props(PROP_FILE, THEOREMS) if THEOREMS else (0, 0, {}, [])
    harness = fw.build_harness()
    driver = fw.build_model_driver()
    rng = random.Random(seed)
    n = 3000 if tier == "quick" else 60000
    depth = 5 if tier == "quick" else 7
    sysc = systematic(rng, tier)
    cases = sysc + generate(rng, n, depth)
    stats, distinct, nviol = run_cases(rep, cases, harness, driver)
    ops = {}
    for c in cases:
        gen.expr_ops(c["expr"], ops)
    nx = fw.coq_crosscheck([model_cmd(c) for c in cases[:48]],
                           fw.run_model(driver, [model_cmd(c) for c in cases[:48]]), PROP)
    for f in failures:
        rep.violation({"property": PROP, "kind": "proof obligation no longer checks", "detail": f},
                      no_failing_input=True)
    rep.coverage = {
        "obligations": ob, "discharged": dis, "checker_cmd": "make -C coq props/%s.vo (coqc 8.16.1) + Print Assumptions" % PROP_FILE,
        "trusted_base": fw.TRUSTED_BASE, "theorems": details,
        "evaluations": len(cases), "distinct_nontrivial": len(distinct),
        "rule": "exhaustive small-scope streams (operator x operand-kind table, short-circuit matrix, boundary arithmetic on 16 longs, like patterns over {a,b,*,\\*}, set algebra over a mixed universe) + type-directed random expressions (depth<=%d) over random worlds; distinct by hash of (expr, request, entities, slots); every case is sent to the implementation as Cedar text and as EST JSON" % depth,
        "traces_validated_against_impl": sum(stats["routes"].values()),
        "vm_compute_crosscheck_cases": nx,
        "outcome_histogram": {"ok": stats["ok"], "errors": stats["err"]},
        "operator_histogram": ops,
        "systematic_cases": len(sysc), "like_loop_cases": stats["like_loop_cases"],
        "samples": [describe(c) for c in (cases[:2] + cases[-2:])],
    }
    rep.assumptions = ["Unknown-free expressions; nesting depth <= 48", "error messages/locations not compared"]


def replay(rep, path):
    fw.replay_generic(rep, path)
