"""C16 — level validation guarantees the level-n entity slice suffices.
   Proof: props/C16_Level.v (model coq/model/Level.v).
   Correspondence: (a) model `level` (LevelChecker transcribed, run on the typed AST the Rust typechecker
   produced) vs Validator::validate_with_level per (policy, n in 0..5); (b) model slice_at_level vs the Python
   slice on every (request, store, n) used.
   Oracle on the implementation: for every policy set accepted at level n and >= 20 conformant (request, store)
   pairs, Authorizer::is_authorized over the level-n slice, over the full store and over a random store in
   between give the same decision / determining policies / erroring policies (with error classes);
   acceptance is monotone in n (per policy and per set, core and public API)."""
import json
import random

import cedar
import framework as fw
import schema as S
import texpr
import tgen
from cedar import U
from sx import Sym
from c11 import DataGen, IDS

PROP = "C16"
PROP_FILE = "C16_Level"
THEOREMS = ["c16_monotone", "c16_level_independent_of_max", "c16_slice_subset", "c16_slice_monotone",
            "c16_slice_keeps_data", "c16_slice_hop_closed", "c16_slice_sound_base", "c16_target_distance_partial",
            "c16_between_partial", "c16_slice_sound_partial", "c16_response_partial"]

MANIFEST = {
    "text": "Level checker (LevelChecker::check_expr_level / check_entity_deref_target_level) transcribed on typed expressions; slice_at_level defined as in DESIGN C16. Theorems: acceptance monotone in n (full), slice monotone / subset / keeps entity data (full), slice soundness for a stated fragment (partial). Tied to /repo by correspondence on (policy, n) verdicts with error kinds and required levels, and by an implementation-level oracle: authorization over slice, full store and an intermediate store agree for accepted sets.",
    "technique": "proof (Coq, structural induction on typed expressions) + correspondence by differential execution + metamorphic oracle (slice vs full store)",
}

NS = [0, 1, 2, 3, 4, 5]

# ---------------------------------------------------------------------------------------------- schemas
def _ent(n):
    return {"type": "Entity", "name": n}


HAND_SCHEMAS = [
    # cyclic attribute graph User -> User, User -> Dept -> User; entity-typed tags; entity-typed context fields
    {"": {"entityTypes": {
        "User": {"memberOfTypes": ["Group", "User"],
                 "shape": {"type": "Record", "attributes": {
                     "manager": _ent("User"), "dept": _ent("Dept"),
                     "alt": dict(_ent("User"), required=False),
                     "flag": {"type": "Boolean"}, "n": {"type": "Long"},
                     "friends": {"type": "Set", "element": _ent("User")},
                     "rec": {"type": "Record", "attributes": {"friend": _ent("User"), "k": {"type": "Long"},
                                                               "inner": {"type": "Record", "attributes": {"boss": _ent("User")}}}}}},
                 "tags": _ent("User")},
        "Dept": {"memberOfTypes": ["Dept"],
                 "shape": {"type": "Record", "attributes": {"head": _ent("User"), "name": {"type": "String"},
                                                             "up": dict(_ent("Dept"), required=False)}},
                 "tags": {"type": "String"}},
        "Group": {},
        "Doc": {"memberOfTypes": ["Dept"],
                "shape": {"type": "Record", "attributes": {"owner": _ent("User"), "dept": _ent("Dept"),
                                                            "public": {"type": "Boolean"}}},
                "tags": {"type": "Set", "element": _ent("User")}}},
        "actions": {
            "grp": {},
            "view": {"memberOf": [{"id": "grp"}],
                     "appliesTo": {"principalTypes": ["User"], "resourceTypes": ["Doc"],
                                   "context": {"type": "Record", "attributes": {
                                       "actor": _ent("User"), "doc": dict(_ent("Doc"), required=False),
                                       "ok": {"type": "Boolean"},
                                       "info": {"type": "Record", "attributes": {"who": _ent("User")}}}}}},
            "edit": {"appliesTo": {"principalTypes": ["User"], "resourceTypes": ["Doc", "User"],
                                   "context": {"type": "Record", "attributes": {}}}}}}},
    # a two-cycle A <-> B with records in between, everything optional
    {"NS": {"entityTypes": {
        "A": {"memberOfTypes": ["B"], "shape": {"type": "Record", "attributes": {
            "b": dict(_ent("B"), required=False), "r": {"type": "Record", "attributes": {"b": dict(_ent("B"), required=False)}},
            "s": {"type": "String"}}}, "tags": _ent("B")},
        "B": {"shape": {"type": "Record", "attributes": {"a": _ent("A"), "x": {"type": "Long"}}}, "tags": _ent("A")}},
        "actions": {"act": {"appliesTo": {"principalTypes": ["A", "B"], "resourceTypes": ["A"],
                                          "context": {"type": "Record", "attributes": {"a": _ent("A")}}}}}}},
]


# ---------------------------------------------------------------------------------------------- policies
TRUE, FALSE = tgen.TRUE, tgen.FALSE


class LevelGen:
    """random walks along the schema's access paths (attributes, record fields, tags), wrapped in the
       constructs the level checker counts through: record literal + projection, if, getTag; and atoms
       that dereference the end of the walk: attribute read, `has`, `in` (left / right), hasTag/getTag."""

    def __init__(self, rng, rs, env):
        self.r, self.rs, self.env = rng, rs, env
        self.g = tgen.ExprGen(rng, rs, env, 2)
        self.roots = [(tgen.var("principal"), ("entity", env.principal), [], 0),
                      (tgen.var("resource"), ("entity", env.resource), [], 0),
                      (tgen.var("context"), env.context, [], 0)]
        self.features = set()
        self.maxhops = 0

    def steps(self, p):
        e, t, needs, hops = p
        h2 = hops + (1 if t[0] == "entity" else 0)
        return [(e2, t2, n2, h2) for e2, t2, n2 in self.g._steps(e, t, needs)]

    def lit_root(self):
        ty = self.r.choice(sorted(self.rs["etypes"]))
        return (self.g.entity_literal(ty), ("entity", ty), [], 0)

    def wrap(self, p, d):
        """an expression of the same (entity) type that reaches p through a record literal or an `if`"""
        r = self.r
        e, t, needs, hops = p
        c = r.random()
        if c < 0.35:
            other = self.walk(r.randint(0, 3), d - 1) if d > 0 and r.random() < 0.6 else None
            oe, on = (other[0], other[2]) if other else (tgen.lit("long", 1), [])
            self.features.add("wrap:record")
            if r.random() < 0.5:
                return (("getattr", ("record", sorted([("a", e), ("b", oe)])), "a"), t, needs + on, hops)
            return (("getattr", ("record", sorted([("a", oe), ("b", e)])), "b"), t, needs + on, hops)
        if c < 0.5:
            self.features.add("wrap:record_nested")
            return (("getattr", ("getattr", ("record", [("r", ("record", [("a", e)]))]), "r"), "a"), t, needs, hops)
        if c < 0.85:
            # another path of the same type in the other branch
            for _ in range(6):
                q = self.walk(r.randint(0, 3), d - 1) if d > 0 else None
                if q and q[1] == t:
                    cond = self.closed_bool(d - 1)
                    self.features.add("wrap:if")
                    self.maxhops = max(self.maxhops, q[3])
                    if r.random() < 0.5:
                        return (("if", cond, e, q[0]), t, needs + q[2], max(hops, q[3]))
                    return (("if", cond, q[0], e), t, needs + q[2], max(hops, q[3]))
            return p
        self.features.add("wrap:if_same")
        return (("if", self.closed_bool(0), e, e), t, needs, hops)

    def walk(self, k, d=1):
        """a path with about k steps from a request variable (rarely: an entity literal)"""
        r = self.r
        p = self.lit_root() if r.random() < 0.04 else r.choice(self.roots)
        for _ in range(k):
            if p[1][0] == "entity" and r.random() < 0.25 and d > 0:
                p = self.wrap(p, d)
            st = self.steps(p)
            if not st:
                break
            # prefer steps that can be continued
            cont = [s for s in st if s[1][0] in ("entity", "record")]
            p = r.choice(cont) if cont and r.random() < 0.8 else r.choice(st)
        return p

    def closed_bool(self, d):
        r = self.r
        if d > 0 and r.random() < 0.5:
            return self.atom(d - 1)
        return self.g.closed_atom_nonconst() if r.random() < 0.7 else self.g.closed_atom()

    def use(self, e, t):
        """a boolean reading a value of type t"""
        r = self.r
        k = t[0]
        if k == "bool":
            return e
        if k == "long":
            return ("binop", r.choice(["less", "eq"]), e, tgen.lit("long", r.choice([0, 1, 7])))
        if k == "string":
            return ("binop", "eq", e, tgen.lit("string", r.choice(["a", ""])))
        if k == "entity":
            return ("binop", "eq", e, self.g.entity_literal(t[1]) if r.random() < 0.5 else tgen.var("principal")) \
                if t[1] == self.env.principal or r.random() < 0.5 else ("is", e, t[1])
        if k == "set":
            return ("unop", "isEmpty", e) if r.random() < 0.5 else ("binop", "eq", e, e)
        return ("binop", "eq", e, e)

    def atom(self, d=1):
        """closed boolean (guards discharged by &&) that dereferences the end of a walk"""
        r = self.r
        for _ in range(8):
            p = self.walk(r.choice([0, 1, 1, 2, 2, 3, 4, 5]), d)
            if p[1][0] == "entity" and r.random() < 0.3 and d > 0:
                p = self.wrap(p, d)
            e, t, needs, hops = p
            c = r.random()
            b = None
            if t[0] == "entity":
                i = self.rs["etypes"].get(t[1])
                if c < 0.35:
                    st = self.steps(p)
                    if st:
                        e2, t2, n2, _ = r.choice(st)
                        b, needs = self.use(e2, t2), n2
                        self.features.add("atom:read")
                        hops += 1
                elif c < 0.5 and i and i["attrs"]:
                    b = ("hasattr", e, r.choice(i["attrs"])[0])
                    self.features.add("atom:has_entity")
                    hops += 1
                elif c < 0.7:
                    anc = [n for n in sorted(self.rs["etypes"]) if t[1] in self.rs["etypes"][n]["descendants"]] + [t[1]]
                    cc = r.random()
                    if cc < 0.4:
                        rhs = self.g.entity_literal(r.choice(anc))
                    elif cc < 0.6:
                        rhs = ("set", [self.g.entity_literal(r.choice(anc)) for _ in range(r.randint(1, 2))])
                    else:
                        q = self.walk(r.randint(0, 3), 0)
                        if q[1][0] != "entity":
                            continue
                        rhs, needs = q[0], needs + q[2]
                        self.maxhops = max(self.maxhops, q[3])
                    b = ("binop", "in", e, rhs)
                    self.features.add("atom:in_left")
                    hops += 1
                elif c < 0.8:
                    lhs = r.choice([tgen.var("principal"), tgen.var("resource")])
                    b = ("binop", "in", lhs, e)
                    self.features.add("atom:in_right")
                    hops = max(hops, 1)
                elif i and i["tags"] is not None:
                    ke = tgen.lit("string", r.choice(tgen.TAG_KEYS[:2]))
                    if r.random() < 0.4:
                        b = ("binop", "hasTag", e, ke)
                    else:
                        b = self.use(("binop", "getTag", e, ke), i["tags"])
                        needs = needs + [("binop", "hasTag", e, ke)]
                    self.features.add("atom:tag")
                    hops += 1
            elif t[0] == "record":
                if t[1] and c < 0.5:
                    b = ("hasattr", e, r.choice(t[1])[0])
                    self.features.add("atom:has_record")
                else:
                    st = self.steps(p)
                    if st:
                        e2, t2, n2, _ = r.choice(st)
                        b, needs = self.use(e2, t2), n2
                        self.features.add("atom:read_record")
            else:
                b = self.use(e, t)
                self.features.add("atom:value")
            if b is None:
                continue
            self.maxhops = max(self.maxhops, hops)
            return tgen.conj(tgen.dedup(needs) + [b])
        return TRUE

    def body(self):
        r = self.r
        a = self.atom(2)
        c = r.random()
        if c < 0.4:
            return a
        b = self.atom(1)
        if c < 0.55:
            return ("and", a, b)
        if c < 0.7:
            return ("or", a, b)
        if c < 0.8:
            return ("if", a, b, r.choice([TRUE, FALSE]))
        if c < 0.9:
            return ("or", ("unop", "not", a), b)
        return ("and", self.g.gen_bool(1), a)


def gen_targeted_policy(rng, rs, env, pid):
    """a policy whose FIRST evaluated sub-expression is a dereference chain of required entity attributes
       (no guards) with a record literal / nested record / `if` in the middle of the chain, under a scope
       that always matches the environment: evaluation reaches the dereference hidden behind the wrapper,
       so an under-count by the level checker shows as `entity does not exist` on the slice"""
    r = rng
    lg = LevelGen(rng, rs, env)
    kind = r.choice(["record", "record", "nested", "if", "if"])
    for _ in range(12):
        p = r.choice(lg.roots[:2])
        k = r.randint(2, 4)
        w = r.randint(1, k - 1)
        ok = True
        for i in range(k):
            if i == w:
                e, t, needs, hops = p
                if kind == "record":
                    oe = tgen.lit("long", 1) if r.random() < 0.5 else tgen.var("principal")
                    items = [("a", e), ("b", oe)] if r.random() < 0.5 else [("a", oe), ("b", e)]
                    key = "a" if items[0][1] is e else "b"
                    p = (("getattr", ("record", items), key), t, needs, hops)
                elif kind == "nested":
                    p = (("getattr", ("getattr", ("record", [("r", ("record", [("a", e)]))]), "r"), "a"), t, needs, hops)
                else:
                    shallow = [x for x in lg.roots[:2] if x[1] == t]
                    other = shallow[0][0] if shallow else e
                    cond = lg.g.closed_atom_nonconst()
                    p = (("if", cond, e, other) if r.random() < 0.5 else ("if", cond, other, e), t, needs, hops)
            st = [x for x in lg.steps(p) if x[1][0] == "entity" and len(x[2]) == len(p[2])
                  and rs["etypes"].get(x[1][1], {}).get("enum") is None]
            if not st:
                ok = False
                break
            p = r.choice(st)
        if not ok:
            continue
        if p[1][0] == "entity" and r.random() < 0.3:
            # the dereference chain sits in an operand whose static type is a constant (False): it is still EVALUATED, so it
            # still counts for the level (a typed AST that drops such operands would under-count)
            others = [n for n in sorted(rs["etypes"]) if n != p[1][1]]
            dead = ("hasattr", p[0], "zz_undeclared") if (r.random() < 0.6 or not others) else ("is", p[0], r.choice(others))
            live = lg.g.closed_atom_nonconst()
            body = r.choice([("or", dead, live), ("if", dead, TRUE, live), ("or", ("and", dead, live), live)])
            pol = {"id": pid, "effect": "permit", "principal": ("is", env.principal), "action": ("eq", env.action),
                   "resource": ("is", env.resource), "conds": [("when", body)], "annotations": []}
            return pol, ["targeted:" + kind, "targeted:const-typed-operand"], p[3] + 1
        st = [x for x in lg.steps(p) if len(x[2]) == len(p[2]) and x[1][0] in ("bool", "long", "string", "entity")]
        if not st:
            continue
        e2, t2, _, _ = r.choice(st)
        body = lg.use(e2, t2)
        if r.random() < 0.5:
            body = ("or", body, TRUE if r.random() < 0.5 else FALSE)
        pol = {"id": pid, "effect": "permit", "principal": ("is", env.principal), "action": ("eq", env.action),
               "resource": ("is", env.resource), "conds": [("when", body)], "annotations": []}
        return pol, ["targeted:" + kind], p[3] + 1
    return None


def gen_level_policy(rng, rs, env, pid):
    lg = LevelGen(rng, rs, env)
    r = rng

    def pr(ty):
        c = r.random()
        i = rs["etypes"][ty]
        uid = U(ty, r.choice(i["enum"]) if i["enum"] is not None else r.choice(IDS))
        if c < 0.6:
            return ("is", ty)
        if c < 0.75:
            return ("eq", uid)
        anc = [n for n in sorted(rs["etypes"]) if ty in rs["etypes"][n]["descendants"]] + [ty]
        ai = rs["etypes"][anc[0]]
        auid = U(anc[0], r.choice(ai["enum"]) if ai["enum"] is not None else r.choice(IDS))
        return ("isin", ty, auid)
    body = lg.body()
    pol = {"id": pid, "effect": r.choice(["permit", "permit", "forbid"]), "principal": pr(env.principal),
           "action": ("eq", env.action), "resource": pr(env.resource),
           "conds": [(r.choice(["when", "when", "when", "unless"]), body)], "annotations": []}
    return pol, sorted(lg.features), lg.maxhops


# ---------------------------------------------------------------------------------------------- data
def gen_store(rng, rs, env, hints, depth, p_present=0.9):
    """tgen.gen_env with a deeper store (entities reachable to `depth` hops are each present w.p. p_present)"""
    r = rng
    dg = DataGen(rs, r)
    hints = [h for h in (hints or []) if h[1] in rs["etypes"]]
    by_type = {}
    for h in hints:
        by_type.setdefault(h[1], []).append(h)
    orig_uid_of = dg.uid_of

    def biased(ty, fresh=None):
        if fresh is None and ty in by_type and r.random() < 0.3:
            return r.choice(by_type[ty])
        return orig_uid_of(ty, fresh)
    dg.uid_of = biased
    q = {"principal": biased(env.principal), "action": env.action, "resource": biased(env.resource),
         "context": sorted(dg.record_fields(env.context[1]))}
    ents = {}

    def add(u, d):
        if u in ents or u[1] not in rs["etypes"]:
            return
        i = rs["etypes"][u[1]]
        if i["enum"] is not None:
            e = {"uid": u, "attrs": [], "tags": [], "parents": []}
        else:
            e = dg.entity(u[1], u[2])
            e["uid"] = u
        ps = [p for p in e["parents"] if p != u]
        for pt in dg.permitted_parent_types(u[1]):
            for h in by_type.get(pt, []):
                if h != u and h not in ps and r.random() < 0.5:
                    ps.append(h)
        e["parents"] = ps
        ents[u] = e
        if d > 0:
            for x in entity_uids(e) + ps:
                if r.random() < p_present:
                    add(x, d - 1)

    for u in (q["principal"], q["resource"]):
        if r.random() < 0.95:
            add(u, depth)
    for x in attrs_uids(q["context"]):
        if r.random() < p_present:
            add(x, depth - 1)
    for x in hints:
        if r.random() < 0.5:
            add(x, 1)
    order = {u: k for k, u in enumerate(sorted(ents))}
    for u, e in ents.items():
        e["parents"] = [p for p in e["parents"] if p not in ents or order[p] > order[u]]
    out = [ents[u] for u in sorted(ents)]
    if r.random() < 0.9:
        out += [dg.action_entity(a) for a in sorted(rs["actions"])]
    return q, out


# ---------------------------------------------------------------------------------------------- the slice (Python side)
def value_uids(v):
    k = v[0]
    if k == "prim":
        return [v[1][1]] if v[1][0] == "entity" else []
    if k == "set":
        return [u for x in v[1] for u in value_uids(x)]
    if k == "record":
        return [u for _, x in v[1] for u in value_uids(x)]
    return []


def attrs_uids(kvs):
    return [u for _, v in kvs for u in value_uids(v)]


def entity_uids(e):
    return attrs_uids(e["attrs"]) + attrs_uids(e.get("tags", []))


def py_slice(n, q, ents):
    """DESIGN C16: level 0 nothing; level 1 principal/action/resource + uids in the context; each further
       level the uids mentioned in attribute / tag values of the previous one"""
    by = {e["uid"]: e for e in ents}
    keep = set()
    front = [q["principal"], q["action"], q["resource"]] + attrs_uids(q["context"])
    for _ in range(n):
        new = [u for u in front if u not in keep]
        keep.update(front)
        front = [x for u in new if u in by for x in entity_uids(by[u])]
    return [e["uid"] for e in ents if e["uid"] in keep]


def sub_store(ents, uids):
    """the sub-store with exactly these entities, each with its attributes, tags and FULL ancestor set"""
    s = set(uids)
    return [{"uid": e["uid"], "attrs": e["attrs"], "tags": e.get("tags", []),
             "parents": cedar.ancestors_of(ents, e["uid"])} for e in ents if e["uid"] in s]


# ---------------------------------------------------------------------------------------------- commands
def level_cmd(js, pols):
    return {"cmd": "level", "schema_json": js, "ns": NS, "dump_typed": True,
            "policies": [{"id": p["id"], "text": tgen.policy_text(p)} for p in pols]}


def auth_cmd(pols, q, ents):
    return {"cmd": "authorize", "templates": [],
            "policies": [{"id": p["id"], "text": tgen.policy_text(p)} for p in pols],
            "request": cedar.request_json(q), "entities": cedar.entities_json(ents)}


def canon_auth(r):
    if "decision" not in r:
        return ("bad", json.dumps(r, sort_keys=True)[:300])
    return (r["decision"], tuple(sorted(r["reasons"])), tuple(sorted((i, c) for i, c in r["errors"])),
            r["api_decision"], tuple(sorted(r["api_reasons"])), tuple(sorted(r["api_errors"])))


def canon_rust_lerrs(lst):
    out = set()
    for s in lst:
        if s.startswith("max "):
            out.add(("max", int(s.split()[2])))
        else:
            out.add((s,))
    return out


def canon_model_lerrs(s):
    if not (isinstance(s, list) and len(s) == 2 and s[0] == "lerrs"):
        return None
    out = set()
    for x in s[1]:
        if isinstance(x, list):
            out.add(("max", int(x[1])))
        else:
            out.add((str(x),))
    return out


def uid_of_sx(s):
    return U(tuple(x.text() for x in s[1]), s[2].text())


def build_sets(rng, tier):
    """[(schema, [policy], info)]"""
    nsets = 170 if tier == "quick" else 2500
    schemas = [S.FixedSchema(js) for js in HAND_SCHEMAS]
    nrand = 6 if tier == "quick" else 60
    for _ in range(nrand):
        schemas.append(tgen.gen_schema(rng))
    out = []
    for k in range(nsets):
        sg = schemas[0] if rng.random() < 0.45 else rng.choice(schemas)
        envs = tgen.request_envs(sg.rs)
        env = rng.choice(envs)
        pols, feats, hops, kinds = [], set(), 0, []
        if rng.random() < 0.3:
            tp = gen_targeted_policy(rng, sg.rs, env, "p0")
            if tp is not None:
                out.append({"schema": sg, "env": env, "policies": [tp[0]], "features": tp[1], "hops": tp[2],
                            "kinds": ["targeted"]})
                continue
        for i in range(rng.choice([1, 1, 2, 3])):
            c = rng.random()
            if c < 0.75:
                p, f, h = gen_level_policy(rng, sg.rs, env if rng.random() < 0.7 else rng.choice(envs), "p%d" % i)
                feats.update(f)
                hops = max(hops, h)
                kinds.append("level")
            elif c < 0.92:
                tp = tgen.gen_policy(rng, sg.rs, well_typed=True, env=env, allow_slots=False, pid="p%d" % i)
                p = tp.policy
                kinds.append("tgen")
            else:
                tp = tgen.gen_policy(rng, sg.rs, well_typed=False, env=env, allow_slots=False, pid="p%d" % i)
                p = tp.policy
                kinds.append("tgen_fault:%s" % tp.fault)
            pols.append(p)
        try:
            for p in pols:
                tgen.policy_text(p)
        except cedar.NotExpressible:
            continue
        out.append({"schema": sg, "env": env, "policies": pols, "features": sorted(feats), "hops": hops, "kinds": kinds})
    return out


def describe(c, extra=None):
    d = {"schema": c["schema"].js, "policies": [{"id": p["id"], "text": tgen.policy_text(p)} for p in c["policies"]]}
    d.update(extra or {})
    return d


def run(rep, tier, seed):
    ob, dis, details, failures = fw.check_props(PROP_FILE, THEOREMS, tier)
    harness = fw.build_harness()
    driver = fw.build_model_driver()
    rng = random.Random(seed)
    sets = build_sets(rng, tier)
    npairs = 20 if tier == "quick" else 24

    # ---- phase 1: level validation of every set at every n (Rust), typed ASTs for the model
    lres = fw.run_rust(harness, [level_cmd(c["schema"].js, c["policies"]) for c in sets])
    mcmds, mmeta = [], []
    stats = {"sets": len(sets), "policies": 0, "base_rejected": 0, "min_level_hist": {}, "never_accepted": 0,
             "literal_deref": 0, "internal": 0, "features": {}, "policy_kinds": {}, "auth_pairs": 0,
             "slice_smaller_than_store": 0, "slice_sizes": {}, "decisions": {}, "with_errors": 0,
             "entity_missing_errors": 0, "model_level_cmds": 0, "model_slice_cmds": 0}
    accepted_at = []          # per set: minimal n at which every policy passes (or None)
    for ci, (c, lr) in enumerate(zip(sets, lres)):
        if "policies" not in lr:
            rep.violation({"property": PROP, "kind": "level command failed", "case": describe(c), "rust": lr},
                          no_failing_input=True)
            accepted_at.append(None)
            continue
        for f in c["features"]:
            stats["features"][f] = stats["features"].get(f, 0) + 1
        for k in c["kinds"]:
            stats["policy_kinds"][k] = stats["policy_kinds"].get(k, 0) + 1
        set_ok = {n: True for n in NS}
        for pi, pr in enumerate(lr["policies"]):
            stats["policies"] += 1
            if "parse_error" in pr:
                rep.violation({"property": PROP, "kind": "generated policy does not parse (generator bug)",
                               "case": describe(c), "rust": pr}, no_failing_input=True)
                set_ok = {n: False for n in NS}
                continue
            if not pr["base_passed"]:
                stats["base_rejected"] += 1
            passed = [pr["levels"][str(n)]["passed"] for n in NS]
            # oracle: monotone in n
            for a, b in zip(NS, NS[1:]):
                if pr["levels"][str(a)]["passed"] and not pr["levels"][str(b)]["passed"]:
                    rep.violation({"property": PROP, "kind": "acceptance not monotone in the level: accepted at %d, rejected at %d" % (a, b),
                                   "case": describe(c), "policy": pr["id"], "levels": pr["levels"]})
            for n in NS:
                lv = pr["levels"][str(n)]
                if not lv["passed"]:
                    set_ok[n] = False
                # consistency of the API answer with itself: passed <=> no errors at all
                if lv["passed"] != (not lv["all_kinds"]):
                    rep.violation({"property": PROP, "kind": "validation_passed disagrees with the error list",
                                   "case": describe(c), "policy": pr["id"], "n": n, "levels": lv})
                # without level errors the verdict is the base verdict
                if (not lv["level_errors"]) and lv["passed"] != pr["base_passed"]:
                    rep.violation({"property": PROP, "kind": "no level error but verdict differs from plain validation",
                                   "case": describe(c), "policy": pr["id"], "n": n, "levels": lv})
                errs = canon_rust_lerrs(lv["level_errors"])
                if ("literal",) in errs and n == 0:
                    stats["literal_deref"] += 1
                if ("internal",) in errs and n == 0:
                    stats["internal"] += 1
            if pr["base_passed"]:
                mn = next((n for n in NS if passed[n]), None)
                stats["min_level_hist"][str(mn)] = stats["min_level_hist"].get(str(mn), 0) + 1
            # model commands: one per (env with a typed AST, n)
            for ei, ev in enumerate(pr["envs"]):
                if ev["typed"] is None or ev["env"] == "undeclared_action":
                    continue
                tsx = texpr.texpr_sx(ev["typed"])
                esx = texpr.reqenv_sx(ev["env"])
                for n in NS:
                    mcmds.append([Sym("level"), esx, tsx, n])
                    mmeta.append((ci, pi, n))
        for n in NS:
            s = lr["set"][str(n)]
            if s["core_passed"] != set_ok[n] or (s["api_passed"] is not None and s["api_passed"] != set_ok[n]):
                rep.violation({"property": PROP, "kind": "whole-set verdict differs from the conjunction of the per-policy verdicts",
                               "case": describe(c), "n": n, "set": s, "per_policy": set_ok[n]})
        mn = next((n for n in NS if set_ok[n]), None)
        accepted_at.append(mn)
        if mn is None:
            stats["never_accepted"] += 1

    # ---- correspondence (a): model level checker vs Rust, per (policy, n): union over the environments
    mres = fw.run_model(driver, mcmds)
    stats["model_level_cmds"] = len(mcmds)
    union = {}
    for (ci, pi, n), mr in zip(mmeta, mres):
        cm = canon_model_lerrs(mr)
        if cm is None:
            rep.violation({"property": PROP, "kind": "model could not decode the typed expression", "case": describe(sets[ci]),
                           "model": repr(mr)[:500]}, no_failing_input=True)
            cm = set()
        union.setdefault((ci, pi, n), set()).update(cm)
    lvl_cmp = 0
    for (ci, pi, n), merrs in sorted(union.items()):
        pr = lres[ci]["policies"][pi]
        rerrs = canon_rust_lerrs(pr["levels"][str(n)]["level_errors"])
        lvl_cmp += 1
        if rerrs != merrs and bool(rerrs) == bool(merrs):
            # same accept/reject verdict of the level checker, different error KINDS / required levels:
            # compared loosely (counted and sampled in the evidence, not a violation)
            stats["kind_only_differences"] = stats.get("kind_only_differences", 0) + 1
            stats.setdefault("kind_only_sample", {"policy": tgen.policy_text(sets[ci]["policies"][pi]), "n": n,
                                                  "rust": sorted(rerrs), "model": sorted(merrs)})
        elif rerrs != merrs:
            rep.violation({"property": PROP, "kind": "level checker: model and implementation differ",
                           "model_function": "Level.lv / level_errors", "rust_entry": "Validator::validate_with_level (LevelChecker)",
                           "theorems_losing_transfer": ["c16_monotone", "c16_slice_sound_partial"],
                           "case": describe(sets[ci]), "policy": pr["id"], "n": n,
                           "rust": sorted(rerrs), "model": sorted(merrs)}, no_failing_input=True)

    # ---- phase 2: authorization over full store / slice / store in between, for accepted sets
    acmds, ameta, scmds, smeta = [], [], [], []
    for ci, c in enumerate(sets):
        mn = accepted_at[ci]
        if mn is None or mn > 5:
            continue
        targeted = c["kinds"] == ["targeted"]
        hints = []
        for p in c["policies"]:
            hints += tgen.policy_uids(p)
        rs = c["schema"].rs
        envs = tgen.request_envs(rs)
        for k in range(npairs):
            env = c["env"] if rng.random() < 0.85 else rng.choice(envs)
            if targeted:
                q, ents = gen_store(rng, rs, c["env"], hints, depth=rng.choice([4, 5, 6]), p_present=rng.choice([0.9, 1.0, 1.0]))
            else:
                q, ents = gen_store(rng, rs, env, hints, depth=rng.choice([2, 3, 4, 5]), p_present=rng.choice([0.6, 0.8, 0.9, 1.0]))
            n = mn if rng.random() < 0.8 else min(mn + 1, 5)
            keep = py_slice(n, q, ents)
            rest = [e["uid"] for e in ents if e["uid"] not in set(keep)]
            between = keep + [u for u in rest if rng.random() < 0.5]
            stats["auth_pairs"] += 1
            stats["slice_smaller_than_store"] += 1 if rest else 0
            key = "%d/%d" % (min(len(keep), 12), min(len(ents), 12))
            stats["slice_sizes"][key] = stats["slice_sizes"].get(key, 0) + 1
            base = len(acmds)
            acmds.append(auth_cmd(c["policies"], q, ents))
            acmds.append(auth_cmd(c["policies"], q, sub_store(ents, keep)))
            acmds.append(auth_cmd(c["policies"], q, sub_store(ents, between)))
            ameta.append((ci, n, q, ents, keep, between, base))
            if k < 4:
                scmds.append([Sym("slice"), n, cedar.request_sx(q), cedar.entities_sx(ents)])
                smeta.append((ci, n, q, ents, keep))
    ares = fw.run_rust(harness, acmds)
    distinct = set()
    for ci, n, q, ents, keep, between, base in ameta:
        c = sets[ci]
        full, sl, bt = (canon_auth(ares[base + j]) for j in range(3))
        if full[0] == "bad":
            rep.violation({"property": PROP, "kind": "authorize command failed (generator / harness)", "case": describe(c),
                           "rust": ares[base]}, no_failing_input=True)
            continue
        stats["decisions"][full[0]] = stats["decisions"].get(full[0], 0) + 1
        stats["with_errors"] += 1 if full[2] else 0
        stats["entity_missing_errors"] += 1 if any(cl == "ErrEntityMissing" or "ntity" in str(cl) for _, cl in full[2]) else 0
        for name, other, uids in (("slice", sl, keep), ("between", bt, between)):
            if other != full:
                rep.violation({"property": PROP,
                               "kind": "authorization over the level-%d %s differs from authorization over the full store" % (n, name),
                               "case": describe(c), "n": n, "request": cedar.request_json(q),
                               "entities": cedar.entities_json(ents), "kept": [cedar.uid_json(u) for u in uids],
                               "full": full, "other": other,
                               "rust_cmd_full": acmds[base], "rust_cmd_other": acmds[base + (1 if name == "slice" else 2)]})
        if c["hops"] >= 1 or n >= 1:
            distinct.add(fw.case_hash([describe(c), cedar.request_json(q), cedar.entities_json(ents), n]))

    # ---- correspondence (b): model slice vs Python slice
    sres = fw.run_model(driver, scmds)
    stats["model_slice_cmds"] = len(scmds)
    for (ci, n, q, ents, keep), sr in zip(smeta, sres):
        ok = isinstance(sr, list) and len(sr) == 2 and sr[0] == "slice"
        got = [uid_of_sx(x) for x in sr[1]] if ok else None
        if got != keep:
            rep.violation({"property": PROP, "kind": "slice: model slice_at_level and the oracle's Python slice differ",
                           "model_function": "Level.slice_at_level", "theorems_losing_transfer": ["c16_slice_sound_partial"],
                           "n": n, "request": cedar.request_json(q), "entities": cedar.entities_json(ents),
                           "python": [cedar.uid_json(u) for u in keep], "model": repr(sr)[:2000]}, no_failing_input=True)

    nx = fw.coq_crosscheck(mcmds[:30] + scmds[:10], mres[:30] + sres[:10], PROP)
    for f in failures:
        rep.violation({"property": PROP, "kind": "proof obligation no longer checks", "detail": f}, no_failing_input=True)
    sample = None
    if ameta:
        ci, n, q, ents, keep, between, base = ameta[len(ameta) // 2]
        sample = describe(sets[ci], {"n": n, "request": cedar.request_json(q), "entities": cedar.entities_json(ents),
                                     "slice": [cedar.uid_json(u) for u in keep], "response": ares[base]})
    rep.coverage = {
        "obligations": ob, "discharged": dis,
        "checker_cmd": "make -C coq props/%s.vo (coqc 8.16.1) + Print Assumptions" % PROP_FILE,
        "trusted_base": fw.TRUSTED_BASE, "theorems": details,
        "evaluations": len(lres) + len(acmds), "distinct_nontrivial": len(distinct),
        "rule": "policy sets (1-3 policies) over %d hand-written cyclic schemas and random tgen schemas; every policy validated at levels 0..5 (model compared per (policy, n): set of {max(actual level), literal, internal}); each set accepted at some n<=4 is authorized on %d conformant (request, store) pairs x {full store, level-n slice, random store in between}; non-trivial = distinct (set, request, store, n) with n>=1 or a policy with an entity dereference" % (len(HAND_SCHEMAS), npairs),
        "traces_validated_against_impl": lvl_cmp + len(scmds), "vm_compute_crosscheck_cases": nx,
        "level_verdict_comparisons": lvl_cmp, "histograms": stats,
        "samples": [sample] if sample else [describe(sets[0])],
    }
    rep.assumptions = [
        "slice definition (not in /repo): DESIGN C16 — level 0 empty, level 1 = principal/action/resource/context uids, +1 hop per level; kept entities keep attrs, tags, full ancestor set",
        "requests and stores are conformant to the schema (generated by DataGen; not re-validated by the authorizer)",
        "level checker correspondence: accept/reject (no level error vs some level error) compared strictly per (policy, n); the set of error kinds (+ required level) compared loosely — a kind-only difference is counted in histograms.kind_only_differences, not reported; source locations ignored",
        "strict validation mode; static policies only",
    ]


def replay(rep, path):
    d = json.load(open(path))
    print(json.dumps(d, indent=1)[:6000])
    harness = fw.build_harness()
    cmds = [d[k] for k in ("rust_cmd_full", "rust_cmd_other") if k in d]
    if cmds:
        res = fw.run_rust(harness, cmds)
        for r in res:
            print(json.dumps(r))
        if len(res) == 2 and canon_auth(res[0]) != canon_auth(res[1]):
            rep.violation(d)
