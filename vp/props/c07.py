"""C07 — extension types (decimal, ip, datetime, duration) compute exact results.
   Correspondence: model `xeval` (coq/model/ExtParse.v, extracted) vs the real evaluator on
   extension-call trees (harness `ext_call`, built through the public constructors and, for
   well-formed calls, also parsed from Cedar text).  The model is the oracle for exactness;
   in addition implementation-only oracles: independent recomputation of valid constructor
   strings with Python's fractions / ipaddress / datetime, and metamorphic laws (trichotomy,
   transitivity, a.isInRange(a), toDate+toTime, equality under re-spelling)."""
import datetime as _dt
import ipaddress
import itertools
import random
from fractions import Fraction

import cedar
import framework as fw
from sx import Str, Sym

PROP = "C07"
PROP_FILE = "C07_Ext"
THEOREMS = ['c07_decimal_spec', 'c07_decimal_digit_table_irrelevant', 'c07_decimal_constructor', 'c07_decimal_cmp', 'c07_offset_exact', 'c07_duration_since_exact', 'c07_to_date_exact', 'c07_to_time_exact', 'c07_to_date_plus_to_time', 'c07_duration_to_exact', 'c07_rel_exact', 'c07_eq_by_value', 'c07_days_from_civil_correct', 'c07_in_range_partial', 'c07_duration_range_partial', 'c07_duration_spec', 'c07_in_range', 'c07_loopback', 'c07_multicast', 'c07_days_from_civil_monotone', 'c07_days_from_civil_injective', 'c07_datetime_spec_partial', 'c07_ip_spec_partial']

MANIFEST = {
    "text": "Executable Gallina parsers and operations for decimal/ip/datetime/duration transcribed from extensions/{decimal,ipaddr,datetime}.rs (regex recognisers, from_str semantics, checked arithmetic, std::net parser, civil-date arithmetic); parser characterisations and exactness of every operation proved in Coq for all strings / all values (props/C07_Ext.v); tied to /repo by differential execution of the extracted model against the evaluator on grammar-generated, boundary, single-character-mutated and exhaustively enumerated short constructor strings and on all pairs of boundary values for every operation.",
    "technique": "proof (Coq) + correspondence by differential execution + independent recomputation / metamorphic oracles on the implementation",
}

I64_MAX = 2 ** 63 - 1
I64_MIN = -2 ** 63

CTOR = {"decimal": "decimal", "ip": "ip", "datetime": "datetime", "duration": "duration"}
ARITY = {"decimal": 1, "ip": 1, "datetime": 1, "duration": 1,
         "lessThan": 2, "lessThanOrEqual": 2, "greaterThan": 2, "greaterThanOrEqual": 2,
         "isIpv4": 1, "isIpv6": 1, "isLoopback": 1, "isMulticast": 1, "isInRange": 2,
         "offset": 2, "durationSince": 2, "toDate": 1, "toTime": 1,
         "toMilliseconds": 1, "toSeconds": 1, "toMinutes": 1, "toHours": 1, "toDays": 1}


# ------------------------------------------------------------------ trees
def S(x):
    return ("s", x)


def C(fn, *args):
    return ("call", fn, list(args))


def R(op, a, b):
    return ("rel", op, a, b)


def t_json(t):
    k = t[0]
    if k == "s":
        return {"s": t[1]}
    if k == "i":
        return {"i": str(t[1])}
    if k == "b":
        return {"b": t[1]}
    if k == "call":
        return {"call": t[1], "args": [t_json(a) for a in t[2]]}
    return {"op": {"lt": "<", "le": "<=", "eq": "=="}[t[1]], "args": [t_json(t[2]), t_json(t[3])]}


def t_sx(t):
    k = t[0]
    if k == "s":
        return [Sym("s"), Str(t[1])]
    if k == "i":
        return [Sym("i"), t[1]]
    if k == "b":
        return [Sym("b"), Sym("true" if t[1] else "false")]
    if k == "call":
        return [Sym("call"), Str(t[1]), [t_sx(a) for a in t[2]]]
    return [Sym("rel"), Sym(t[1]), t_sx(t[2]), t_sx(t[3])]


def t_text(t):
    """Cedar text of a well-formed tree (None when the surface syntax cannot say it)"""
    k = t[0]
    if k == "s":
        if any(0xD800 <= ord(c) <= 0xDFFF for c in t[1]):
            return None
        return cedar.str_lit(t[1])
    if k == "i":
        return str(t[1]) if 0 <= t[1] <= I64_MAX else None
    if k == "b":
        return "true" if t[1] else "false"
    if k == "call":
        fn, args = t[1], t[2]
        if fn not in ARITY or len(args) != ARITY[fn]:
            return None
        parts = [t_text(a) for a in args]
        if any(p is None for p in parts):
            return None
        if fn in CTOR:
            return "%s(%s)" % (fn, parts[0])
        return "(%s).%s(%s)" % (parts[0], fn, ", ".join(parts[1:]))
    a, b = t_text(t[2]), t_text(t[3])
    if a is None or b is None:
        return None
    return "(%s) %s (%s)" % (a, {"lt": "<", "le": "<=", "eq": "=="}[t[1]], b)


ERR = {"FailedExtensionFunctionExecution": "ErrExt", "TypeError": "ErrType",
       "WrongNumArguments": "ErrArity", "FailedExtensionFunctionLookup": "ErrUnknownFn"}


def canon_rust(r):
    if "ok" in r:
        v = r["ok"]
        if "bool" in v:
            return ("ok", ("bool", v["bool"]))
        if "long" in v:
            return ("ok", ("long", int(v["long"])))
        if "ext" in v:
            x = v["ext"]
            if x[0] == "ip":
                return ("ok", ("ip", x[1], int(x[2]), int(x[3])))
            if x[0] in ("decimal", "datetime", "duration"):
                return ("ok", (x[0], int(x[1])))
            return ("unreadable", repr(x))
        return ("other", repr(v))
    if "err" in r:
        return ("err", ERR.get(r["err"], r["err"]))
    if "parse_error" in r:
        return ("parse_error", r["parse_error"])
    return ("abnormal", repr(r))


def canon_model(m):
    if isinstance(m, list) and m and m[0] == "ok":
        v = m[1]
        if v[0] == "prim":
            p = v[1]
            if p[0] == "bool":
                return ("ok", ("bool", p[1] == "true"))
            if p[0] == "long":
                return ("ok", ("long", p[1]))
        if v[0] == "ext":
            x = v[1]
            if x[0] == "ip":
                return ("ok", ("ip", x[1] == "true", x[2], x[3]))
            return ("ok", (str(x[0]), x[1]))
        return ("other", repr(v))
    if isinstance(m, list) and m and m[0] == "err":
        return ("err", str(m[1]))
    return ("model_error", repr(m))


# ------------------------------------------------------------------ valid-string grammars with independent expected values
def digits(rng, n, first_nonzero=False):
    s = "".join(rng.choice("0123456789") for _ in range(n))
    if first_nonzero and s and s[0] == "0":
        s = rng.choice("123456789") + s[1:]
    return s


def gen_decimal(rng):
    neg = rng.random() < 0.4
    i = digits(rng, rng.choice([1, 1, 2, 3, 6, 12, 15]))
    if rng.random() < 0.2:
        i = "0" * rng.randint(1, 4) + i
    if rng.random() < 0.15:
        i = str(rng.choice([922337203685477, 922337203685476, 0, 1]))
    f = digits(rng, rng.randint(1, 4))
    s = ("-" if neg else "") + i + "." + f
    v = Fraction(int(i)) + Fraction(int(f), 10 ** len(f))
    v = -v if neg else v
    val = v * 10000
    assert val.denominator == 1
    val = int(val)
    return s, (("decimal", val) if I64_MIN <= val <= I64_MAX else None)


def gen_ipv4_text(rng):
    octs = [rng.choice([0, 1, 9, 10, 99, 100, 127, 128, 199, 200, 224, 239, 240, 249, 250, 255, rng.randint(0, 255)]) for _ in range(4)]
    return ".".join(map(str, octs)), (((octs[0] * 256 + octs[1]) * 256 + octs[2]) * 256 + octs[3])


def gen_ipv6_text(rng):
    groups = [rng.choice([0, 0, 0, 1, 0xff, 0xff00, 0xffff, 0xabcd, rng.randint(0, 0xffff)]) for _ in range(8)]

    def hexg(g):
        h = "%x" % g
        if rng.random() < 0.3:
            h = h.upper()
        if rng.random() < 0.3:
            h = h.rjust(rng.randint(len(h), 4), "0")
        return h
    val = 0
    for g in groups:
        val = val * 65536 + g
    # optionally compress one run of zero groups (of any length >= 1)
    runs = [(i, j) for i in range(8) for j in range(i + 1, 9) if all(g == 0 for g in groups[i:j])]
    if runs and rng.random() < 0.7:
        i, j = rng.choice(runs)
        txt = ":".join(hexg(g) for g in groups[:i]) + "::" + ":".join(hexg(g) for g in groups[j:])
    else:
        txt = ":".join(hexg(g) for g in groups)
    return txt, val


def gen_ip(rng):
    v6 = rng.random() < 0.5
    txt, val = gen_ipv6_text(rng) if v6 else gen_ipv4_text(rng)
    width = 128 if v6 else 32
    if rng.random() < 0.6:
        p = rng.choice([0, 1, 7, 8, 9, 16, 24, 31, 32, 33, 64, 127, 128, 129, rng.randint(0, 140)])
        txt2 = "%s/%d" % (txt, p)
        exp = ("ip", v6, val, p) if p <= width else None
        if len(txt2.encode()) > 43:
            exp = None
        return txt2, exp
    return txt, (("ip", v6, val, width) if len(txt.encode()) <= 43 else None)


EPOCH = _dt.date(1970, 1, 1)


def civil_days(y, m, d):
    """independent day count (Python's proleptic Gregorian ordinal); the year is moved into
       2000..2399 by whole 400-year cycles (146097 days each)"""
    y2 = y % 400 + 2000
    try:
        return (_dt.date(y2, m, d) - EPOCH).days + ((y - y2) // 400) * 146097
    except ValueError:
        return None


def gen_datetime(rng):
    y = rng.choice([0, 1, 4, 100, 400, 1600, 1899, 1900, 1969, 1970, 1971, 1999, 2000, 2023, 2024, 2100, 9999, rng.randint(0, 9999)])
    m = rng.choice([1, 2, 2, 3, 4, 6, 9, 11, 12, rng.randint(0, 13)])
    d = rng.choice([1, 28, 29, 30, 31, rng.randint(0, 32)])
    days = civil_days(y, m, d) if 1 <= m <= 12 and 1 <= d <= 31 else None
    s = "%04d-%02d-%02d" % (y, m, d)
    shape = rng.randint(0, 4)
    if shape == 0:
        return s, (("datetime", days * 86400000) if days is not None else None)
    h = rng.choice([0, 1, 12, 23, 23, 24, rng.randint(0, 25)])
    mi = rng.choice([0, 30, 59, 59, 60, rng.randint(0, 61)])
    sec = rng.choice([0, 30, 59, 59, 60, rng.randint(0, 61)])
    s += "T%02d:%02d:%02d" % (h, mi, sec)
    ms = 0
    if shape in (2, 4):
        ms = rng.choice([0, 1, 500, 999, rng.randint(0, 999)])
        s += ".%03d" % ms
    osec = 0
    ok = days is not None and h < 24 and mi < 60 and sec < 60
    if shape in (1, 2):
        s += "Z"
    else:
        sg = rng.choice("+-")
        oh = rng.choice([0, 1, 5, 12, 23, 23, 24, rng.randint(0, 30)])
        om = rng.choice([0, 30, 45, 59, 59, 60, rng.randint(0, 70)])
        s += "%s%02d%02d" % (sg, oh, om)
        ok = ok and oh < 24 and om < 60
        osec = (oh * 3600 + om * 60) * (1 if sg == "+" else -1)
    if not ok:
        return s, None
    return s, ("datetime", ((days * 86400 + h * 3600 + mi * 60 + sec) - osec) * 1000 + ms)


DUR_UNITS = [("d", 86400000), ("h", 3600000), ("m", 60000), ("s", 1000), ("ms", 1)]


def gen_duration(rng):
    neg = rng.random() < 0.4
    s = "-" if neg else ""
    total = 0
    present = [u for u in DUR_UNITS if rng.random() < 0.45]
    if not present:
        present = [rng.choice(DUR_UNITS)]
    for u, mul in present:
        n = rng.choice([0, 1, 7, 59, 60, 999, 1000, rng.randint(0, 10 ** rng.randint(1, 9))])
        if rng.random() < 0.08:
            n = rng.choice([I64_MAX // mul, I64_MAX // mul + 1, 2 ** 63 // mul, 2 ** 64 - 1, 2 ** 64])
        t = str(n)
        if rng.random() < 0.1:
            t = "0" * rng.randint(1, 3) + t
        s += t + u
        total += n * mul
    total = -total if neg else total
    return s, (("duration", total) if I64_MIN <= total <= I64_MAX else None)


GEN = {"decimal": gen_decimal, "ip": gen_ip, "datetime": gen_datetime, "duration": gen_duration}

# ------------------------------------------------------------------ documented boundaries
BOUNDARY = {
    "decimal": ["0.0", "-0.0", "0.0000", "1.0", "1.00", "1.000", "1.0000", "1.00000", "-1.5", "1.5000", "01.5", "001.0500",
                "922337203685477.5807", "922337203685477.5808", "-922337203685477.5808", "-922337203685477.5809",
                "922337203685477.58070", "922337203685478.0", "-922337203685478.0", "9223372036854775807.0",
                "-9223372036854775808.0", "9223372036854775808.0", "0.9999", "0.99999", "-0.0001", "0.00001",
                "1.", ".5", "1", "", "-", ".", "-.5", "+1.5", "1.5 ", " 1.5", "1..5", "1.5.5", "1e3", "1.5e3", "--1.5",
                "1.-5", "1.+5", "-0.5", "00000000000000000000001.5", "1.٥", "١.5", "１.５", "1.5\n"],
    "ip": ["0.0.0.0", "255.255.255.255", "127.0.0.1", "127.255.255.255", "128.0.0.0", "126.255.255.255", "224.0.0.0",
           "239.255.255.255", "240.0.0.0", "223.255.255.255", "10.0.0.0/8", "10.0.0.0/0", "10.0.0.0/32", "10.0.0.0/33",
           "10.0.0.0/032", "10.0.0.0/08", "10.0.0.0/00", "10.0.0.0/", "10.0.0.0/+8", "10.0.0.0/8/8", "10.0.0.0/256",
           "127.0.0.1/7", "127.0.0.1/8", "127.0.0.1/9", "224.0.0.1/3", "224.0.0.1/4", "224.0.0.1/5",
           "01.2.3.4", "1.2.3.04", "1.2.3.256", "1.2.3", "1.2.3.4.5", "1.2.3.4.", ".1.2.3.4", "1.2.3.0004", "1..2.3",
           "::", "::1", "::1/128", "::1/127", "::1/129", "::/0", "::/128", "::1/0128", "::1/1280", "0:0:0:0:0:0:0:1", "0:0:0:0:0:0:0:1/128",
           "ff00::", "ff00::/8", "ff00::/7", "ff00::/9", "feff::", "ffff:ffff:ffff:ffff:ffff:ffff:ffff:ffff",
           "ffff:ffff:ffff:ffff:ffff:ffff:ffff:ffff/128", "ABCD:EF01:2345:6789:ABCD:EF01:2345:6789/128",
           "ABCD:EF01:2345:6789:ABCD:EF01:2345:6789/0128", "1:2:3:4:5:6:7:8", "1:2:3:4:5:6:7::", "::2:3:4:5:6:7:8",
           "1:2:3:4:5:6:7:8:9", "1:2:3:4:5:6:7", "1::2::3", ":::", "1:::2", ":1::", "::1:", "12345::", "::g", "::ffff:1.2.3.4",
           "::1.2.3.4", "1:2:3:4:5:6:1.2.3.4", "::ffff:ff00:1", "::1.2", "1.2::", "1.2.3.4:80", "[::1]", "::1%1", "1:2:3:4:5:6:7::8",
           "0:0:0:0:0:0:0::", "::0:0:0:0:0:0:0", "::0:0:0:0:0:0:0:0", "", "/", "/8", "::/", "1.2.3.4/٨", "١.2.3.4", "1.2.3.4 ", " ::1",
           "00000:0:0:0:0:0:0:1", "0000:0000:0000:0000:0000:0000:0000:0001", "0000:0000:0000:0000:0000:0000:0000:0001/128",
           "0000:0000:0000:0000:0000:0000:0000:00001"],
    "datetime": ["1970-01-01", "1970-01-01T00:00:00Z", "1970-01-01T00:00:00.000Z", "1969-12-31T23:59:59.999Z", "1969-12-31",
                 "0000-01-01", "0000-01-01T00:00:00Z", "0000-02-29", "0000-01-01T00:00:00+2359", "9999-12-31", "9999-12-31T23:59:59.999Z",
                 "9999-12-31T23:59:59.999-2359", "1900-02-29", "1900-02-28", "2000-02-29", "2024-02-29", "2023-02-29", "2100-02-29",
                 "2024-02-30", "2024-04-31", "2024-04-30", "2024-06-31", "2024-09-31", "2024-11-31", "2024-12-31", "2024-12-32",
                 "2024-00-10", "2024-13-01", "2024-01-00", "2024-01-32", "2024-01-01T23:59:60Z", "2024-01-01T23:60:00Z",
                 "2024-01-01T24:00:00Z", "2024-01-01T23:59:59Z", "2024-01-01T23:59:59.999Z", "2024-01-01T23:59:59.9999Z",
                 "2024-01-01T23:59:59.99Z", "2024-01-01T23:59:59.Z", "2024-01-01T00:00:00+2400", "2024-01-01T00:00:00+2359",
                 "2024-01-01T00:00:00-2359", "2024-01-01T00:00:00-0060", "2024-01-01T00:00:00-0059", "2024-01-01T00:00:00+0000",
                 "2024-01-01T00:00:00-0000", "2024-01-01T00:00:00", "2024-01-01T00:00", "2024-01-01T00:00:00z", "2024-01-01t00:00:00Z",
                 "2024-01-01 00:00:00Z", "2024-01-01T00:00:00.000", "2024-01-01T00:00:00+01:00", "2024-01-01T00:00:00+010", "2024-01-01T00:00:00+01000",
                 "2024-01-01T00:00:00.500+0530", "2024-01-01T00:00:00ZZ", "2024-01-01Z", "2024-01-01T", "2024-1-01", "24-01-01", "02024-01-01",
                 "2024-01-011", "-2024-01-01", "+2024-01-01", "2024/01/01", "", "2024-01-01T00:00:00Z\n", "2024-02-30T99:99:99Z", "2024-02-30T00:00:00+9999",
                 "2024-01-01T25:00:00+9999", "٢024-01-01", "2024-01-01T00:00:00Ｚ", "2024-0١-01"],
    "duration": ["0ms", "-0ms", "0d0h0m0s0ms", "1d", "1h", "1m", "1s", "1ms", "-1d", "1d2h3m4s5ms", "-1d2h3m4s5ms", "5ms", "5m", "5s5ms", "5m5ms", "5m5s",
                 "9223372036854775807ms", "9223372036854775808ms", "-9223372036854775808ms", "-9223372036854775809ms",
                 "9223372036854775s807ms", "9223372036854775s808ms", "-9223372036854775s808ms", "-9223372036854775s809ms",
                 "106751991167d", "106751991168d", "-106751991167d", "-106751991168d", "106751991167d7h12m55s807ms", "106751991167d7h12m55s808ms",
                 "-106751991167d7h12m55s808ms", "-106751991167d7h12m55s809ms", "2562047788015h", "2562047788016h", "153722867280912m", "153722867280913m",
                 "18446744073709551615ms", "18446744073709551616ms", "0d18446744073709551616ms", "18446744073709551615d", "9223372036854775807d",
                 "9223372036854775808s", "00000000000000000000000000000001ms", "", "-", "--1ms", "+1ms", "1", "d", "ms", "1D", "1 d", "1d ", " 1d", "1h1d", "1ms1s", "1s1m",
                 "1m1h", "1d1d", "1.5s", "1d-2h", "-1d-2h", "1dh", "1mss", "1msm", "1sm", "1m2ms3s", "١d", "1ｄ", "1d\n", "1ms1ms", "1m1ms1s"],
}

MUT_ALPHABET = ["0", "1", "9", "٣", "３", "+", "-", ":", ".", "/", "T", "Z", "d", "h", "m", "s", "f", "g", " ", "é"]
MUT_SEEDS = {
    "decimal": ["12.34", "-0.5", "922337203685477.5807", "-922337203685477.5808", "1.0000"],
    "ip": ["1.2.3.4", "10.0.0.0/8", "255.255.255.255/32", "::1", "ffee::/64", "1:2:3:4:5:6:7:8/128", "a::b:0/9", "::"],
    "datetime": ["2024-02-29", "1970-01-01T00:00:00Z", "2024-12-31T23:59:59.999Z", "2000-01-01T01:02:03+0530", "0000-01-01T00:00:00.000-2359"],
    "duration": ["1d2h3m4s5ms", "-1ms", "9223372036854775807ms", "0s", "12m", "7h5ms"],
}
SHORT_ALPHABET = {"decimal": "-01.9", "ip": "01:./af", "datetime": None, "duration": "-1dhms0"}


def mutations(t):
    out = {t}
    for i in range(len(t) + 1):
        for a in MUT_ALPHABET:
            out.add(t[:i] + a + t[i:])
            if i < len(t):
                out.add(t[:i] + a + t[i + 1:])
        if i < len(t):
            out.add(t[:i] + t[i + 1:])
    return sorted(out)


# ------------------------------------------------------------------ boundary VALUES (as constructor trees)
def dur_ms(n):
    return C("duration", S("%dms" % n))


def dt_ms(n):
    return C("offset", C("datetime", S("1970-01-01")), dur_ms(n))


DAY = 86400000
VAL_MS = [0, 1, -1, 999, 1000, -999, -1000, -1001, 59999, 60000, -60000, 3599999, 3600000, -3600001, DAY - 1, DAY, DAY + 1, -DAY + 1, -DAY, -DAY - 1,
          2 * DAY, -2 * DAY, 1700000000123, -1700000000123, I64_MAX, I64_MAX - 1, I64_MIN, I64_MIN + 1, I64_MAX // 2, I64_MIN // 2, I64_MAX - DAY, I64_MIN + DAY,
          I64_MAX - I64_MAX % DAY, I64_MAX - I64_MAX % DAY - 1, I64_MIN + (-I64_MIN) % DAY, I64_MIN + (-I64_MIN) % DAY + DAY, I64_MIN + (-I64_MIN) % DAY - 1]
assert all(I64_MIN <= v <= I64_MAX for v in VAL_MS)
VAL_DEC = ["0.0", "-0.0", "0.0001", "-0.0001", "1.0", "1.00", "-1.0", "1.5", "1.4999", "1.5001", "-1.5", "10.0", "9.9999", "100.01", "-100.01",
           "922337203685477.5807", "922337203685477.5806", "-922337203685477.5808", "-922337203685477.5807", "0.5", "0.50", "00.5000", "2.0", "-2.0"]
VAL_IP = ["0.0.0.0", "0.0.0.0/0", "10.0.0.0/8", "10.0.0.5/8", "10.0.0.0/7", "10.0.0.0/9", "10.255.255.255", "10.255.255.255/31", "11.0.0.0", "9.255.255.255", "10.0.0.0",
          "127.0.0.1", "127.0.0.0/8", "127.0.0.0/7", "127.0.0.0/9", "127.255.255.255/32", "128.0.0.0/1", "126.0.0.0/8", "224.0.0.0/4", "224.0.0.0/3", "239.255.255.255",
          "240.0.0.0", "232.1.1.1/5", "255.255.255.255", "255.255.255.255/0", "255.255.255.255/1", "255.255.255.254/31", "192.168.1.1/32", "192.168.1.0/24", "192.168.0.0/16",
          "::", "::/0", "::1", "::1/128", "::1/127", "::1/0", "::2", "::/127", "::ffff:ff00:1", "7f00::1", "ff00::", "ff00::/8", "ff00::/7", "ff02::1", "ff02::1/16", "fe00::/7",
          "ffff:ffff:ffff:ffff:ffff:ffff:ffff:ffff", "ffff:ffff:ffff:ffff:ffff:ffff:ffff:ffff/1", "ffff:ffff:ffff:ffff:ffff:ffff:ffff:fffe/127", "8000::/1", "7fff::/1",
          "2001:db8::/32", "2001:db8::1", "2001:db8:ffff:ffff:ffff:ffff:ffff:ffff/33", "2001:db9::/32", "2001:db8::/31", "0:0:0:0:0:0:0:1", "0.0.0.1", "1:0:0:0:0:0:0:0/16"]

RESPELL = [
    ("decimal", ["1.0", "1.00", "1.000", "1.0000", "01.0", "0001.00"]), ("decimal", ["0.0", "-0.0", "0.0000", "-00.00"]),
    ("decimal", ["-2.5", "-2.50", "-02.5000"]), ("decimal", ["922337203685477.5807", "0922337203685477.5807"]),
    ("ip", ["::1", "0:0:0:0:0:0:0:1", "::1/128", "0::1", "::0:1", "0000:0000:0000:0000:0000:0000:0000:0001", "0:0::0:1"]),
    ("ip", ["1.2.3.4", "1.2.3.4/32"]), ("ip", ["::", "0::", "::0", "0:0:0:0:0:0:0:0", "::/128", "0::0"]),
    ("ip", ["ABCD::Ef", "abcd::ef", "abcd:0::00ef", "abcd:0:0:0:0:0:0:ef/128"]), ("ip", ["10.0.0.0/8", "10.0.0.0/8"]),
    ("datetime", ["2024-01-01", "2024-01-01T00:00:00Z", "2024-01-01T00:00:00.000Z", "2024-01-01T01:00:00+0100", "2023-12-31T23:00:00-0100",
                  "2024-01-01T00:00:00+0000", "2024-01-01T00:00:00-0000", "2024-01-01T23:59:00.000+2359", "2023-12-31T00:01:00-2359"]),
    ("datetime", ["1970-01-01", "1969-12-31T23:59:00.000-0001", "1970-01-01T05:30:00.000+0530"]),
    ("duration", ["1d", "24h", "1440m", "86400s", "86400000ms", "0d24h", "23h60m", "23h59m60s", "23h59m59s1000ms", "01d"]),
    ("duration", ["0ms", "-0ms", "0d", "-0s", "0d0h0m0s0ms"]), ("duration", ["-1d", "-24h", "-86400000ms", "-23h60m"]),
    ("duration", ["9223372036854775807ms", "9223372036854775s807ms", "106751991167d7h12m55s807ms"]),
    ("duration", ["-9223372036854775808ms", "-9223372036854775s808ms", "-106751991167d7h12m55s808ms"]),
]
NOT_EQUAL = [("decimal", "1.0", "1.0001"), ("ip", "10.0.0.0/8", "10.0.0.0/9"), ("ip", "10.0.0.5/8", "10.0.0.0/8"), ("ip", "::1", "0.0.0.1"),
             ("ip", "::/0", "0.0.0.0/0"), ("datetime", "2024-01-01", "2024-01-01T00:00:00.001Z"), ("duration", "1ms", "-1ms"),
             ("ip", "::ffff:ff00:1", "255.0.0.1")]


# ------------------------------------------------------------------ case construction
def mk(tree, stream, expect=None, law=None):
    return {"tree": tree, "stream": stream, "expect": expect, "law": law}


def string_cases(rng, tier):
    out = []
    n_valid = 500 if tier == "quick" else 12000
    for fn in GEN:
        for _ in range(n_valid):
            s, exp = GEN[fn](rng)
            out.append(mk(C(fn, S(s)), "valid-grammar:" + fn, expect=("ok", exp) if exp else ("err", "ErrExt")))
        for s in BOUNDARY[fn]:
            out.append(mk(C(fn, S(s)), "boundary:" + fn))
        muts = []
        for seed in MUT_SEEDS[fn] + (BOUNDARY[fn] if tier != "quick" else []):
            muts.extend(mutations(seed))
        muts = sorted(set(muts))
        if tier == "quick":
            muts = rng.sample(muts, min(len(muts), 1500))
        for s in muts:
            out.append(mk(C(fn, S(s)), "mutation:" + fn))
        alpha = SHORT_ALPHABET[fn]
        if alpha:
            maxlen = 4 if tier == "quick" else 6
            for n in range(maxlen + 1):
                for tup in itertools.product(alpha, repeat=n):
                    out.append(mk(C(fn, S("".join(tup))), "exhaustive-short:" + fn))
    # datetime: exhaustive two-character fields around a fixed frame
    fields = ["00", "01", "09", "12", "13", "23", "24", "28", "29", "30", "31", "32", "59", "60", "99", "1", "123", "0a"]
    for a in fields:
        for b in (fields if tier != "quick" else fields[:13]):
            out.append(mk(C("datetime", S("2023-%s-%s" % (a, b))), "exhaustive-fields:datetime"))
            out.append(mk(C("datetime", S("2024-%s-%s" % (a, b))), "exhaustive-fields:datetime"))
            out.append(mk(C("datetime", S("2024-03-10T%s:%s:07Z" % (a, b))), "exhaustive-fields:datetime"))
            out.append(mk(C("datetime", S("2024-03-10T11:%s:%sZ" % (a, b))), "exhaustive-fields:datetime"))
            out.append(mk(C("datetime", S("2024-03-10T11:12:13+%s%s" % (a, b))), "exhaustive-fields:datetime"))
            out.append(mk(C("datetime", S("2024-03-10T11:12:13.5%s-%s00" % (a, b))), "exhaustive-fields:datetime"))
    for y in ([0, 1, 4, 100, 399, 400, 1900, 1970, 2000, 2023, 2024, 2100, 9999] if tier == "quick" else range(0, 10000, 7)):
        for md in ["01-01", "02-28", "02-29", "03-01", "12-31"]:
            mm, dd = int(md[:2]), int(md[3:])
            days = civil_days(y, mm, dd)
            out.append(mk(C("datetime", S("%04d-%s" % (y, md))), "year-sweep:datetime",
                          expect=("ok", ("datetime", days * DAY)) if days is not None else ("err", "ErrExt")))
    return out


def value_cases(rng, tier):
    out = []
    durs = [dur_ms(n) for n in VAL_MS]
    dts = [dt_ms(n) for n in VAL_MS] + [C("datetime", S(s)) for s in ["0000-01-01", "9999-12-31T23:59:59.999Z", "1969-12-31T23:59:59.999Z"]]
    decs = [C("decimal", S(s)) for s in VAL_DEC]
    ips = [C("ip", S(s)) for s in VAL_IP]
    for a in durs:
        for fn in ["toMilliseconds", "toSeconds", "toMinutes", "toHours", "toDays"]:
            out.append(mk(C(fn, a), "unary:" + fn))
    for a in dts:
        out.append(mk(C("toDate", a), "unary:toDate"))
        out.append(mk(C("toTime", a), "unary:toTime"))
        # toDate + toTime = original (whenever toDate is defined)
        out.append(mk(R("eq", C("offset", C("toDate", a), C("toTime", a)), a), "law:toDate+toTime", law="true_or_err"))
        out.append(mk(R("le", C("toDate", a), a), "law:toDate<=self", law="true_or_err"))
        out.append(mk(R("lt", C("toTime", a), dur_ms(DAY)), "law:toTime<day", law="true"))
        out.append(mk(R("le", dur_ms(0), C("toTime", a)), "law:0<=toTime", law="true"))
    for a in dts:
        for b in durs:
            out.append(mk(C("offset", a, b), "pair:offset"))
        for b in dts:
            out.append(mk(C("durationSince", a, b), "pair:durationSince"))
    for (xs, nm) in [(dts, "datetime"), (durs, "duration")]:
        for a in xs:
            for b in xs:
                for op in ["lt", "le", "eq"]:
                    out.append(mk(R(op, a, b), "pair:%s:%s" % (op, nm)))
    for a in decs:
        for b in decs:
            for fn in ["lessThan", "lessThanOrEqual", "greaterThan", "greaterThanOrEqual"]:
                out.append(mk(C(fn, a, b), "pair:" + fn))
            out.append(mk(R("eq", a, b), "pair:eq:decimal"))
    for a in ips:
        for fn in ["isIpv4", "isIpv6", "isLoopback", "isMulticast"]:
            out.append(mk(C(fn, a), "unary:" + fn))
        out.append(mk(C("isInRange", a, a), "law:a.isInRange(a)", law="true"))
        for b in ips:
            out.append(mk(C("isInRange", a, b), "pair:isInRange"))
            out.append(mk(R("eq", a, b), "pair:eq:ip"))
    for fn, sp in RESPELL:
        for a in sp:
            for b in sp:
                out.append(mk(R("eq", C(fn, S(a)), C(fn, S(b))), "law:respelling", law="true"))
    for fn, a, b in NOT_EQUAL:
        out.append(mk(R("eq", C(fn, S(a)), C(fn, S(b))), "law:distinct-values", law="false"))
    # type confusion / arity / unknown function / comparison of non-overloaded types
    samples = [S("1.5"), ("i", 3), ("i", I64_MIN), ("b", True), decs[3], ips[2], dts[1], durs[1], C("decimal", S("x"))]
    for fn in ARITY:
        for a in samples:
            out.append(mk(C(fn, a), "typing:" + fn))
            for b in (samples if tier != "quick" else samples[:8:2] + samples[5:]):
                out.append(mk(C(fn, a, b), "typing:" + fn))
        out.append(mk(C(fn), "typing:" + fn))
        out.append(mk(C(fn, samples[0], samples[0], samples[0]), "typing:" + fn))
    for a in samples:
        for b in samples:
            for op in ["lt", "le", "eq"]:
                out.append(mk(R(op, a, b), "typing:rel"))
    out.append(mk(C("nosuchfn", S("1.5")), "typing:unknown"))
    out.append(mk(C("nosuchfn", C("decimal", S("x"))), "typing:unknown"))
    out.append(mk(C("Decimal", S("1.5")), "typing:unknown"))
    # random operation trees over random valid values
    n = 600 if tier == "quick" else 20000
    for _ in range(n):
        k = rng.randint(0, 5)
        if k == 0:
            a, b = (C("decimal", S(gen_decimal(rng)[0])) for _ in range(2))
            out.append(mk(C(rng.choice(["lessThan", "lessThanOrEqual", "greaterThan", "greaterThanOrEqual"]), a, b), "random:decimal-cmp"))
        elif k == 1:
            a, b = (C("ip", S(gen_ip(rng)[0])) for _ in range(2))
            out.append(mk(C("isInRange", a, b), "random:isInRange"))
        elif k == 2:
            a = C("datetime", S(gen_datetime(rng)[0]))
            b = C("duration", S(gen_duration(rng)[0]))
            out.append(mk(C(rng.choice(["toDate", "toTime"]), C("offset", a, b)), "random:offset-then"))
        elif k == 3:
            a, b = (C("datetime", S(gen_datetime(rng)[0])) for _ in range(2))
            out.append(mk(C(rng.choice(["toDays", "toHours", "toMinutes", "toSeconds", "toMilliseconds"]), C("durationSince", a, b)), "random:durationSince-then"))
        elif k == 4:
            a, b = (C("duration", S(gen_duration(rng)[0])) for _ in range(2))
            out.append(mk(R(rng.choice(["lt", "le", "eq"]), a, b), "random:duration-rel"))
        else:
            a, b = (C("datetime", S(gen_datetime(rng)[0])) for _ in range(2))
            out.append(mk(R(rng.choice(["lt", "le", "eq"]), a, b), "random:datetime-rel"))
    return out


def order_laws(rust_of):
    """implementation-only laws over the pair streams: trichotomy, <= = < or ==, flipped operators,
       transitivity (over triples through the recorded pair results)"""
    fails = []
    groups = {}
    for (case, r) in rust_of:
        st = case["stream"]
        if st.startswith("pair:") and r[0] == "ok" and r[1][0] == "bool":
            t = case["tree"]
            a, b = (t[2], t[3]) if t[0] == "rel" else (t[2][0], t[2][1])
            opn = t[1]
            fam = {"lt": "rel", "le": "rel", "eq": "rel"}.get(opn, "fn") + ":" + (st.split(":")[-1] if t[0] == "rel" else
                                                                                   ("ip" if opn == "isInRange" else "decimal" if opn != "offset" else "x"))
            groups.setdefault(fam, {})[(opn, repr(a), repr(b))] = (r[1][1], case)
    for fam, tab in groups.items():
        keys = sorted(set(k[1] for k in tab))

        def g(op, x, y):
            v = tab.get((op, x, y))
            return None if v is None else v[0]
        if fam.startswith("rel:") and fam.split(":")[1] in ("datetime", "duration"):
            lt, le, eq = "lt", "le", "eq"
        elif fam == "fn:decimal":
            lt, le, eq = "lessThan", "lessThanOrEqual", None
        else:
            lt = None
        if lt:
            eqtab = groups.get("rel:decimal", {}) if fam == "fn:decimal" else tab
            for x in keys:
                for y in keys:
                    l, m, rv = g(lt, x, y), g(le, x, y), g(lt, y, x)
                    e = eqtab.get(("eq", x, y), (None,))[0]
                    if None in (l, m, rv, e):
                        continue
                    if [l, e, rv].count(True) != 1:
                        fails.append(("trichotomy", tab[(lt, x, y)][1]))
                    if m != (l or e):
                        fails.append(("<= is < or ==", tab[(le, x, y)][1]))
                    if fam == "fn:decimal":
                        if g("greaterThan", x, y) != rv or g("greaterThanOrEqual", x, y) != g(le, y, x):
                            fails.append(("greaterThan(a,b) = lessThan(b,a)", tab[("greaterThan", x, y)][1]))
            ks = keys[:24]
            for x in ks:
                for y in ks:
                    if g(lt, x, y):
                        for z in ks:
                            if g(lt, y, z) and g(lt, x, z) is False:
                                fails.append(("transitivity", tab[(lt, x, z)][1]))
        if fam == "fn:ip":
            ks = keys
            for x in ks:
                for y in ks:
                    if g("isInRange", x, y):
                        for z in ks:
                            if g("isInRange", y, z) and g("isInRange", x, z) is False:
                                fails.append(("isInRange transitivity", tab[("isInRange", x, z)][1]))
    return fails


def describe(case):
    return {"tree": t_json(case["tree"]), "text": t_text(case["tree"]), "stream": case["stream"]}


def run_cases(rep, cases, harness, driver):
    rcmds, owner = [], []
    for i, c in enumerate(cases):
        rcmds.append({"cmd": "ext_call", "route": "ast", "expr": t_json(c["tree"])})
        owner.append(i)
        txt = t_text(c["tree"])
        if txt is not None:
            rcmds.append({"cmd": "ext_call", "route": "text", "text": txt})
            owner.append(i)
    rres = fw.run_rust(harness, rcmds)
    mcmds = [[Sym("ext_call"), t_sx(c["tree"])] for c in cases]
    mres = fw.run_model(driver, mcmds)
    stats = {"streams": {}, "outcomes": {}, "routes": {"ast": 0, "text": 0}, "mismatch": 0, "oracle_fail": 0, "accepted_by_ctor": {}}
    distinct = set()
    rust_of = []
    reported = 0
    for (cmd, i, rr) in zip(rcmds, owner, rres):
        case = cases[i]
        r = canon_rust(rr)
        m = canon_model(mres[i])
        stats["routes"][cmd["route"]] += 1
        if cmd["route"] == "ast":
            rust_of.append((case, r))
            st = case["stream"]
            stats["streams"][st] = stats["streams"].get(st, 0) + 1
            oc = r[1] if r[0] == "err" else (r[0] + ":" + str(r[1][0]) if r[0] == "ok" else r[0])
            stats["outcomes"][oc] = stats["outcomes"].get(oc, 0) + 1
            t = case["tree"]
            if t[0] == "call" and t[1] in CTOR and len(t[2]) == 1 and t[2][0][0] == "s":
                d = stats["accepted_by_ctor"].setdefault(t[1], [0, 0])
                d[0 if r[0] == "ok" else 1] += 1
            h = fw.case_hash(t_json(t))
            if not (t[0] == "call" and r == ("err", "ErrArity")):
                distinct.add(h)
        # --- implementation-level oracles
        bad = None
        if r[0] in ("abnormal", "unreadable", "other") or (r[0] == "parse_error"):
            bad = "the implementation produced no value and no evaluation error: %r" % (r,)
        elif case["expect"] is not None and r != case["expect"]:
            bad = "independent recomputation (Python fractions/ipaddress/datetime) expects %r" % (case["expect"],)
        elif case["law"] == "true" and r != ("ok", ("bool", True)):
            bad = "law must evaluate to true"
        elif case["law"] == "false" and r != ("ok", ("bool", False)):
            bad = "law must evaluate to false"
        elif case["law"] == "true_or_err" and not (r == ("ok", ("bool", True)) or r == ("err", "ErrExt")):
            bad = "law must evaluate to true (or overflow)"
        if bad:
            stats["oracle_fail"] += 1
            if reported < 25:
                reported += 1
                rep.violation({"property": PROP, "kind": "extension result is not exact: " + bad, "route": cmd["route"],
                               "case": describe(case), "rust": rr, "model": repr(m), "replay": "./check C07 --replay <this file>"})
        elif r != m:
            stats["mismatch"] += 1
            if reported < 25:
                reported += 1
                # the model is the exactness oracle: a value where the model has an error, or a different value, is a wrong result
                rep.violation({"property": PROP, "kind": "result differs from the exact result computed by the model (ExtParse.xeval)",
                               "route": cmd["route"], "case": describe(case), "rust": rr, "model": repr(m),
                               "model_function": "ExtParse.xeval / call_xfn", "rust_entry": "Evaluator::interpret on ExtensionFunctionApp / binary_relation",
                               "replay": "./check C07 --replay <this file>"})
    for (why, case) in order_laws(rust_of)[:10]:
        stats["oracle_fail"] += 1
        rep.violation({"property": PROP, "kind": "ordering law violated on the implementation: " + why, "case": describe(case)})
    return stats, distinct, mcmds, mres


def run(rep, tier, seed):
    ob, dis, details, failures = fw.check_props(PROP_FILE, THEOREMS) if THEOREMS else (0, 0, {}, [])
    harness = fw.build_harness()
    driver = fw.build_model_driver()
    rng = random.Random(seed)
    cases = string_cases(rng, tier) + value_cases(rng, tier)
    stats, distinct, mcmds, mres = run_cases(rep, cases, harness, driver)
    pick = list(range(0, len(cases), max(1, len(cases) // 40)))[:40]
    nx = fw.coq_crosscheck([mcmds[i] for i in pick], [mres[i] for i in pick], PROP)
    for f in failures:
        rep.violation({"property": PROP, "kind": "proof obligation no longer checks", "detail": f}, no_failing_input=True)
    groups = {}
    for k, v in stats["streams"].items():
        groups[k.split(":")[0]] = groups.get(k.split(":")[0], 0) + v
    rep.coverage = {
        "obligations": ob, "discharged": dis,
        "checker_cmd": "make -C coq props/%s.vo (coqc 8.16.1) + Print Assumptions" % PROP_FILE,
        "trusted_base": fw.TRUSTED_BASE + ["C07: regex / chrono / std::net / from_str are modelled by hand-written Gallina recognisers (ExtParse.v) and compared with the real crates only through this correspondence; the model is the oracle for exactness, cross-checked by an independent Python recomputation on the valid-grammar streams"],
        "theorems": details,
        "evaluations": len(cases), "distinct_nontrivial": len(distinct),
        "rule": "streams: grammar-generated constructor strings with independently recomputed expected value; documented boundary strings; all single-character insert/delete/replace mutations (20-character alphabet incl. Arabic-Indic and full-width digits) of seed strings; exhaustive strings over a small alphabet per constructor (length <= %d) and exhaustive 2-character fields in datetime frames; all pairs of %d boundary millisecond values / %d decimals / %d ip values for every operation; typing/arity table; random operation trees. distinct = hash of the tree; non-trivial = anything but a wrong-arity call" % (4 if tier == "quick" else 6, len(VAL_MS), len(VAL_DEC), len(VAL_IP)),
        "traces_validated_against_impl": sum(stats["routes"].values()),
        "vm_compute_crosscheck_cases": nx,
        "routes": stats["routes"],
        "stream_histogram": stats["streams"], "stream_groups": groups,
        "outcome_histogram": stats["outcomes"],
        "constructor_accept_reject": stats["accepted_by_ctor"],
        "mismatches": stats["mismatch"], "oracle_failures": stats["oracle_fail"],
        "samples": [describe(cases[i]) for i in pick[:6]],
    }
    rep.assumptions = ["strings are sequences of Unicode scalar values (no lone surrogates)",
                       "error CLASS compared, not the message; which of FailedParse/TooManyDigits/Overflow is reported is not compared",
                       "isInRange is binary (the variadic-is-in-range cargo feature is off in the harness build)"]


def replay(rep, path):
    import json
    payload = json.load(open(path))
    case = payload.get("case")
    if not case:
        print(json.dumps(payload, indent=1)[:4000])
        return
    harness = fw.build_harness()
    driver = fw.build_model_driver()

    def from_json(j):
        if "s" in j:
            return ("s", j["s"])
        if "i" in j:
            return ("i", int(j["i"]))
        if "b" in j:
            return ("b", j["b"])
        if "call" in j:
            return ("call", j["call"], [from_json(a) for a in j["args"]])
        return ("rel", {"<": "lt", "<=": "le", "==": "eq"}[j["op"]], from_json(j["args"][0]), from_json(j["args"][1]))
    t = from_json(case["tree"])
    r = fw.run_rust(harness, [{"cmd": "ext_call", "route": "ast", "expr": t_json(t)}])[0]
    m = fw.run_model(driver, [[Sym("ext_call"), t_sx(t)]])[0]
    print("tree :", json.dumps(case["tree"]))
    print("rust :", r)
    print("model:", canon_model(m))
    if canon_rust(r) != canon_model(m):
        rep.violation({"property": PROP, "kind": "replayed case still differs", "case": case, "rust": r, "model": repr(canon_model(m))})
