"""C06 — structured policy formats (JSON/EST, PST, protobuf) are lossless.
   Oracle (on the implementation): every round trip yields an object with the same structural dump and the
   same authorization responses; the two JSON routes agree; a JSON policy evaluates like the text it prints as.
   Correspondence: model ast_to_est vs `From<ast::Template> for est::Policy` (JSON trees), model est_to_ast vs
   serde + try_into_ast_policy_or_template (accept/reject + AST) on valid and mutated JSON documents."""
import json
import random

import c06gen as G
import cedar
import framework as fw
import gen
from sx import Sym, Str

PROP = "C06"
PROP_FILE = "C06_Formats"
THEOREMS = ['c06_est_expr', 'c06_est_conditions_none', 'c06_est_conditions', 'c06_est_policy', 'c06_est_links']

MANIFEST = {
    "text": "Round trips of policies, templates and linked policy sets through JSON (EST), PST and protobuf are checked on the implementation (equal structural dumps of ids/effects/annotations/scope/conditions/link bindings and equal authorization responses), together with the agreement of the two text->JSON routes and of JSON policies with their printed text; the EST expression/policy conversions are modelled in Gallina (Json.v, Est.v) and est_to_ast (ast_to_est p) = Ok p is proved for the JSON-representable fragment; the model is tied to /repo by differential execution on generated and mutated JSON.",
    "technique": "proof (Coq, structural induction) + correspondence by differential execution + implementation-level round-trip oracle",
    "note": "c06_pst / c06_proto are NOT proved: PST and protobuf are covered by harness + oracle only.",
}


# ------------------------------------------------------------------ case construction
def world_parts(w, rng):
    return {"entities": cedar.entities_json(w.entities), "requests": G.requests_for(rng, w, 5)}


def link_slots(w, rng):
    return {"?principal": cedar.uid_json(rng.choice(w.uids)), "?resource": cedar.uid_json(rng.choice(w.uids))}


I64_MAX, I64_MIN = 2 ** 63 - 1, -(2 ** 63)
ARITH_TRIPLES = [(0, I64_MAX, 2), (I64_MAX, 1, 1), (I64_MIN, -1, -1), (2, I64_MAX, 0), (I64_MAX, I64_MAX, I64_MAX), (1, I64_MIN, 1),
                 (-1, I64_MIN, 0), (3, 2, 1), (I64_MIN, 1, I64_MAX), (0, I64_MIN, -1)]


def arith_nestings(rng):
    L = lambda n: ("lit", ("long", n))  # noqa: E731
    out = []
    for o1 in ("add", "sub", "mul"):
        for o2 in ("add", "sub", "mul"):
            for (a, b, c) in ARITH_TRIPLES + [tuple(rng.choice([0, 1, -1, 2, 7, I64_MAX, I64_MIN]) for _ in range(3)) for _ in range(3)]:
                out.append(("binop", o1, L(a), ("binop", o2, L(b), L(c))))
                out.append(("binop", o1, ("binop", o2, L(a), L(b)), L(c)))
    return out


def make_cases(rng, n_pol, n_tpl, n_set, depth):
    cases = []
    w = None
    for i in range(n_pol + n_tpl):
        if i % 4 == 0:
            w = gen.World(rng)
            wp = world_parts(w, rng)
        tpl = i >= n_pol
        p = G.gen_policy(rng, w, template=tpl, pid="p%d" % (i % 7), depth=depth)
        base = dict(wp, kind="template" if tpl else "policy", id=p["id"])
        if tpl:
            base["link_slots"] = link_slots(w, rng)
        try:
            text = G.policy_text(p)
        except cedar.NotExpressible:
            text = None
        cases.append({"p": p, "base": base, "text": text, "json": G.policy_est(p, rng), "world": w})
    # systematic: every pair of arithmetic operators in both nestings over boundary constants (a wrong parenthesisation in
    # a printer changes the value or turns a value into an overflow error only for such operands)
    w = gen.World(rng)
    wp = world_parts(w, rng)
    for k, e in enumerate(arith_nestings(rng)):
        p = {"id": "a%d" % (k % 7), "effect": "permit", "principal": ("any",), "action": ("any",), "resource": ("any",),
             "conds": [(rng.choice(["when", "unless"]), ("binop", rng.choice(["less", "lesseq", "eq"]), e, ("lit", ("long", rng.choice([0, 1, -1])))))],
             "annotations": []}
        base = dict(wp, kind="policy", id=p["id"])
        cases.append({"p": p, "base": base, "text": G.policy_text(p), "json": G.policy_est(p, rng), "world": w})
    sets = []
    for i in range(n_set):
        w = gen.World(rng)
        wp = world_parts(w, rng)
        tpls = [G.gen_policy(rng, w, True, "t%d" % k, depth - 1) for k in range(rng.choice([0, 1, 2]))]
        pols = [G.gen_policy(rng, w, False, "s%d" % k, depth - 1) for k in range(rng.choice([0, 1, 2, 3]))]
        links = []
        for k in range(rng.choice([0, 1, 2, 3]) if tpls else 0):
            t = rng.choice(tpls)
            slots = {}
            if "slot" in t["principal"]:
                slots["?principal"] = cedar.uid_json(rng.choice(w.uids))
            if "slot" in t["resource"]:
                slots["?resource"] = cedar.uid_json(rng.choice(w.uids))
            links.append({"id": "l%d" % k, "template": t["id"], "slots": slots})
        as_json = rng.random() < 0.5

        def item(p):
            if as_json:
                return {"id": p["id"], "json": G.policy_est(p, rng)}
            try:
                return {"id": p["id"], "text": G.policy_text(p)}
            except cedar.NotExpressible:
                return {"id": p["id"], "json": G.policy_est(p, rng)}
        cmd = dict(wp, kind="set", templates=[item(t) for t in tpls], policies=[item(p) for p in pols], links=links)
        if rng.random() < 0.3:
            cmd = dict(wp, kind="set", set_json={
                "templates": {t["id"]: G.policy_est(t, rng) for t in tpls},
                "staticPolicies": {p["id"]: G.policy_est(p, rng) for p in pols},
                "templateLinks": [{"templateId": l["template"], "newId": l["id"], "values": l["slots"]} for l in links]})
        sets.append({"cmd": cmd, "n": (len(tpls), len(pols), len(links))})
    return cases, sets


# ------------------------------------------------------------------ model correspondence
def dump_sx(e):
    """harness expression dump -> the S-expression form of Codec.d_expr / EstRun.e_expr"""
    k = e[0]
    name = lambda n: [Str(c) for c in n]  # noqa: E731
    if k == "lit":
        (pk, pv), = e[1].items()
        if pk == "bool":
            return [Sym("lit"), [Sym("bool"), Sym("true" if pv else "false")]]
        if pk == "long":
            return [Sym("lit"), [Sym("long"), int(pv)]]
        if pk == "string":
            return [Sym("lit"), [Sym("string"), Str(pv)]]
        return [Sym("lit"), [Sym("entity"), [Sym("uid"), name(pv["type"]), Str(pv["id"])]]]
    if k in ("var", "slot"):
        return [Sym(k), Sym(e[1])]
    if k == "unknown":
        return [Sym("unknown"), Str(e[1]), Sym("none")]
    if k == "if":
        return [Sym("if"), dump_sx(e[1]), dump_sx(e[2]), dump_sx(e[3])]
    if k in ("and", "or"):
        return [Sym(k), dump_sx(e[1]), dump_sx(e[2])]
    if k == "unop":
        return [Sym("unop"), Sym(e[1]), dump_sx(e[2])]
    if k == "binop":
        return [Sym("binop"), Sym(e[1]), dump_sx(e[2]), dump_sx(e[3])]
    if k == "ext":
        return [Sym("ext"), name(e[1]), [dump_sx(a) for a in e[2]]]
    if k in ("getattr", "hasattr"):
        return [Sym(k), dump_sx(e[1]), Str(e[2])]
    if k == "like":
        return [Sym("like"), dump_sx(e[1]), [Sym("star") if c == "star" else int(c) for c in e[2]]]
    if k == "is":
        return [Sym("is"), dump_sx(e[1]), name(e[2])]
    if k == "set":
        return [Sym("set"), [dump_sx(a) for a in e[1]]]
    if k == "record":
        return [Sym("record"), [[Str(kk), dump_sx(v)] for kk, v in e[1]]]
    raise ValueError(e)


def uid_dsx(u):
    return [Sym("uid"), [Str(c) for c in u["type"]], Str(u["id"])]


def template_dsx(t):
    """harness template dump -> the S-expression of Codec.d_template / EstRun.e_template"""
    def ref(r):
        return Sym("slot") if r == "slot" else uid_dsx(r)

    def pr(c):
        if c[0] == "any":
            return Sym("any")
        if c[0] in ("eq", "in"):
            return [Sym(c[0]), ref(c[1])]
        if c[0] == "is":
            return [Sym("is"), [Str(x) for x in c[1]]]
        return [Sym("isin"), [Str(x) for x in c[1]], ref(c[2])]
    a = t["action"]
    ac = Sym("any") if a[0] == "any" else ([Sym("eq"), uid_dsx(a[1])] if a[0] == "eq" else [Sym("in"), [uid_dsx(u) for u in a[1]]])
    b = t["body"]
    return [Sym("template"), Str(t["id"]), [[Str(k), Str(v)] for k, v in t["annotations"]], Sym(t["effect"]),
            pr(t["principal"]), ac, pr(t["resource"]), Sym("none") if b is None else [Sym("some"), dump_sx(b)]]


def sx_tree(s):
    """model e_json output -> canonical python value (object keys sorted)"""
    t = str(s[0])
    if t == "null":
        return None
    if t == "bool":
        return str(s[1]) == "true"
    if t == "int":
        return ("int", s[1])
    if t == "str":
        return "".join(chr(c) for c in s[1])
    if t == "arr":
        return [sx_tree(x) for x in s[1]]
    return {"".join(chr(c) for c in kv[0]): sx_tree(kv[1]) for kv in s[1]}


def canon_json(j):
    if isinstance(j, bool) or j is None or isinstance(j, str):
        return j
    if isinstance(j, int):
        return ("int", j)
    if isinstance(j, list):
        return [canon_json(x) for x in j]
    return {k: canon_json(v) for k, v in j.items()}


def correspondence(rep, rng, cases, harness, driver, stats, n_mut):
    import sx as _sx
    # (1) template_to_est: Rust AST -> EST vs model, on the Rust-parsed AST of every text case
    tc = [c for c in cases if c["text"] is not None]
    rres = fw.run_rust(harness, [{"cmd": "est_of_ast", "text": c["text"], "id": "p0"} for c in tc])
    mc, keep = [], []
    for c, r in zip(tc, rres):
        if "ast" in r:
            mc.append([Sym("template_to_est"), template_dsx(r["ast"])])
            keep.append((c, r))
    mres = fw.run_model(driver, mc)
    for (c, r), m in zip(keep, mres):
        stats["corr_ast_to_est"] += 1
        if isinstance(m, list) and sx_tree(m) == canon_json(r["json"]):
            continue
        stats["violations"] += 1
        rep.violation({"property": PROP, "kind": "model template_to_est differs from From<ast::Template> for est::Policy",
                       "model_function": "EstPolicy.template_to_est", "rust_entry": "est::Policy::from(ast::Template)",
                       "text": c["text"], "rust_json": r["json"], "model": _sx.dump(m),
                       "theorem_whose_transfer_is_lost": "c06_est_policy"}, no_failing_input=True)
    # (2) est_to_template: valid and mutated JSON documents (mutations anywhere in the policy object)
    docs = [(G.tree(c["json"]), "valid") for c in cases]
    pool = list(docs)
    for _ in range(n_mut):
        t, _k = rng.choice(pool)
        kinds = []
        for _m in range(rng.choice([1, 1, 1, 2, 3])):
            t, kd = G.mutate(t, rng)
            kinds.append(kd)
        if t[0] == "obj" and not G.dup_in_ignored_region(t):
            docs.append((t, "+".join(kinds)))
    rres = fw.run_rust(harness, [{"cmd": "from_json", "id": "p0", "json_str": G.tree_text(t)} for t, _ in docs])
    mcmds = [[Sym("est_to_template"), Str("p0"), G.tree_sx(t)] for t, _ in docs]
    mres = fw.run_model(driver, mcmds)
    for (t, kd), r, m in zip(docs, rres, mres):
        stats["corr_est_to_ast"] += 1
        rust_acc = "accept" in r
        for k in kd.split("+"):
            h = stats["mutation_kinds"].setdefault(k, [0, 0])
            h[0 if rust_acc else 1] += 1
        if rust_acc:
            ok = _sx.dump(m) == _sx.dump([Sym("ok"), template_dsx(r["accept"])])
        else:
            ok = "reject" in r and isinstance(m, list) and str(m[0]) == "err"
        if not ok:
            stats["violations"] += 1
            rep.violation({"property": PROP, "kind": "model est_to_template differs from serde + try_into_ast_policy_or_template (%s)" % kd,
                           "model_function": "EstPolicy.est_to_template", "rust_entry": "serde_json::from_str::<est::Policy> + try_into_ast_policy_or_template",
                           "json_str": G.tree_text(t), "rust": r, "model": _sx.dump(m)[:3000],
                           "theorem_whose_transfer_is_lost": "c06_est_expr / c06_est_policy"}, no_failing_input=True)
    return mc[:20] + mcmds[:10] + mcmds[-10:]


def has_slot_sx(t):
    """template sexp (d_template form): does the principal/resource constraint mention the slot"""
    return any(isinstance(c, list) and c and c[-1] == "slot" for c in (t[4], t[6]))


def canon_set_json(j, already=False):
    j = dict(j if already else canon_json(j))
    j["templateLinks"] = sorted(j.get("templateLinks", []), key=lambda l: l.get("newId", ""))
    return j


def gen_set_doc(rng, w, depth):
    tpls = [G.gen_policy(rng, w, True, "t%d" % k, depth) for k in range(rng.choice([0, 1, 2]))]
    pols = [G.gen_policy(rng, w, False, "s%d" % k, depth) for k in range(rng.choice([0, 1, 2, 3]))]
    links = []
    for k in range(rng.choice([0, 1, 2, 3]) if tpls else 0):
        t = rng.choice(tpls)
        slots = {}
        if "slot" in t["principal"]:
            slots["?principal"] = cedar.uid_json(rng.choice(w.uids))
        if "slot" in t["resource"]:
            slots["?resource"] = cedar.uid_json(rng.choice(w.uids))
        c = rng.random()
        if c < 0.08 and slots:
            slots.pop(rng.choice(sorted(slots)))                      # missing binding
        elif c < 0.16:
            slots[rng.choice(["?principal", "?resource"])] = cedar.uid_json(rng.choice(w.uids))   # possibly extra binding
        elif c < 0.22:
            slots = {k2: {"__entity": v} for k2, v in slots.items()}   # explicit escape
        lid = "l%d" % k
        if rng.random() < 0.06:
            lid = rng.choice(["s0", "t0", "l0"])                       # id conflicts
        links.append({"templateId": t["id"] if rng.random() > 0.05 else "nope", "newId": lid, "values": slots})
    tp = {t["id"]: G.policy_est(t, rng) for t in tpls}
    sp = {p["id"]: G.policy_est(p, rng) for p in pols}
    if tpls and rng.random() < 0.05:
        sp["t0"] = G.policy_est(G.gen_policy(rng, w, False, "t0", 1), rng)     # static id = template id
    if tpls and rng.random() < 0.05:
        sp["sx"] = tp[tpls[0]["id"]]                                           # template body among statics
    if pols and rng.random() < 0.05:
        tp["tx"] = sp[pols[0]["id"]]                                           # slot-free "template"
    return {"templates": tp, "staticPolicies": sp, "templateLinks": links}


def set_correspondence(rep, rng, harness, driver, stats, n_docs, n_mut, depth):
    import sx as _sx
    docs = []
    w = None
    for i in range(n_docs):
        if i % 3 == 0:
            w = gen.World(rng)
        docs.append((G.tree(gen_set_doc(rng, w, depth)), "valid"))
    pool = list(docs)
    for _ in range(n_mut):
        t, _k = rng.choice(pool)
        kinds = []
        for _m in range(rng.choice([1, 1, 2])):
            t, kd = G.mutate(t, rng)
            kinds.append(kd)
        if t[0] == "obj" and not G.dup_in_ignored_region(t):
            docs.append((t, "+".join(kinds)))
    texts = [G.tree_text(t) for t, _ in docs]
    rres = fw.run_rust(harness, [{"cmd": "from_json", "kind": "set", "json_str": x} for x in texts])
    mcmds = [[Sym("est_to_pset"), G.tree_sx(t)] for t, _ in docs]
    mres = fw.run_model(driver, mcmds)
    rt_idx = []
    for i, ((t, kd), r, m) in enumerate(zip(docs, rres, mres)):
        stats["corr_set"] += 1
        acc = "accept" in r
        h = stats["set_kinds"].setdefault(kd.split("+")[0], [0, 0])
        h[0 if acc else 1] += 1
        if acc:
            want_t = sorted((_sx.dump(template_dsx(x)) for x in r["accept"]["templates"]))
            want_p = sorted(_sx.dump([Str(p["id"]), [Sym("policy"), template_dsx(p["template"]),
                                                    Sym("none") if p["static"] else [Sym("some"), Str(p["id"])],
                                                    [[Sym(k), uid_dsx(u)] for k, u in p["env"]]]]) for p in r["accept"]["policies"])
            ok = isinstance(m, list) and str(m[0]) == "ok"
            if ok:
                ps = m[1]
                got_t = sorted(_sx.dump(x) for x in ps[1] if has_slot_sx(x))
                got_p = sorted(_sx.dump([e[0], [e[1][0], e[1][1], e[1][2], sorted(e[1][3], key=lambda z: str(z[0]))]]) for e in ps[2])
                ok = got_t == want_t and got_p == want_p
            if ok and kd == "valid":
                rt_idx.append(i)
        else:
            ok = "reject" in r and isinstance(m, list) and str(m[0]) == "err"
        if not ok:
            stats["violations"] += 1
            rep.violation({"property": PROP, "kind": "model est_to_pset differs from PolicySet::from_json_str (%s)" % kd,
                           "model_function": "EstSet.est_to_pset", "rust_entry": "cedar_policy::PolicySet::from_json_str",
                           "json_str": texts[i], "rust": r, "model": _sx.dump(m)[:3000],
                           "theorem_whose_transfer_is_lost": "c06_est_links"}, no_failing_input=True)
    # to_json of the AST-only set vs the model's document of the built set
    rres = fw.run_rust(harness, [{"cmd": "json_rt", "kind": "set", "set_json": json.loads(texts[i]), "requests": [], "entities": []} for i in rt_idx])
    mres = fw.run_model(driver, [[Sym("set_rt"), G.tree_sx(docs[i][0])] for i in rt_idx])
    for i, r, m in zip(rt_idx, rres, mres):
        stats["corr_set_to_json"] += 1
        if "ast_json" in r and isinstance(m, list) and str(m[0]) == "ok" and canon_set_json(sx_tree(m[1]), True) == canon_set_json(r["ast_json"]):
            continue
        stats["violations"] += 1
        rep.violation({"property": PROP, "kind": "model pset_to_estset/estset_to_est differs from PolicySet::to_json (AST route)",
                       "model_function": "EstSet.estset_to_est (pset_to_estset s)", "rust_entry": "PolicySet::from(ast).to_json()",
                       "json_str": texts[i], "rust": r.get("ast_json", r), "model": _sx.dump(m)[:3000],
                       "theorem_whose_transfer_is_lost": "c06_est_links"}, no_failing_input=True)
    return mcmds[:6]


# ------------------------------------------------------------------ oracle
TOLERATED_ERRORS = ("exceeds maximum encodable depth",)


def check_rt(rep, name, cmd, r, stats):
    """round-trip oracle on one json_rt / pst_rt / proto_rt answer"""
    if "parse_error" in r:
        stats["rejected"][name] = stats["rejected"].get(name, 0) + 1
        stats.setdefault("rejected_samples", [])
        if len(stats["rejected_samples"]) < 5:
            stats["rejected_samples"].append([name, r["parse_error"][:200], cmd.get("text") or json.dumps(cmd.get("json"))[:300]])
        return
    if "panic" in r or "harness_error" in r or "abort" in r:
        rep.violation({"property": PROP, "kind": "conversion panicked / crashed", "command": cmd, "result": r})
        stats["violations"] += 1
        return
    stats["round_trips"][name] = stats["round_trips"].get(name, 0) + 1
    a = r["a"]
    problems = []
    for tag in ("", "ast_"):
        if tag + "error" in r:
            stage, msg = r[tag + "error"]
            if any(t in msg for t in TOLERATED_ERRORS):
                stats["tolerated"][stage] = stats["tolerated"].get(stage, 0) + 1
                continue
            problems.append("%s%s failed: %s" % (tag, stage, msg[:300]))
            continue
        if r[tag + "b"] != a:
            problems.append("%sround trip yields a different object" % tag)
        if r.get(tag + "eq") is False and name.endswith("/set"):
            # ast::PolicySet derives == over insertion-ordered maps: order-sensitive, not the property's equality
            stats["set_rust_eq_false"] = stats.get("set_rust_eq_false", 0) + 1
        elif r.get(tag + "eq") is False:
            problems.append("%sRust == says the round-tripped object differs" % tag)
        if r[tag + "resp_b"] != r["resp_a"]:
            problems.append("%sround trip changes authorization responses" % tag)
        if tag + "c_error" in r:
            problems.append("%sJSON view of the round-tripped object fails: %s" % (tag, r[tag + "c_error"]))
        elif r.get(tag + "c") != a:
            problems.append("%sJSON view of the round-tripped object denotes a different object" % tag)
        if "via_str" in r and r["via_str"] != a:
            problems.append("from_json_str differs from from_json_value")
    if problems:
        stats["violations"] += 1
        rep.violation({"property": PROP, "kind": name + ": " + "; ".join(problems), "command": cmd,
                       "original": a, "result": {k: v for k, v in r.items() if k not in ("a",)},
                       "replay": "./check C06 --replay <this file>"})


def check_routes(rep, cmd, r, stats):
    if "parse_error" in r:
        stats["rejected"]["routes"] = stats["rejected"].get("routes", 0) + 1
        return
    if "ast" not in r:
        rep.violation({"property": PROP, "kind": "text_json_routes crashed", "command": cmd, "result": r})
        return
    stats["round_trips"]["routes"] = stats["round_trips"].get("routes", 0) + 1
    problems = [k for k in ("json_cst_error", "ast_cst_error", "ast_ast_error") if k in r]
    for k in ("ast_cst", "ast_ast"):
        if k in r and r[k] != r["ast"]:
            problems.append(k + " differs from the parsed policy")
    if r.get("json_cst") != r.get("json_ast"):
        stats["routes_json_differ"] = stats.get("routes_json_differ", 0) + 1
    if problems:
        stats["violations"] += 1
        rep.violation({"property": PROP, "kind": "JSON from text and JSON from the parsed policy do not convert back to equal policies: " + "; ".join(problems),
                       "command": cmd, "result": r})


def check_print(rep, cmd, r, stats):
    if "parse_error" in r:
        stats["rejected"]["print"] = stats["rejected"].get("print", 0) + 1
        return
    if "a" not in r:
        rep.violation({"property": PROP, "kind": "json_print_eval crashed", "command": cmd, "result": r})
        return
    stats["round_trips"]["print"] = stats["round_trips"].get("print", 0) + 1
    problems = []
    for tag in ("cedar", "display"):
        if tag + "_reparse_error" in r:
            problems.append("%s text does not parse: %s" % (tag, r[tag + "_reparse_error"][:300]))
        elif tag + "_b" in r:
            if r[tag + "_resp_b"] != r["resp_a"]:
                problems.append("%s text evaluates differently" % tag)
            if r[tag + "_b"] != r["a"]:
                stats["print_ast_differs"][tag] = stats["print_ast_differs"].get(tag, 0) + 1
                if r[tag + "_b"]["template"]["annotations"] != r["a"]["template"]["annotations"] or \
                        any(r[tag + "_b"]["template"][k] != r["a"]["template"][k] for k in ("effect", "principal", "action", "resource")):
                    problems.append("%s text has different effect/annotations/scope" % tag)
    if problems:
        stats["violations"] += 1
        rep.violation({"property": PROP, "kind": "JSON policy vs the Cedar text it prints as: " + "; ".join(problems),
                       "command": cmd, "result": r})


def run(rep, tier, seed):
    ob, dis, details, failures = fw.check_props(PROP_FILE, THEOREMS) if THEOREMS else (0, 0, {}, [])
    harness = fw.build_harness()
    rng = random.Random(seed)
    quick = tier == "quick"
    cases, sets = make_cases(rng, 500 if quick else 6000, 200 if quick else 2500, 200 if quick else 2500, 4 if quick else 6)
    stats = {"rejected": {}, "round_trips": {}, "tolerated": {}, "violations": 0, "print_ast_differs": {}}
    cmds, kinds = [], []
    for c in cases:
        for src in ("text", "json"):
            if c[src] is None:
                continue
            for f in ("json_rt", "pst_rt", "proto_rt"):
                cmds.append(dict(c["base"], cmd=f, **{src: c[src]}))
                kinds.append(f + "/" + c["base"]["kind"] + "/" + src)
        if c["text"] is not None:
            cmds.append({"cmd": "text_json_routes", "text": c["text"], "id": c["base"]["id"]})
            kinds.append("routes")
        if c["base"]["kind"] == "policy":
            cmds.append(dict(c["base"], cmd="json_print_eval", json=c["json"]))
            kinds.append("print")
    for s in sets:
        for f in ("json_rt", "pst_rt", "proto_rt"):
            cmds.append(dict(s["cmd"], cmd=f))
            kinds.append(f + "/set")
    res = fw.run_rust(harness, cmds)
    for cmd, kind, r in zip(cmds, kinds, res):
        if kind == "routes":
            check_routes(rep, cmd, r, stats)
        elif kind == "print":
            check_print(rep, cmd, r, stats)
        else:
            check_rt(rep, kind, cmd, r, stats)
    driver = fw.build_model_driver()
    stats.update({"corr_ast_to_est": 0, "corr_est_to_ast": 0, "mutation_kinds": {}})
    xc = correspondence(rep, rng, cases, harness, driver, stats, 2500 if quick else 40000)
    stats.update({"corr_set": 0, "corr_set_to_json": 0, "set_kinds": {}})
    xc += set_correspondence(rep, rng, harness, driver, stats, 300 if quick else 5000, 500 if quick else 8000, 3 if quick else 4)
    nx = fw.coq_crosscheck(xc, fw.run_model(driver, xc), PROP)
    ops = {}
    for c in cases:
        for _, e in c["p"]["conds"]:
            G.ops(e, ops)
    for f in failures:
        rep.violation({"property": PROP, "kind": "proof obligation no longer checks", "detail": f}, no_failing_input=True)
    distinct = len({fw.case_hash(c) for c in cmds})
    rep.coverage = {
        "obligations": ob, "discharged": dis,
        "checker_cmd": "make -C coq props/%s.vo (coqc 8.16.1) + Print Assumptions" % PROP_FILE,
        "trusted_base": fw.TRUSTED_BASE, "theorems": details,
        "evaluations": len(cmds), "distinct_nontrivial": distinct,
        "rule": "distinct by hash of the whole harness command; every command performs at least one full conversion there and back on a generated policy/template/set with >= 0 conditions",
        "traces_validated_against_impl": sum(stats["round_trips"].values()) + stats["corr_ast_to_est"] + stats["corr_est_to_ast"] + stats["corr_set"] + stats["corr_set_to_json"],
        "round_trips": stats["round_trips"], "rejected_inputs": stats["rejected"], "tolerated_errors": stats["tolerated"],
        "rejected_samples": stats.get("rejected_samples", []),
        "print_ast_differs": stats["print_ast_differs"], "routes_json_differ": stats.get("routes_json_differ", 0),
        "set_rust_eq_false_order_sensitive": stats.get("set_rust_eq_false", 0),
        "correspondence": {"template_to_est": stats["corr_ast_to_est"], "est_to_template": stats["corr_est_to_ast"],
                           "mutation_kinds_[accepted,rejected]": stats["mutation_kinds"],
                           "est_to_pset": stats["corr_set"], "set_to_json": stats["corr_set_to_json"],
                           "set_doc_kinds_[accepted,rejected]": stats["set_kinds"]},
        "vm_compute_crosscheck_cases": nx,
        "operator_histogram": ops,
        "set_shapes": {str(k): sum(1 for s in sets if s["n"] == k) for k in sorted({s["n"] for s in sets})},
        "samples": [{k: v for k, v in c.items() if k not in ("entities", "requests")} for c in cmds[:2]],
    }
    rep.assumptions = ["model correspondence: documents with duplicate keys inside a scope constraint or a link's values are filtered (serde does not look into ignored fields of buffered enums; json_nodup is a blanket rule)",
                       "nesting depth of generated conditions <= %d" % (4 if quick else 6),
                       "PST and protobuf: oracle only (no Coq model; c06_pst / c06_proto not proved)",
                       "error messages are not compared"]


def replay(rep, path):
    payload = json.load(open(path))
    harness = fw.build_harness()
    cmd = payload.get("command")
    if cmd:
        print(json.dumps(fw.run_rust(harness, [cmd])[0], indent=1)[:6000])
    else:
        print(json.dumps(payload, indent=1)[:4000])
