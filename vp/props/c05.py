"""C05 — policy text -> AST -> text round trip preserves structure and meaning.
   Oracle (on the implementation): for every accepted text t, parse(print(parse t)) succeeds and is
   structurally identical to parse t (effect, annotations, scope constraints, slots, condition); policy
   sets: same multiset of bodies; both versions evaluate identically on random requests.
   Correspondence: the Coq escape / unescape / pattern model (Unescape.v) and the expression printer
   (Print.v) against str::escape_debug, Pattern::fmt, to_unescaped_string, to_pattern and Expr::to_string."""
import json
import random

import c05gen as G
import cedar
import framework as fw
import gen
from sx import Str, Sym

PROP = "C05"
PROP_FILE = "C05_RoundTrip"
THEOREMS = ['c05_escape', 'c05_escape_pattern', 'c05_escape_relex', 'c05_escape_pattern_relex', 'c05_expr_roundtrip', 'c05_expr_roundtrip_rest', 'c05_meaning']

MANIFEST = {
    "text": "Round trip text -> AST -> text -> AST checked on the implementation for generated expressions, policies, templates and policy sets (ASTs rendered with minimal / full / redundant parentheses, random whitespace and comments; exhaustive constructor-pair nesting table; unary minus and i64 boundary texts; call styles of every extension function; reserved words; escape forms; mutated texts). Gallina models of escape/unescape/patterns, of the printer (text and tokens), of the lexer and of the expression parser with the cst_to_ast lowering are compared with the implementation on every case (escaped strings, printed text, accept/reject and AST of every accepted and rejected expression text). Proved for all inputs: unescape . escape = id (strings, patterns, any Unicode tables), printed quoted text re-lexes as one token, parse(print_toks e) = e on token lists for EVERY printable expression (c05_expr_roundtrip), and the corollary that printing never changes the evaluation result (c05_meaning). A policy-level parser model (annotations, effect, scope constraints with slots, when/unless folding) is compared with the implementation on every policy / template / set text.",
    "technique": "proof (Coq, induction with one lemma per grammar level) + correspondence by differential execution + implementation-level round-trip oracle",
}

try:                                    # the model stages attach incrementally
    import c05model as M
except ImportError:                     # pragma: no cover
    M = None


def worlds_for(rng, n=5):
    ws = []
    for _ in range(n):
        w = gen.World(rng)
        ws.append({"request": cedar.request_json(w.request), "entities": cedar.entities_json(w.entities),
                   "slots": {"?principal": cedar.uid_json(w.any_uid()), "?resource": cedar.uid_json(w.any_uid())}})
    return ws


def build_cases(rng, tier):
    """-> list of {kind, text, stream}"""
    cases = []

    def add(kind, text, stream):
        cases.append({"kind": kind, "text": text, "stream": stream})

    quick = tier == "quick"
    # 1. random ASTs in three styles x whitespace modes
    n_rand = 1200 if quick else 30000
    depth = 5 if quick else 8
    w = None
    for i in range(n_rand):
        if i % 10 == 0:
            w = gen.World(rng)
        e = gen.ExprGen(w, rng, allow_slots=True).gen(None, rng.randint(1, depth))
        style = ("min", "full", "redundant")[i % 3]
        rd = G.Render(style, rng, vary=(i % 2 == 0))
        add("expr", G.join(rd.expr(e), rng, ("tight", "space", "random")[(i // 3) % 3]), "random:" + style)
    # 2. exhaustive constructor-pair nesting table
    for name, e in G.nesting_table(tier):
        add("expr", G.join(G.Render("min").expr(e), None, "tight"), "nest:min")
        if not quick or rng.random() < 0.25:
            add("expr", G.join(G.Render("full").expr(e), None, "space"), "nest:full")
    # 3..6 text tables
    for t in G.minus_texts():
        add("expr", t, "minus")
    for t in G.call_style_texts():
        add("expr", t, "callstyle")
    for t in G.reserved_texts():
        add("expr", t, "reserved")
    for t in G.escape_texts(rng):
        add("expr", t, "escape")
    # 7. policies / templates / sets
    for t in G.POLICY_TEXTS:
        add("policy", t, "policy:fixed")
    n_pol = 500 if quick else 8000
    texts = []
    for i in range(n_pol):
        if i % 10 == 0:
            w = gen.World(rng)
        p = G.gen_policy(rng, w, 3 if quick else 5)
        rd = G.Render(("min", "full", "redundant")[i % 3], rng, vary=(i % 2 == 0))
        t = G.join(G.policy_toks(p, rd, rng), rng, ("space", "random", "tight")[i % 3])
        texts.append(t)
        add("policy", t, "policy:random")
    for i in range(100 if quick else 1500):
        k = rng.choice([0, 1, 2, 3, 5])
        add("set", rng.choice(["\n", " ", "// c\n"]).join(rng.choice(texts) for _ in range(k)), "set")
    # 8. mutated texts (reject side / near misses)
    base = [c for c in cases]
    for i in range(1500 if quick else 40000):
        c = rng.choice(base)
        t = c["text"]
        for _ in range(rng.choice([1, 1, 2])):
            t = G.mutate(t, rng)
        add(c["kind"], t, "mutated")
    return cases


def canon_set(asts):
    return sorted(asts)


def oracle(case, r):
    """the property on the implementation's own results; returns a failure description or None"""
    if "panic" in r or "harness_error" in r or "abort" in r:
        return "no result: %s" % json.dumps(r)[:300]
    if not r.get("accepted"):
        return None
    rp = r.get("reparse", {})
    if "error" in rp:
        return "printed form of an accepted text does not parse: %s" % rp["error"].get("msg", "")[:300]
    a1, a2 = r["ast"], rp["ast"]
    if case["kind"] == "set":
        if canon_set(a1) != canon_set(a2):
            return "policy set: multiset of bodies changed by printing"
    elif a1 != a2:
        return "structure changed by printing"
    if not r.get("eq_shape", True):
        return "eq_shape false on the re-parsed object"
    if "eval1" in r:
        e1, e2 = r["eval1"], r["eval2"]
        if case["kind"] == "set":
            e1, e2 = sorted(map(json.dumps, e1)), sorted(map(json.dumps, e2))
        if e1 != e2:
            return "meaning changed by printing (evaluation differs)"
    return None


def run_rust_roundtrip(harness, cases, worlds):
    cmds = [{"cmd": "c05_roundtrip", "kind": c["kind"], "text": c["text"], "worlds": worlds} for c in cases]
    return fw.run_rust(harness, cmds)


def shrink(harness, case, worlds):
    """delete characters / chunks while the oracle still fails"""
    best = case
    text = case["text"]
    budget = 60
    chunk = max(1, len(text) // 4)
    while chunk >= 1 and budget > 0:
        i = 0
        progressed = False
        while i < len(text) and budget > 0:
            cand = text[:i] + text[i + chunk:]
            budget -= 1
            c2 = dict(case, text=cand)
            r = run_rust_roundtrip(harness, [c2], worlds)[0]
            if cand and oracle(c2, r):
                text, best, progressed = cand, c2, True
            else:
                i += chunk
        if not progressed:
            chunk //= 2
    return best


def run(rep, tier, seed):
    ob, dis, details, failures = fw.check_props(PROP_FILE, THEOREMS, tier) if THEOREMS else (0, 0, {}, [])
    harness = fw.build_harness()
    driver = fw.build_model_driver() if M is not None else None
    rng = random.Random(seed)
    worlds = worlds_for(rng)
    cases = build_cases(rng, tier)
    res = run_rust_roundtrip(harness, cases, worlds)
    stats = {"accepted": 0, "rejected": 0, "by_stream": {}, "reject_classes": {}, "kinds": {}}
    distinct = set()
    nviol = 0
    accepted = []
    for c, r in zip(cases, res):
        st = stats["by_stream"].setdefault(c["stream"], {"accepted": 0, "rejected": 0})
        stats["kinds"][c["kind"]] = stats["kinds"].get(c["kind"], 0) + 1
        if r.get("accepted"):
            stats["accepted"] += 1
            st["accepted"] += 1
            h = fw.case_hash([c["kind"], r["ast"]])
            # non-trivial: the AST has at least one operator / access (its dump nests at least twice)
            if json.dumps(r["ast"]).count("(") >= 3:
                distinct.add(h)
            accepted.append((c, r))
        elif "error" in r:
            stats["rejected"] += 1
            st["rejected"] += 1
            k = r["error"].get("class", "?")
            stats["reject_classes"][k] = stats["reject_classes"].get(k, 0) + 1
        why = oracle(c, r)
        if why:
            nviol += 1
            if nviol <= 5:
                small = shrink(harness, c, worlds)
                rr = run_rust_roundtrip(harness, [small], worlds)[0]
                rep.violation({"property": PROP, "kind": why, "input": {"kind": small["kind"], "text": small["text"]},
                               "original_text": c["text"], "stream": c["stream"], "rust": rr,
                               "replay": "./check C05 --replay <this file>"})
    model_stats = {}
    nx = 0
    if M is not None:
        M.TAG = "C05_%s_%d" % ("r" if fw.REPO == "/repo" else "m", seed)
        model_stats, nx = M.correspondence(rep, rng, tier, harness, driver, accepted, cases, res)
    for f in failures:
        rep.violation({"property": PROP, "kind": "proof obligation no longer checks", "detail": f}, no_failing_input=True)
    sample = [{"kind": c["kind"], "text": c["text"], "printed": r.get("printed")} for c, r in accepted[:2] + accepted[-2:]]
    rep.coverage = {
        "obligations": ob, "discharged": dis,
        "checker_cmd": "make -C coq props/%s.vo (coqc 8.16.1) + Print Assumptions" % PROP_FILE,
        "trusted_base": fw.TRUSTED_BASE, "theorems": details,
        "evaluations": len(cases), "distinct_nontrivial": len(distinct),
        "rule": "distinct by hash of the parsed AST dump; non-trivial = accepted and the AST has >= 3 nodes; every accepted text is parsed, printed, re-parsed, compared structurally (dump equality + Expr::eq_shape) and evaluated on 5 random requests in both versions",
        "traces_validated_against_impl": len(cases) + model_stats.get("model_cases", 0),
        "vm_compute_crosscheck_cases": nx,
        "accept_reject": {"accepted": stats["accepted"], "rejected": stats["rejected"]},
        "by_stream": stats["by_stream"], "reject_class_histogram": stats["reject_classes"], "kinds": stats["kinds"],
        "model": model_stats, "oracle_failures": nviol,
        "samples": sample,
    }
    rep.assumptions = ["error messages / source locations / LALRPOP error recovery / tolerant-ast are not compared",
                       "policy ids are order-derived and excluded from the structural comparison",
                       "evaluation compared on 5 random requests per run (values canonical, error class only)"]


def replay(rep, path):
    payload = json.load(open(path))
    harness = fw.build_harness()
    inp = payload.get("input")
    if not inp:
        print(json.dumps(payload, indent=1)[:4000])
        return
    rng = random.Random(0)
    worlds = worlds_for(rng)
    r = run_rust_roundtrip(harness, [inp], worlds)[0]
    why = oracle(inp, r)
    print(json.dumps({"input": inp, "rust": r, "oracle": why}, indent=1)[:6000])
    if why:
        rep.violation({"property": PROP, "kind": why, "input": inp, "rust": r})
